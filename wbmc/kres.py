"""Shared helpers for the k-resolved differential checks C04 (periodicity / gauge independence) and
C05 (relabelling / co-centred rotation of the Wannier basis).

Everything here drives the real code (`evaluate_k`, `run`, `Grid`, `System_R`); the only models are
* `ScriptedUnitaries` — stands in for `scipy.stats.unitary_group` (the seam `Data_K.UU_K` imports at
  call time) and answers from an enumerated alphabet instead of Haar-random matrices;
* plain-numpy constructions of test systems (point degeneracies, H0 (x) 1_m, co-centred rotations).
"""
import contextlib
import os
import shutil
import tempfile

import numpy as np

from . import zoo

MATS = {
    "ham": ("Ham",),
    "core": ("Ham", "AA", "BB", "CC", "SS"),
    "nospin": ("Ham", "AA", "BB", "CC"),
    "full": ("Ham", "AA", "BB", "CC", "SS", "SH", "SA", "SHA", "SR", "SHR", "FF"),
}


@contextlib.contextmanager
def rundir(tag):
    """per-case scratch directory under /tmp for the files run() writes; removed when the case ends"""
    d = tempfile.mkdtemp(prefix=f"wbmc_{tag}_", dir="/tmp")
    try:
        yield d
    finally:
        shutil.rmtree(d, ignore_errors=True)


# ------------------------------------------------------------------------------------------------
#  systems
# ------------------------------------------------------------------------------------------------

def _kp_dirac():
    """4x4 massive Dirac k.p model: every level doubly degenerate at every k, analytic derivatives"""
    from wannierberri.system.system_kp import SystemKP
    s0 = np.eye(2)
    sx = np.array([[0, 1], [1, 0]], dtype=complex)
    sy = np.array([[0, -1j], [1j, 0]])
    sz = np.array([[1, 0], [0, -1]], dtype=complex)
    G = [np.kron(sx, sx), np.kron(sx, sy), np.kron(sx, sz)]
    G4 = np.kron(sz, s0)
    m, b, v = 0.4, 0.7, (1.0, 0.8, 1.3)

    def ham(k):
        k = np.asarray(k, dtype=float)
        return sum(v[i] * k[i] * G[i] for i in range(3)) + (m + b * k.dot(k)) * G4

    def dham(k):
        k = np.asarray(k, dtype=float)
        return np.stack([v[i] * G[i] + 2 * b * k[i] * G4 for i in range(3)], axis=-1)

    def d2ham(k):
        out = np.zeros((4, 4, 3, 3), dtype=complex)
        for i in range(3):
            out[:, :, i, i] = 2 * b * G4
        return out

    def d3ham(k):
        return np.zeros((4, 4, 3, 3, 3), dtype=complex)

    return SystemKP(Ham=ham, derHam=dham, der2Ham=d2ham, der3Ham=d3ham, kmax=1.0, silent=True)


def _kp_mass():
    """2x2 anisotropic-mass + Zeeman-like k.p model, non-degenerate, analytic derivatives"""
    from wannierberri.system.system_kp import SystemKP
    sx = np.array([[0, 1], [1, 0]], dtype=complex)
    sy = np.array([[0, -1j], [1j, 0]])
    sz = np.array([[1, 0], [0, -1]], dtype=complex)
    s0 = np.eye(2, dtype=complex)
    a = np.array([1.0, 0.6, 1.7])
    P = [sx, sy, sz]
    v = (0.5, 0.9, 0.3)

    def ham(k):
        k = np.asarray(k, dtype=float)
        return (a * k * k).sum() * s0 + sum(v[i] * k[i] * P[i] for i in range(3)) + 0.35 * sz

    def dham(k):
        k = np.asarray(k, dtype=float)
        return np.stack([2 * a[i] * k[i] * s0 + v[i] * P[i] for i in range(3)], axis=-1)

    def d2ham(k):
        out = np.zeros((2, 2, 3, 3), dtype=complex)
        for i in range(3):
            out[:, :, i, i] = 2 * a[i] * s0
        return out

    def d3ham(k):
        return np.zeros((2, 2, 3, 3, 3), dtype=complex)

    return SystemKP(Ham=ham, derHam=dham, der2Ham=d2ham, der3Ham=d3ham, kmax=1.0, silent=True)


def hk_from_R(system, k):
    """independent explicit sum  H(k) = sum_R H_R exp(2 pi i k.R)  (the gauge Data_K_R diagonalises)"""
    iR = system.rvec.iRvec
    H = np.einsum("rab,r->ab", system.get_R_mat("Ham"), np.exp(2j * np.pi * iR.dot(np.asarray(k, dtype=float))))
    return 0.5 * (H + H.conj().T)


def make_point_degenerate(system, k0, mult, levels=None):
    """add a Hermitian on-site term so that H(k0) has multiplets of the sizes `mult` (bottom to top),
    placed on well separated levels (or on the given `levels`, one per multiplet); H(-R)=H(R)^+ is preserved
    (only R=0 changes, by a Hermitian matrix)"""
    assert sum(mult) == system.num_wann
    H = hk_from_R(system, k0)
    E, U = np.linalg.eigh(H)
    if levels is None:
        levels = [-1.5 + 1.3 * j for j in range(len(mult))]
    E2 = np.concatenate([np.full(m, float(levels[j])) for j, m in enumerate(mult)])
    system.get_R_mat("Ham")[system.rvec.iR0] += (U * (E2 - E)[None, :]).dot(U.conj().T)
    return system


def make_tensor_degenerate(nw0, mult, lat, rs, seed, mats):
    """Ham = H0 (x) 1_mult (every level `mult`-fold degenerate at every k, copies co-centred) while the other
    matrices (AA, BB, CC, SS ...) stay generic, i.e. act non-trivially inside the multiplets"""
    s0 = zoo.make_system(nw0, lat, rs, "generic", seed=seed, matrices=("Ham",), tag="tensor0")
    cen = np.repeat(zoo.centres("generic", nw0), mult, axis=0)
    s = zoo.make_system(nw0 * mult, lat, rs, cen, seed=seed, matrices=mats, tag="tensor")
    H0 = s0.get_R_mat("Ham")
    H = np.zeros_like(s.get_R_mat("Ham"))
    for i in range(mult):
        H[:, i::mult, i::mult] = H0
    s.set_R_mat("Ham", H, reset=True)
    return s


def build_system(spec, seed):
    """spec: JSON dict.  kind = zoo | model | kp | tensor ; optional 'double', 'pointdeg'"""
    from wannierberri.system.system_R import System_R
    kind = spec["kind"]
    if kind == "zoo":
        s = zoo.make_system(spec["nw"], spec["lat"], spec["rs"], spec["cen"], seed=seed,
                            matrices=MATS[spec.get("mats", "core")], tag=spec.get("tag", ""))
    elif kind == "tensor":
        s = make_tensor_degenerate(spec["nw0"], spec["mult"], spec["lat"], spec["rs"], seed, MATS[spec.get("mats", "core")])
    elif kind == "model":
        from wannierberri import models
        name = spec["name"]
        if name == "Chiral":
            s = System_R.from_pythtb(models.Chiral(), silent=True)
        elif name == "Haldane":
            s = System_R.from_pythtb(models.Haldane_ptb(), silent=True)
        elif name == "KaneMele":
            s = System_R.from_pythtb(models.KaneMele_ptb("odd"), spin=True, silent=True)
        else:
            raise KeyError(name)
    elif kind == "kp":
        s = {"dirac": _kp_dirac, "mass": _kp_mass}[spec["name"]]()
    else:
        raise KeyError(kind)
    if spec.get("double"):
        s.double_spin()
    if spec.get("pointdeg"):
        make_point_degenerate(s, spec["pointdeg"]["k"], spec["pointdeg"]["mult"], spec["pointdeg"].get("levels"))
    return s


def has(system, key):
    try:
        return bool(system.has_R_mat(key))
    except Exception:
        return False


# ------------------------------------------------------------------------------------------------
#  calculators
# ------------------------------------------------------------------------------------------------

def tabulators(system, level="core"):
    """fresh Tabulator instances applicable to `system` (level: core | full)"""
    from wannierberri.calculators import tabulate as tab
    ext = has(system, "AA") and not system.force_internal_terms_only
    spin = has(system, "SS")
    out = {"Energy": tab.Energy(), "Velocity": tab.Velocity(),
           "Berry_int": tab.BerryCurvature(kwargs_formula={"external_terms": False}),
           "InvMass": tab.InvMass()}
    if ext:
        out["Velocity_ext"] = tab.Velocity(kwargs_formula={"external_terms": True})
        out["Berry"] = tab.BerryCurvature()
        out["Berry_ext"] = tab.BerryCurvature(kwargs_formula={"internal_terms": False})
    if ext and has(system, "BB") and has(system, "CC"):
        out["Morb"] = tab.OrbitalMoment()
    elif not ext:
        out["Morb"] = tab.OrbitalMoment(kwargs_formula={"external_terms": False})
    if spin:
        out["Spin"] = tab.Spin()
    if level in ("full", "deep"):
        out["DerBerry"] = tab.DerBerryCurvature(kwargs_formula={} if ext else {"external_terms": False})
        out["Der3E"] = tab.Der3E()
        if "Morb" in out:
            out["DerMorb"] = tab.DerOrbitalMoment(kwargs_formula={} if ext else {"external_terms": False})
        if spin:
            out["DerSpin"] = tab.DerSpin()
            out["SpinBerry_simple"] = tab.SpinBerry(kwargs_formula={"spin_current_type": "simple",
                                                                    "external_terms": ext})
            if ext and has(system, "SA") and has(system, "SHA"):
                out["SpinBerry_ryoo"] = tab.SpinBerry(kwargs_formula={"spin_current_type": "ryoo"})
            if ext and has(system, "SR") and has(system, "SH") and has(system, "SHR"):
                out["SpinBerry_qiao"] = tab.SpinBerry(kwargs_formula={"spin_current_type": "qiao"})
    if level == "deep":
        kf = {} if ext else {"external_terms": False}
        out["Der2Berry"] = tab.Der2BerryCurvature(kwargs_formula=kf)
        if "Morb" in out:
            out["Der2Morb"] = tab.Der2OrbitalMoment(kwargs_formula=kf)
        if spin:
            out["Der2Spin"] = tab.Der2Spin()
    return out


def integrators(system, Efermi, omega, level="core", covariant_only=False, tetra=False):
    """fresh static + dynamic calculators applicable to `system`.
    covariant_only: leave out the calculators whose formulas use band-diagonal matrix elements
    (ShiftCurrent, InjectionCurrent) and are therefore defined for non-degenerate bands only."""
    from wannierberri.calculators import static as st, dynamic as dy
    ext = has(system, "AA") and not system.force_internal_terms_only
    morb_ok = (not ext) or (has(system, "BB") and has(system, "CC"))
    spin = has(system, "SS")
    kf = {} if ext else {"external_terms": False}
    kw = dict(Efermi=Efermi, kwargs_formula=kf)
    out = {"CumDOS": st.CumDOS(Efermi=Efermi), "DOS": st.DOS(Efermi=Efermi),
           "AHC": st.AHC(**kw), "Ohmic_FermiSea": st.Ohmic_FermiSea(Efermi=Efermi),
           "Ohmic_FermiSurf": st.Ohmic_FermiSurf(Efermi=Efermi),
           "BerryDipole_FermiSurf": st.BerryDipole_FermiSurf(**kw)}
    if morb_ok:
        out["Morb"] = st.Morb(**kw)
    if spin:
        out["Spin"] = st.Spin(Efermi=Efermi)
    dyn = dict(Efermi=Efermi[1:-1:2] if len(Efermi) > 3 else Efermi, omega=omega, smr_fixed_width=0.15, kBT=0.05)
    out["JDOS"] = dy.JDOS(**dyn)
    out["OpticalConductivity"] = dy.OpticalConductivity(kwargs_formula=kf, **dyn)
    if tetra:
        out["AHC_tetra"] = st.AHC(tetra=True, **kw)
        out["DOS_tetra"] = st.DOS(Efermi=Efermi, tetra=True)
    if level == "full":
        out["BerryDipole_FermiSea"] = st.BerryDipole_FermiSea(**kw)
        out["Hall_classic_FermiSea"] = st.Hall_classic_FermiSea(Efermi=Efermi)
        out["Hall_classic_FermiSurf"] = st.Hall_classic_FermiSurf(Efermi=Efermi)
        out["NLDrude_FermiSea"] = st.NLDrude_FermiSea(Efermi=Efermi)
        out["NLDrude_FermiSurf"] = st.NLDrude_FermiSurf(Efermi=Efermi)
        out["NLDrude_Fermider2"] = st.NLDrude_Fermider2(Efermi=Efermi)
        if morb_ok:
            out["GME_orb_FermiSea"] = st.GME_orb_FermiSea(**kw)
            out["GME_orb_FermiSurf"] = st.GME_orb_FermiSurf(**kw)
            out["AHC_Zeeman_orb"] = st.AHC_Zeeman_orb(**kw)
        if spin:
            out["GME_spin_FermiSea"] = st.GME_spin_FermiSea(Efermi=Efermi)
            out["GME_spin_FermiSurf"] = st.GME_spin_FermiSurf(Efermi=Efermi)
            out["AHC_Zeeman_spin"] = st.AHC_Zeeman_spin(**kw)
            kfs = dict(kf)
            kfs["spin_current_type"] = "simple"
            out["SHC_static_simple"] = st.SHC(Efermi=Efermi, kwargs_formula=kfs)
            out["SHC_dyn_simple"] = dy.SHC(SHC_type="simple", kwargs_formula=kf, **dyn)
            if ext and has(system, "SA") and has(system, "SHA"):
                out["SHC_static_ryoo"] = st.SHC(Efermi=Efermi, kwargs_formula={"spin_current_type": "ryoo"})
                out["SHC_dyn_ryoo"] = dy.SHC(SHC_type="ryoo", **dyn)
            if ext and has(system, "SR") and has(system, "SH") and has(system, "SHR"):
                out["SHC_static_qiao"] = st.SHC(Efermi=Efermi, kwargs_formula={"spin_current_type": "qiao"})
                out["SHC_dyn_qiao"] = dy.SHC(SHC_type="qiao", **dyn)
        if ext and has(system, "FF"):
            out["AHC_test"] = st.AHC_test(Efermi=Efermi)
            out["QuantumMetric_FermiSea"] = st.QuantumMetric_FermiSea(Efermi=Efermi)
        if not covariant_only:
            out["ShiftCurrent"] = dy.ShiftCurrent(sc_eta=0.1, kwargs_formula=kf, **dyn)
            out["InjectionCurrent"] = dy.InjectionCurrent(kwargs_formula=kf, **dyn)
    return out


def energy_windows(system, kpoints):
    """Efermi / omega alphabets placed inside the band range seen at `kpoints` (independent explicit sum
    for R-space systems, system.Ham for k.p)"""
    from wannierberri.system.system_kp import SystemKP
    Es = []
    for k in kpoints:
        if isinstance(system, SystemKP):
            Es.append(np.linalg.eigvalsh(system.Ham(k)))
        else:
            Es.append(np.linalg.eigvalsh(hk_from_R(system, k)))
    Es = np.array(Es)
    lo, hi = float(Es.min()), float(Es.max())
    w = max(hi - lo, 1e-3)
    Efermi = np.linspace(lo + 0.12 * w, hi - 0.12 * w, 7)
    omega = np.linspace(0.15 * w, 0.75 * w, 4)
    return Efermi, omega


def grid_kpoints(nk):
    return [np.array([i / nk[0], j / nk[1], l / nk[2]]) for i in range(nk[0]) for j in range(nk[1]) for l in range(nk[2])]


def fft_shape(system):
    per = np.array(system.periodic, dtype=bool)
    return tuple(int(x) for x in np.where(per, 2, 1))


# ------------------------------------------------------------------------------------------------
#  running the real code
# ------------------------------------------------------------------------------------------------

def to_arrays(resdict):
    """{name: Result} -> {name: ndarray}; TABresult entries are expanded to name/quantity (+ name/kpoints)"""
    out = {}
    for name, val in resdict.items():
        if hasattr(val, "results") and hasattr(val, "kpoints"):      # TABresult
            out[name + "/kpoints"] = np.array(val.kpoints, dtype=float)
            for q, v in val.results.items():
                out[name + "/" + q] = np.array(v.data)
        elif hasattr(val, "data"):
            d = val.data
            out[name] = np.array(d[0]) if isinstance(d, list) else np.array(d)
        else:
            out[name] = np.array(val)
    return out


def eval_k(system, k, calculators, parameters_K=None):
    import wannierberri as wb
    # k as an array: evaluate_k hands it to Data_K as dK, and Data_K_k indexes dK[None]
    res = wb.evaluate_k(system, k=np.array(k, dtype=float), calculators=calculators,
                        parameters_K=dict(parameters_K or {}), return_single_as_dict=True)
    return to_arrays(res)


def run_grid(system, calculators, tag, parameters_K=None, nkfft=None):
    """run() on the Gamma-centred NKFFT=2 grid (one K-point), serial, files in a per-case scratch directory"""
    import wannierberri as wb
    nkfft = fft_shape(system) if nkfft is None else nkfft
    with rundir(tag) as d:
        grid = wb.Grid(system, NKdiv=1, NKFFT=list(nkfft))
        res = wb.run(system, grid, calculators, parallel=False, use_irred_kpt=False, symmetrize=False,
                     adpt_num_iter=0, fout_name=os.path.join(d, "result"),
                     file_Klist_path=os.path.join(d, "_tmp_wb"),
                     parameters_K=dict(parameters_K or {}), print_progress_step_time=1e9)
        return to_arrays(res.results)


# ------------------------------------------------------------------------------------------------
#  comparison
# ------------------------------------------------------------------------------------------------

def units_of(calculators):
    """natural unit of every output: |constant_factor| of the calculator (the raw k-space quantities of the
    zoo / bundled models are O(1) in eV, Angstrom).  Used as the scale for outputs that vanish by symmetry."""
    out = {}
    for name, c in calculators.items():
        if hasattr(c, "tabulators"):
            out[name + "/kpoints"] = 1.0
            for q, t in c.tabulators.items():
                out[name + "/" + q] = abs(float(getattr(t, "constant_factor", 1.0))) or 1.0
        else:
            out[name] = abs(float(getattr(c, "constant_factor", 1.0))) or 1.0
    return out


def diff_report(ref, got, rtol, units=None, afloor=1e-11):
    """compare two {name: array} dicts.  returns list of (name, abs diff, scale) for entries that differ by
    more than max(rtol * scale, afloor * unit): scale = max(|ref|_inf, |got|_inf) over the whole array
    (band/energy/component resolved entries share the array's scale); unit = units[name] is the natural
    unit of the output (see units_of) so that outputs which vanish by symmetry (round-off sized arrays) are
    compared on the scale of their contributions and not relative to themselves."""
    bad = []
    for name in sorted(set(ref) | set(got)):
        if name not in ref or name not in got:
            bad.append((name, float("inf"), 0.0, "missing"))
            continue
        a, b = np.asarray(ref[name]), np.asarray(got[name])
        if a.shape != b.shape:
            bad.append((name, float("inf"), 0.0, f"shape {a.shape} vs {b.shape}"))
            continue
        if a.size == 0:
            continue
        if not (np.all(np.isfinite(a)) and np.all(np.isfinite(b))):
            if np.array_equal(np.isfinite(a), np.isfinite(b)) and np.allclose(a[np.isfinite(a)], b[np.isfinite(b)], rtol=rtol, atol=0):
                continue
            bad.append((name, float("nan"), 0.0, "non-finite"))
            continue
        d = float(np.abs(a - b).max())
        scale = max(float(np.abs(a).max()), float(np.abs(b).max()))
        unit = 1.0 if units is None else float(units.get(name, 1.0))
        if d <= max(rtol * scale, afloor * unit):
            continue
        bad.append((name, d, scale, ""))
    return bad


# ------------------------------------------------------------------------------------------------
#  the unitary_group seam
# ------------------------------------------------------------------------------------------------

class ScriptedUnitaries:
    """stands in for scipy.stats.unitary_group: rvs(dim) answers chooser(call_index, dim) -> (name, U)"""

    def __init__(self, chooser):
        self.chooser = chooser
        self.calls = []

    def rvs(self, dim=2, size=1, random_state=None):
        name, U = self.chooser(len(self.calls), int(dim))
        self.calls.append((int(dim), name))
        return np.array(U, dtype=complex)


@contextlib.contextmanager
def unitary_seam(chooser):
    """Data_K.UU_K does `from scipy.stats import unitary_group` at call time: replace that module attribute"""
    import scipy.stats
    orig = scipy.stats.unitary_group
    fake = ScriptedUnitaries(chooser)
    scipy.stats.unitary_group = fake
    orig.rvs = fake.rvs         # instance attribute: also reaches a module-level `from scipy.stats import unitary_group`
    try:
        yield fake
    finally:
        scipy.stats.unitary_group = orig
        del orig.rvs


def alphabet(dim):
    """ordered (name, U) list for one multiplet size"""
    return list(zoo.unitary_alphabet(dim).items())
