"""Deterministic tiny systems built in memory through the public System_R API (no data files).

The alphabets are explicit; `seed` only drives the "generic element" matrix entries.
"""
import hashlib
import itertools

import numpy as np

SQ3 = np.sqrt(3.0)

LATTICES = {
    "sc": [[1, 0, 0], [0, 1, 0], [0, 0, 1]],
    "tet": [[1, 0, 0], [0, 1, 0], [0, 0, 1.3]],
    "orth": [[1, 0, 0], [0, 1.2, 0], [0, 0, 1.5]],
    "hex": [[1, 0, 0], [-0.5, SQ3 / 2, 0], [0, 0, 1.6]],
    "fcc": [[0, 0.5, 0.5], [0.5, 0, 0.5], [0.5, 0.5, 0]],
    "bcc": [[-0.5, 0.5, 0.5], [0.5, -0.5, 0.5], [0.5, 0.5, -0.5]],
    "mono": [[1, 0, 0], [0, 1.1, 0], [0.3, 0, 1.4]],
    "tric": [[1.0, 0.1, 0.2], [0.3, 0.9, -0.1], [-0.2, 0.25, 0.8]],
}


def lattice(name):
    return np.array(LATTICES[name], dtype=float)


def rset(name):
    """R-vector alphabets (all closed under R -> -R unless stated)"""
    if name == "R0":
        R = [(0, 0, 0)]
    elif name == "shell1":
        R = [(0, 0, 0)] + [tuple(s * np.eye(3, dtype=int)[i]) for i in range(3) for s in (1, -1)]
    elif name == "shell2":
        R = [r for r in itertools.product((-1, 0, 1), repeat=3) if sum(abs(x) for x in r) <= 2]
    elif name == "lopsided":
        R = [(0, 0, 0), (1, 0, 0), (-1, 0, 0), (2, -1, 0), (-2, 1, 0), (0, 1, 3), (0, -1, -3), (1, 1, 1), (-1, -1, -1)]
    elif name == "planar":
        R = [r + (0,) for r in itertools.product((-1, 0, 1), repeat=2)]
    elif name == "chain":
        R = [(i, 0, 0) for i in (-2, -1, 0, 1, 2)]
    elif name == "r15":      # exactly 15 vectors: the text formats print 15 degeneracies per header line
        half = [(1, 0, 0), (0, 1, 0), (0, 0, 1), (1, 1, 0), (1, 0, 1), (0, 1, 1), (1, -1, 0)]
        R = [(0, 0, 0)] + half + [tuple(-x for x in r) for r in half]
    elif name == "cube2":
        R = [r for r in itertools.product((-2, -1, 0, 1, 2), repeat=3) if max(abs(x) for x in r) <= 2 and sum(abs(x) for x in r) <= 3]
    else:
        raise KeyError(name)
    return [tuple(int(x) for x in r) for r in R]


CENTRES = {
    "zero": lambda n: np.zeros((n, 3)),
    "generic": lambda n: np.array([[0.11 + 0.17 * i, 0.23 - 0.31 * i, 0.37 + 0.13 * i * i] for i in range(n)]),
    "half": lambda n: np.array([[0.5 * ((i + 1) % 2), 0.5 * ((i // 2 + 1) % 2), 0.5 * (i % 2)] for i in range(n)]),
    "thirds": lambda n: np.array([[(1 + i % 2) / 3., (2 - i % 2) / 3., 0.25 * (i // 2)] for i in range(n)]),
    "outside": lambda n: np.array([[1.25 + i, -0.5 - 0.25 * i, 0.1 * i] for i in range(n)]),
    "shared": lambda n: np.array([[0.2, 0.3, 0.1] if i < 2 else [0.6 + 0.05 * i, 0.1, 0.45] for i in range(n)]),
}


def centres(name, n):
    return np.array(CENTRES[name](n), dtype=float)


def rng_for(seed, *tags):
    h = hashlib.sha1(repr((int(seed),) + tags).encode()).digest()
    return np.random.default_rng(int.from_bytes(h[:8], "little"))


NCART = {"Ham": 0, "AA": 1, "BB": 1, "CC": 1, "SS": 1, "SH": 1, "OO": 1,
         "SHA": 2, "SA": 2, "SR": 2, "SHR": 2, "GG": 2, "FF": 2}
HERMITIAN = {"Ham", "AA", "SS", "CC", "OO", "GG"}


def random_R_matrix(rng, iRvec, nw, ncart, lat, decay=1.0):
    iRvec = np.asarray(iRvec)
    shape = (len(iRvec), nw, nw) + (3,) * ncart
    X = rng.normal(size=shape) + 1j * rng.normal(size=shape)
    amp = np.exp(-decay * np.linalg.norm(iRvec @ lat, axis=1))
    return X * amp.reshape((-1,) + (1,) * (len(shape) - 1))


def make_system(nw=2, lat="sc", rs="shell1", cen="generic", seed=0, matrices=("Ham",),
                periodic=(True, True, True), tag="", symmetry_gen=(), onsite_spread=1.0, **sysparams):
    """A System_R with Hermitian Ham (and optional other matrices) built through the public API."""
    from wannierberri.system.system_R import System_R
    from wannierberri.fourier.rvectors import Rvectors
    L = lattice(lat) if isinstance(lat, str) else np.array(lat, dtype=float)
    iR = rset(rs) if isinstance(rs, str) else [tuple(r) for r in rs]
    c_red = centres(cen, nw) if isinstance(cen, str) else np.array(cen, dtype=float)
    s = System_R(periodic=periodic, silent=True, name="zoo", **sysparams)
    s.set_real_lattice(L)
    s.num_wann = nw
    s.wannier_centers_cart = c_red @ L
    s.rvec = Rvectors(lattice=s.real_lattice, iRvec=iR, shifts_left_red=s.wannier_centers_red)
    rng = rng_for(seed, "zoo", nw, str(lat), str(rs), str(cen), tag)
    for key in matrices:
        X = random_R_matrix(rng, iR, nw, NCART[key], L)
        if key in HERMITIAN:
            X = 0.5 * (X + s.rvec.conj_XX_R(X))
        if key == "Ham":
            iR0 = s.rvec.iR0
            X[iR0] += np.diag(onsite_spread * np.arange(nw))
        if key == "AA":
            X[s.rvec.iR0, np.arange(nw), np.arange(nw)] = 0
        s.set_R_mat(key, X)
    s.set_pointgroup(symmetry_gen=list(symmetry_gen))
    s.check_periodic()
    return s


def unitary_alphabet(n):
    """small explicit alphabet of n x n unitaries (n = 2 or 3)"""
    out = {"I": np.eye(n, dtype=complex)}
    if n == 2:
        out["swap"] = np.array([[0, 1], [1, 0]], dtype=complex)
        out["phase"] = np.diag([1, 1j]).astype(complex)
        out["hadamard"] = np.array([[1, 1], [1, -1]], dtype=complex) / np.sqrt(2)
        a = np.pi / 5
        out["rot"] = np.array([[np.cos(a), -np.sin(a)], [np.sin(a), np.cos(a)]], dtype=complex)
        a, b, c = 0.7, 1.1, -0.4
        out["su2"] = np.array([[np.exp(1j * b) * np.cos(a), np.exp(1j * c) * np.sin(a)],
                               [-np.exp(-1j * c) * np.sin(a), np.exp(-1j * b) * np.cos(a)]])
    elif n == 3:
        out["cyc"] = np.roll(np.eye(3), 1, axis=0).astype(complex)
        w = np.exp(2j * np.pi / 3)
        out["dft"] = np.array([[1, 1, 1], [1, w, w * w], [1, w * w, w]]) / np.sqrt(3)
        rng = np.random.default_rng(7)
        q, r = np.linalg.qr(rng.normal(size=(3, 3)) + 1j * rng.normal(size=(3, 3)))
        out["generic"] = q
    else:
        rng = np.random.default_rng(7 + n)
        q, r = np.linalg.qr(rng.normal(size=(n, n)) + 1j * rng.normal(size=(n, n)))
        out["generic"] = q
        out["rev"] = np.eye(n)[::-1].astype(complex)
    return out


K_ALPHABET = {
    "G": (0, 0, 0), "X": (0.5, 0, 0), "M": (0.5, 0.5, 0), "R": (0.5, 0.5, 0.5),
    "gen": (0.123, -0.271, 0.389), "gen2": (0.31, 0.47, -0.09), "third": (1 / 3., 1 / 3., 0),
}
G_ALPHABET = [(1, 0, 0), (0, 1, 0), (0, 0, 1), (1, -1, 0), (2, 0, -3)]
