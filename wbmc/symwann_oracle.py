"""Independent reference for "a real-space Wannier model is invariant under a space-group operation".

Used by C20.  Nothing here calls `SymWann`; the only library objects trusted are
  * the list of space-group operations (integer rotation, translation, time-reversal flag, Cartesian rotation)
  * the per-site orbital representation matrices `rot_orb` (covered by C21)
Atom maps and lattice translations are recomputed here from the site positions.

Conventions (derived in the docstring of `transformed`):
  g |R, a, i> = sum_i' A^a_{i'i} |W R + L_a, a', i'>,   W tau_a + w = tau_a' + L_a  (L_a integer)
an operator X invariant under g obeys, with R' = W R + L_b - L_a,
  X(R')[a', b'] = s * Wc . A^a  X(R)[a, b]  (A^b)^dagger        (complex-conjugated first if g contains TR)
with Wc the Cartesian rotation on every Cartesian index, det(Wc) for axial vectors and the TR parity in s.
"""
import numpy as np

# (number of cartesian indices, axial?, parity under time reversal)
OPERATOR_TYPE = {"Ham": (0, False, +1), "AA": (1, False, +1), "SS": (1, True, -1), "pos": (1, False, +1)}


class Shells:
    """Bookkeeping of the Wannier functions: shells = (block, atom) groups of `norb` consecutive functions."""

    def __init__(self, block_sizes, site_positions_red):
        """block_sizes: list of (natoms, norb);   site_positions_red: list (per block) of arrays (natoms,3)"""
        self.start, self.norb, self.pos, self.block, self.atom = [], [], [], [], []
        n = 0
        for ib, ((nat, norb), pos) in enumerate(zip(block_sizes, site_positions_red)):
            assert len(pos) == nat
            for a in range(nat):
                self.start.append(n)
                self.norb.append(norb)
                self.pos.append(np.array(pos[a], dtype=float))
                self.block.append(ib)
                self.atom.append(a)
                n += norb
        self.num_wann = n
        self.nshell = len(self.start)

    def site_of_wf(self):
        out = np.zeros((self.num_wann, 3))
        for s in range(self.nshell):
            out[self.start[s]:self.start[s] + self.norb[s]] = self.pos[s]
        return out

    def slices(self):
        return [slice(self.start[s], self.start[s] + self.norb[s]) for s in range(self.nshell)]


def shell_map(shells, W, w, tol=1e-6):
    """for every shell s: (s', L) with W tau_s + w = tau_s' + L, s' in the same block"""
    out = []
    for s in range(shells.nshell):
        p = W @ shells.pos[s] + w
        found = None
        for s2 in range(shells.nshell):
            if shells.block[s2] != shells.block[s]:
                continue
            d = p - shells.pos[s2]
            if np.abs(d - np.rint(d)).max() < tol:
                assert found is None, "two sites of one block coincide modulo lattice"
                found = (s2, np.rint(d).astype(int))
        if found is None:
            raise ValueError(f"site {shells.pos[s]} of block {shells.block[s]} has no image under W={W.tolist()} w={w}")
        out.append(found)
    return out


def transformed(X, iRvec, shells, op, rot_orb, optype):
    """Image of the R-space matrix X under the operation `op`.

    X: (nR, nw, nw, [3]);  iRvec: (nR,3) ints
    op: dict(W=int (3,3) rotation in reduced coordinates acting on column vectors, w=(3,), Wc=(3,3) cartesian, TR=bool)
    rot_orb: list over shells of A^s (norb,norb) with  g|s,j> = sum_i |s',i> A_ij
    returns dict  {R'(tuple): array(nw,nw,[3])}  (only the blocks that are reached)
    """
    ncart, axial, pTR = OPERATOR_TYPE[optype]
    W, Wc, TR = np.array(op["W"]), np.array(op["Wc"]), bool(op["TR"])
    sm = shell_map(shells, W, np.array(op["w"], dtype=float))
    sl = shells.slices()
    iRvec = np.asarray(iRvec, dtype=int)
    WR = iRvec @ W.T
    sign = 1.0
    if axial:
        sign *= np.linalg.det(Wc)
    if TR:
        sign *= pTR
    out = {}
    shape = X.shape[1:]
    for a in range(shells.nshell):
        a2, La = sm[a]
        Aa = rot_orb[a]
        for b in range(shells.nshell):
            b2, Lb = sm[b]
            Ab = rot_orb[b]
            blk = X[:, sl[a], sl[b]]
            if TR:
                blk = blk.conj()
            if ncart == 0:
                new = np.einsum("ij,rjk,lk->ril", Aa, blk, Ab.conj())
            else:
                new = np.einsum("ij,rjkc,lk,dc->rild", Aa, blk, Ab.conj(), Wc)
            new = new * sign
            Rn = WR + (Lb - La)[None, :]
            for ir in range(len(iRvec)):
                key = tuple(int(x) for x in Rn[ir])
                if key not in out:
                    out[key] = np.zeros(shape, dtype=complex)
                out[key][sl[a2], sl[b2]] += new[ir]
    return out


def invariance_residual(X, iRvec, shells, op, rot_orb, optype):
    """max | g.X - X |  (R-vectors missing on either side count as zero matrices)"""
    img = transformed(X, iRvec, shells, op, rot_orb, optype)
    index = {tuple(int(x) for x in R): i for i, R in enumerate(np.asarray(iRvec, dtype=int))}
    res = 0.0
    seen = set()
    for R, M in img.items():
        if R in index:
            seen.add(R)
            res = max(res, np.abs(M - X[index[R]]).max())
        else:
            res = max(res, np.abs(M).max())
    for R, i in index.items():
        if R not in seen:
            res = max(res, np.abs(X[i]).max())
    return float(res)


def hermiticity_residual(X, iRvec):
    """max | X(-R)^T* - X(R) | ; a missing -R counts as a zero matrix"""
    iRvec = np.asarray(iRvec, dtype=int)
    index = {tuple(int(x) for x in R): i for i, R in enumerate(iRvec)}
    res = 0.0
    for R, i in index.items():
        j = index.get(tuple(-x for x in R))
        Xm = X[j] if j is not None else np.zeros_like(X[i])
        res = max(res, np.abs(np.swapaxes(Xm, 0, 1).conj() - X[i]).max())
    return float(res)


def is_monomial(A, tol=1e-8):
    """True iff A is a generalised permutation matrix (one entry of modulus 1 per row and column)"""
    B = np.abs(np.asarray(A)) > tol
    return bool(np.all(B.sum(axis=0) == 1) and np.all(B.sum(axis=1) == 1))
