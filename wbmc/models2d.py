"""Deterministic systems used by C27 / C28 beyond zoo.make_system: explicit-hopping 2D Chern models built in
memory through the public System_R API, and the bundled models of wannierberri.models.

The hoppings are written for reduced coordinates, H(k) = sum_R H(R) exp(2 pi i k.R), so the same Hamiltonian (and the
same Chern numbers) can be put on any 2D lattice; only cell volume / out-of-plane constant change.
"""
import numpy as np

S0 = np.eye(2, dtype=complex)
SX = np.array([[0, 1], [1, 0]], dtype=complex)
SY = np.array([[0, -1j], [1j, 0]], dtype=complex)
SZ = np.array([[1, 0], [0, -1]], dtype=complex)


def _add(h, R, M):
    R = tuple(int(x) for x in R)
    h[R] = h.get(R, 0) + np.array(M, dtype=complex)


def qwz_hops(m):
    """Qi-Wu-Zhang: sin k1 sx + sin k2 sy + (m + cos k1 + cos k2) sz"""
    h = {}
    _add(h, (0, 0, 0), m * SZ)
    for e, s in (((1, 0, 0), SX), ((0, 1, 0), SY)):
        _add(h, e, s / 2j + SZ / 2)
        _add(h, tuple(-x for x in e), -s / 2j + SZ / 2)
    return h


def qwz2_hops(m):
    """winding-2 variant: dx + i dy = (sin k1 + i sin k2)^2 ; dz = m + cos k1 + cos k2"""
    h = {}
    _add(h, (0, 0, 0), m * SZ)
    for e in ((1, 0, 0), (-1, 0, 0), (0, 1, 0), (0, -1, 0)):
        _add(h, e, SZ / 2)
    for e in ((2, 0, 0), (-2, 0, 0)):
        _add(h, e, -SX / 4)
    for e in ((0, 2, 0), (0, -2, 0)):
        _add(h, e, SX / 4)
    for e in ((1, -1, 0), (-1, 1, 0)):
        _add(h, e, SY / 2)
    for e in ((1, 1, 0), (-1, -1, 0)):
        _add(h, e, -SY / 2)
    return h


def stack_hops(ha, hb, offset, g):
    """4 bands: (ha - offset/2) (+) (hb + offset/2), coupled by a constant on-site block g*T"""
    T = np.array([[1.0, 0.5j], [-0.3, 0.8 + 0.2j]])
    h = {}
    for R in set(ha) | set(hb):
        M = np.zeros((4, 4), dtype=complex)
        if R in ha:
            M[:2, :2] = ha[R]
        if R in hb:
            M[2:, 2:] = hb[R]
        h[R] = M
    M0 = h[(0, 0, 0)]
    M0[:2, :2] -= offset / 2 * S0
    M0[2:, 2:] += offset / 2 * S0
    M0[:2, 2:] += g * T
    M0[2:, :2] += g * T.conj().T
    return h


def system_from_hops(hops, lat, centres_red, periodic=(True, True, False), perturb=None):
    """System_R with Ham only.  hops: {R: matrix}; closed under R -> -R with H(-R)=H(R)^+ (asserted).
    perturb = (rng, amplitude): adds a small generic Hermitian perturbation on the same R set"""
    from wannierberri.system.system_R import System_R
    from wannierberri.fourier.rvectors import Rvectors
    from . import zoo
    L = zoo.lattice(lat) if isinstance(lat, str) else np.array(lat, dtype=float)
    iR = sorted(hops.keys())
    nw = hops[iR[0]].shape[0]
    for R in iR:
        mR = tuple(-x for x in R)
        assert mR in hops and np.allclose(hops[mR], hops[R].conj().T), R
    s = System_R(periodic=periodic, silent=True, name="explicit", force_internal_terms_only=True)
    s.set_real_lattice(L)
    s.num_wann = nw
    c_red = np.array(centres_red, dtype=float)
    s.wannier_centers_cart = c_red @ L
    s.rvec = Rvectors(lattice=s.real_lattice, iRvec=iR, shifts_left_red=s.wannier_centers_red)
    X = np.zeros((len(iR), nw, nw), dtype=complex)
    order = {tuple(int(x) for x in r): i for i, r in enumerate(s.rvec.iRvec)}
    for R, M in hops.items():
        X[order[R]] = M
    if perturb is not None:
        rng, amp = perturb
        P = rng.normal(size=X.shape) + 1j * rng.normal(size=X.shape)
        P = 0.5 * (P + s.rvec.conj_XX_R(P))
        X = X + amp * P
    s.set_R_mat("Ham", X)
    s.set_pointgroup(symmetry_gen=[])
    s.check_periodic()
    return s


def bundled(name, **par):
    """bundled models of wannierberri.models as System_R"""
    import wannierberri as wb
    from wannierberri import models
    S = wb.system.System_R
    if name == "Haldane_ptb":
        return S.from_pythtb(models.Haldane_ptb(**par), silent=True)
    if name == "Haldane_tbm":
        return S.from_tbmodels(models.Haldane_tbm(**par), silent=True)
    if name == "Chiral":
        return S.from_pythtb(models.Chiral(**par), silent=True)
    if name == "KaneMele_even":
        return S.from_pythtb(models.KaneMele_ptb("even"), spin=True, silent=True)
    if name == "KaneMele_odd":
        return S.from_pythtb(models.KaneMele_ptb("odd"), spin=True, silent=True)
    if name == "CuMnAs_2d":
        return S.from_pythtb(models.CuMnAs_2d(**par), spin=True, silent=True)
    if name == "SSH_ptb":
        return S.from_pythtb(models.SSH_ptb(**par), silent=True)
    if name == "Chiral_OSD":
        return S.from_pythtb(models.Chiral_OSD(), silent=True)
    if name == "model_1d":
        hop = [0.3, 0.5, -0.2, 0.7, 0.4, -0.6, 0.25, 0.1]
        return S.from_pythtb(models.model_1d_pythtb(hoppings=np.array(hop)), spin=True, silent=True)
    raise KeyError(name)
