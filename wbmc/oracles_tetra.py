"""Exact reference model of the linear-tetrahedron occupation (rational arithmetic).

n(ef; e1..e4) = fraction of the simplex {lambda_i >= 0, sum lambda_i = 1} on which
sum_i lambda_i e_i <= ef.  Written from the geometry (not from the library's code):

* no corner <= ef              : 0
* all corners <= ef            : 1
* one corner  (a) <= ef        : the small simplex cut off at corner a; its three edges are cut at
                                 t_j = (ef-a)/(e_j-a), volume fraction t_b*t_c*t_d
* three corners <= ef, (d) > ef: 1 - the small simplex cut off at corner d
* two corners (a<=b) <= ef < (c<=d): the cut is a quadrilateral; the region below is the prism-like
  body that is decomposed into three simplices (a,P_ac,P_ad,*) ... ; the closed form used here is the
  classical one (Bloechl, Jepsen, Andersen PRB 49, 16223, eq. A3) written with x = ef - b:
      n = [ (b-a)^2 + 3 (b-a) x + 3 x^2 - x^3 * ((c-a)+(d-b)) / ((c-b)(d-b)) ] / ((c-a)(d-a))
  every denominator is (corner > ef) - (corner <= ef) > 0, for any degeneracy among the corners.

`selftest()` validates these closed forms against the Hermite-Genocchi divided-difference formula
(an independent expression valid for distinct corners), exactly, and validates the degenerate cases by
exact monotone bracketing between perturbed non-degenerate tetrahedra.

All functions take Fractions (or anything Fraction() accepts exactly, e.g. Python floats) and return
Fractions; nothing is rounded.
"""
from fractions import Fraction as Fr
import itertools


def _fr(x):
    return x if isinstance(x, Fr) else Fr(x)


def pieces(corners):
    """sorted corners as Fractions"""
    return sorted(_fr(c) for c in corners)


def occ_der(ef, corners, der=0, side="right"):
    """exact der-th derivative of the volume fraction at ef (der = 0..3).

    At a knot (ef equal to a corner) the polynomial piece to the right (side='right', the convention
    `corner <= ef` counts as below) or to the left is used; for der=0 and non-degenerate knots the
    function is continuous so the side does not matter; when all four corners coincide n is a step.
    """
    ef = _fr(ef)
    a, b, c, d = pieces(corners)
    if side == "right":
        m = sum(1 for e in (a, b, c, d) if e <= ef)
    else:
        m = sum(1 for e in (a, b, c, d) if e < ef)
    if m == 0:
        return Fr(0)
    if m == 4:
        return Fr(1) if der == 0 else Fr(0)
    if m == 1:
        D = (b - a) * (c - a) * (d - a)
        x = ef - a
        return (x ** 3 / D, 3 * x ** 2 / D, 6 * x / D, 6 / D)[der]
    if m == 3:
        D = (d - a) * (d - b) * (d - c)
        x = d - ef
        return (1 - x ** 3 / D, 3 * x ** 2 / D, -6 * x / D, 6 / D)[der]
    # m == 2
    D = (c - a) * (d - a)
    g = ((c - a) + (d - b)) / ((c - b) * (d - b))
    p = b - a
    x = ef - b
    return ((p * p + 3 * p * x + 3 * x * x - g * x ** 3) / D,
            (3 * p + 6 * x - 3 * g * x * x) / D,
            (6 - 6 * g * x) / D,
            -6 * g / D)[der]


def occ(ef, corners):
    return occ_der(ef, corners, 0)


def scale_der(corners, der):
    """natural scale of the der-th derivative: the largest magnitude it takes at the (one-sided) knots.

    der=0 -> 1.  For der>=1 the der-th derivative is a piecewise polynomial of degree 3-der whose
    extrema over the support are attained at the knots (der=2,3) or bounded below by the knot values
    (der=1); this is the scale on which rounding errors of any evaluation scheme have to be judged.
    Returns None when all four corners coincide (the derivatives are then zero away from the knot).
    """
    if der == 0:
        return Fr(1)
    cs = pieces(corners)
    if cs[0] == cs[3]:
        return None
    vals = []
    for k in sorted(set(cs)):
        for side in ("left", "right"):
            vals.append(abs(occ_der(k, cs, der, side)))
    return max(vals)


def divided_difference(ef, corners):
    """Hermite-Genocchi: for distinct corners n(ef) = sum_{e_i<=ef} (ef-e_i)^3 / prod_{j!=i}(e_j-e_i)"""
    ef = _fr(ef)
    cs = pieces(corners)
    tot = Fr(0)
    for i, ei in enumerate(cs):
        if ei <= ef:
            den = Fr(1)
            for j, ej in enumerate(cs):
                if j != i:
                    den *= (ej - ei)
            tot += (ef - ei) ** 3 / den
    return tot


def paral_occ_der(ef, ecenter, ecorner, der=0, side="right"):
    """mean over the 12 tetrahedra (centre, two adjacent... ) of a parallelepiped cell written from the
    geometry: every face (6) is split along the diagonal joining its (0,0) and (1,1) corners into two
    triangles, each triangle together with the cell centre is one tetrahedron; the 12 tetrahedra have
    equal volume.  ecorner[i][j][k] are the corner energies."""
    tot = Fr(0)
    for axis in range(3):
        for f in (0, 1):
            def face(u, v):
                idx = [u, v]
                idx.insert(axis, f)
                return ecorner[idx[0]][idx[1]][idx[2]]
            for third in ((0, 1), (1, 0)):
                tot += occ_der(ef, (ecenter, face(0, 0), face(*third), face(1, 1)), der, side)
    return tot / 12


def selftest():
    """exact checks of the closed forms; raises AssertionError on failure"""
    vals = [Fr(-5), Fr(0), Fr(1), Fr(3, 2), Fr(7, 3), Fr(1000)]
    efs = [Fr(-6), Fr(-5), Fr(-1, 3), Fr(0), Fr(1, 2), Fr(1), Fr(5, 4), Fr(3, 2), Fr(2), Fr(7, 3), Fr(500), Fr(1000), Fr(1001)]
    n = 0
    for cs in itertools.combinations(vals, 4):
        for perm in ((0, 1, 2, 3), (3, 1, 0, 2)):
            c = [cs[i] for i in perm]
            prev = None
            for ef in efs:
                v = occ(ef, c)
                assert v == divided_difference(ef, c), (c, ef)
                assert 0 <= v <= 1
                assert prev is None or v >= prev
                prev = v
                n += 1
            # derivatives: exact polynomial identity n(ef+h) = sum_k n^(k)(ef) h^k / k!  inside one piece
            s = sorted(c)
            for lo, hi in zip(s[:-1], s[1:]):
                ef = lo + (hi - lo) / 3
                h = (hi - lo) / 5
                tay = sum(occ_der(ef, c, k) * h ** k / (1, 1, 2, 6)[k] for k in range(4))
                assert tay == occ(ef + h, c), (c, ef)
    # degenerate corners: exact monotone bracket between perturbed distinct tetrahedra
    eta = Fr(1, 10 ** 9)
    for cs in itertools.combinations_with_replacement([Fr(0), Fr(1), Fr(5, 2)], 4):
        if len(set(cs)) == 4:
            continue
        up = [c + (i + 1) * eta for i, c in enumerate(cs)]      # all distinct, every corner raised
        dn = [c - (4 - i) * eta for i, c in enumerate(cs)]      # all distinct, every corner lowered
        assert len(set(up)) == 4 and len(set(dn)) == 4
        for ef in [Fr(-1), Fr(0), Fr(1, 3), Fr(1), Fr(2), Fr(5, 2), Fr(3)]:
            v = occ(ef, cs)
            lo = divided_difference(ef, up)
            hi = divided_difference(ef, dn)
            assert lo <= v <= hi, (cs, ef, lo, v, hi)
            # and the bracket is tight away from the step of a fully degenerate tetrahedron
            if not (len(set(cs)) == 1 and ef == cs[0]):
                assert hi - lo < Fr(1, 10 ** 6), (cs, ef, float(hi - lo))
            n += 1
    # parallelepiped: linear band e = a.k + const  -> the 12-tetrahedra mean equals the exact volume fraction
    # of the cube below ef; for e = k_x (cube [0,1]^3, centre 1/2) that is clamp(ef,0,1)
    ecorner = [[[Fr(i) for k in range(2)] for j in range(2)] for i in range(2)]
    for ef in (Fr(-1), Fr(0), Fr(1, 4), Fr(1, 2), Fr(2, 3), Fr(1), Fr(2)):
        assert paral_occ_der(ef, Fr(1, 2), ecorner) == min(max(ef, 0), 1)
    return n
