"""Shared harness for the run()-level explorers (C10, C11, C12, C29-parallel).

* ScriptedCalc: a Calculator whose per-K result is a harness-chosen function of the K-point identity
  (so the refinement loop can be steered and every K-point's contribution is recognisable);
* ProbeCalc / ProbeResult: a second calculator whose Result sees every K-point object evaluated and
  whose savedata() is called by run() once per iteration right after the integral was updated;
* run_quiet(): run() inside a private temporary directory with the fake Ray module installed.
"""
import contextlib
import hashlib
import os
import shutil
import sys
import tempfile

import numpy as np

from wannierberri.calculators.calculator import Calculator
from wannierberri.result import EnergyResult
from wannierberri.result.result import Result
from wannierberri.symmetry.point_symmetry import transform_ident

QUANT = 1 << 24


def kkey(Kpoint):
    """identity of a K-point: rounded coordinates in the full BZ (mod 1) + refinement level"""
    K = np.asarray(Kpoint.K, dtype=float)
    if K.ndim == 1:
        K = K / np.asarray(Kpoint.NKFFT, dtype=float)
    K = np.atleast_2d(K)
    q = np.rint((K % 1.0) * QUANT).astype(np.int64) % QUANT
    lvl = int(getattr(Kpoint, "refinement_level", -1))
    return (lvl,) + tuple(int(x) for x in q.reshape(-1))


def hash_value(key, salt=0):
    h = hashlib.sha1(repr((salt, key)).encode()).digest()
    return 1.0 + int.from_bytes(h[:4], "little") / 2.0**32     # generic value in [1,2)


class ScriptedCalc(Calculator):
    """EnergyResult on two 'Fermi levels' with data = v(K) * [1, 2] (rank 0) or v(K) * [[1,0,0],[0,2,0]]-like
    vectors (rank 1).  v(K) = table[kkey] if present else a generic hash value."""

    def __init__(self, table=None, salt=0, rank=0, save_mode="bin"):
        self.table = dict(table or {})
        self.salt = salt
        self.rank = rank
        self.comment = "scripted calculator (verification harness)"
        super().__init__(save_mode=save_mode, print_comment=False)

    def value(self, Kpoint):
        key = kkey(Kpoint)
        if key in self.table:
            return float(self.table[key])
        return hash_value(key, self.salt)

    def __call__(self, data_K):
        v = self.value(data_K.Kpoint)
        E = np.array([0.0, 1.0])
        if self.rank == 0:
            data = v * np.array([1.0, 2.0])
        else:
            data = v * np.array([[1.0, 0.5, 0.25], [2.0, -1.0, 0.5]])
        return EnergyResult(Energies=[E], data=data, transformTR=transform_ident, transformInv=transform_ident,
                            rank=self.rank, E_titles=["Efermi"], save_mode=self.save_mode, comment="scripted")


class ProbeResult(Result):
    """a Result that carries the log of K-points it was built from; `+` concatenates, `*` is the identity.
    savedata() is called by run() once per iteration: it appends a snapshot marker to PROBE_LOG."""

    def __init__(self, entries):
        super().__init__(save_mode="")
        self.entries = list(entries)

    def __mul__(self, other):
        return self

    def __truediv__(self, other):
        return self

    def __add__(self, other):
        if other is None or (isinstance(other, (int, float)) and other == 0):
            return self
        return ProbeResult(self.entries + other.entries)

    def __sub__(self, other):
        return self

    def as_dict(self):
        return {}

    def transform(self, sym):
        return self

    @property
    def max(self):
        return np.array([])

    def savedata(self, name, prefix, suffix, i_iter):
        PROBE_LOG.append(("savedata", i_iter, len(self.entries)))


PROBE_LOG = []


class ProbeCalc(Calculator):
    def __init__(self):
        self.comment = "probe (verification harness)"
        super().__init__(save_mode="", print_comment=False)

    def __call__(self, data_K):
        return ProbeResult([kkey(data_K.Kpoint)])


@contextlib.contextmanager
def fake_ray(fr):
    saved = sys.modules.get("ray")
    sys.modules["ray"] = fr
    try:
        yield fr
    finally:
        if saved is None:
            sys.modules.pop("ray", None)
        else:
            sys.modules["ray"] = saved


@contextlib.contextmanager
def tmpdir(prefix="wbmc_"):
    base = "/dev/shm" if os.path.isdir("/dev/shm") and os.access("/dev/shm", os.W_OK) else None
    d = tempfile.mkdtemp(prefix=prefix, dir=base)
    try:
        yield d
    finally:
        shutil.rmtree(d, ignore_errors=True)


def result_arrays(result):
    """ResultDict -> {key: ndarray} for EnergyResult / KBandResult / TABresult entries"""
    out = {}
    for k, v in result.results.items():
        if hasattr(v, "results") and hasattr(v, "kpoints"):      # TABresult
            out[k + ":kpoints"] = np.array(v.kpoints)
            for q, r in v.results.items():
                out[k + ":" + q] = np.array(r.data)
        elif hasattr(v, "data"):
            out[k] = np.array(v.data)
    return out


def max_rel_diff(a, b):
    """max over keys of |a-b|_inf / max(1e-300, |b|_inf); shape mismatch -> inf"""
    worst = 0.0
    for k in b:
        if k not in a or np.shape(a[k]) != np.shape(b[k]):
            return float("inf"), k
    wk = None
    for k in b:
        sc = max(np.abs(b[k]).max(), 1e-300) if np.size(b[k]) else 1.0
        d = np.abs(a[k] - b[k]).max() / sc if np.size(b[k]) else 0.0
        if d > worst:
            worst, wk = d, k
    return worst, wk
