"""Harness-side reference code shared by C27 / C28 (nothing here calls wannierberri formulas).

* `tmp_run(...)`      : wannierberri.run(parallel=False) with every output file inside a per-case temporary
                        directory under /tmp that is removed afterwards.
* `ham_k(system, k)`  : H(k) = sum_R H(R) exp(+2 pi i k.R) (lattice-periodic gauge, no centre phases) assembled
                        directly from the stored real-space matrix; only `iRvec` and `Ham_R` are trusted.
* `fukui_chern`       : Chern number of the lowest `nocc` bands by the Fukui-Hatsugai-Suzuki link method, with the
                        convention  C = (1/2pi) int Omega_z d^2k ,  Omega = curl( i<u|grad u> ), orientation (k1,k2).
* `kubo_chern`        : the same number from the textbook sum-over-states curvature (RMP 82, 1959 eq. 1.13) integrated
                        on the grid -- not an integer by construction, used to validate sign/convention of `fukui_chern`.
"""
import contextlib
import os
import shutil
import tempfile

import numpy as np

KB_EV = 8.617333262145e-5  # Boltzmann constant, eV/K (CODATA 2018, exact)


@contextlib.contextmanager
def case_tmpdir(prefix="agN_"):
    d = tempfile.mkdtemp(prefix=prefix, dir="/tmp")
    try:
        yield d
    finally:
        shutil.rmtree(d, ignore_errors=True)


def tmp_run(system, grid, calculators, tmpdir, **kwargs):
    """run() in serial, all files (results and K-list) inside tmpdir"""
    import wannierberri as wb
    kw = dict(parallel=False, use_irred_kpt=False, symmetrize=False, adpt_num_iter=0,
              fout_name=os.path.join(tmpdir, "res"), file_Klist_path=os.path.join(tmpdir, "_tmp_wb"),
              print_progress_step_time=1e9, print_Kpoints=False)
    kw.update(kwargs)
    assert kw["parallel"] is False
    return wb.run(system, grid, calculators, **kw)


# ------------------------------------------------------------------ H(k) in the harness

def ham_R(system):
    """(iRvec[nR,3], Ham_R[nR,nw,nw]) as stored by the system"""
    iR = np.array(system.rvec.iRvec, dtype=int)
    H = np.array(system.get_R_mat("Ham"), dtype=complex)
    assert H.shape[0] == iR.shape[0]
    return iR, H


def ham_k_many(iR, HR, kpts, centres_red=None):
    """H(k) for an array of reduced k-points [nk,3] -> [nk,nw,nw].
    centres_red given: the 'tight-binding' gauge H_ij e^{2 pi i k.(R + t_j - t_i)} (same spectrum)."""
    kpts = np.asarray(kpts, dtype=float)
    ph = np.exp(2j * np.pi * kpts @ iR.T)                       # [nk,nR]
    Hk = np.einsum("kr,rij->kij", ph, HR)
    if centres_red is not None:
        c = np.exp(2j * np.pi * kpts @ np.asarray(centres_red).T)   # [nk,nw]
        Hk = Hk * c.conj()[:, :, None] * c[:, None, :]
    return Hk


def dham_k_many(iR, HR, kpts):
    """dH/dk_red_a (periodic gauge) [nk,nw,nw,3]"""
    kpts = np.asarray(kpts, dtype=float)
    ph = np.exp(2j * np.pi * kpts @ iR.T)
    return np.einsum("kr,rij,ra->kija", ph, HR, 2j * np.pi * iR.astype(float))


def grid2d(n, shift=(0.0, 0.0)):
    a = (np.arange(n) + 0.0) / n
    k1, k2 = np.meshgrid(a + shift[0], a + shift[1], indexing="ij")
    return np.stack([k1, k2, np.zeros_like(k1)], axis=-1)          # [n,n,3]


def bands_2d(iR, HR, n):
    k = grid2d(n).reshape(-1, 3)
    Hk = ham_k_many(iR, HR, k)
    herm = np.abs(Hk - Hk.conj().transpose(0, 2, 1)).max()
    E = np.linalg.eigvalsh(Hk)
    return E.reshape(n, n, -1), herm


def fukui_chern(iR, HR, nocc, n):
    """Chern number of the lowest nocc bands; also returns max |plaquette flux| (admissibility: must be < pi)"""
    k = grid2d(n).reshape(-1, 3)
    Hk = ham_k_many(iR, HR, k)
    _, U = np.linalg.eigh(Hk)
    U = U[:, :, :nocc].reshape(n, n, U.shape[1], nocc)

    def link(Ua, Ub):
        M = np.einsum("xyin,xyim->xynm", Ua.conj(), Ub)
        d = np.linalg.det(M)
        return d / np.abs(d)

    U1 = link(U, np.roll(U, -1, axis=0))      # k -> k + e1
    U2 = link(U, np.roll(U, -1, axis=1))      # k -> k + e2
    plaq = U1 * np.roll(U2, -1, axis=0) * np.roll(U1, -1, axis=1).conj() * U2.conj()
    phi = np.angle(plaq)                      # = -Omega_12 dk1 dk2  for Omega = curl(i<u|grad u>)
    return -phi.sum() / (2 * np.pi), float(np.abs(phi).max())


def kubo_chern(iR, HR, nocc, n):
    """(1/2pi) int sum_{n<nocc} Omega_n,12 dk1 dk2 with Omega from the sum-over-states formula"""
    k = grid2d(n).reshape(-1, 3)
    Hk = ham_k_many(iR, HR, k)
    dH = dham_k_many(iR, HR, k)
    E, U = np.linalg.eigh(Hk)
    v = np.einsum("kin,kija,kjm->knma", U.conj(), dH, U)      # <n|d_a H|m>
    tot = 0.0
    for nn in range(nocc):
        for m in range(Hk.shape[1]):
            if m == nn:
                continue
            num = v[:, nn, m, 0] * v[:, m, nn, 1]
            tot += (-2 * (num.imag) / (E[:, nn] - E[:, m]) ** 2).sum()
    return tot / (n * n) / (2 * np.pi)


# ------------------------------------------------------------------ tensors on an Efermi axis

def sup(x):
    x = np.asarray(x)
    return float(np.abs(x).max()) if x.size else 0.0
