"""Shared helpers for the checks that drive `wannierberri.run()` on a regular grid (C03, C30).

* systems: small bundled / zoo / k.p systems built in memory (no data files);
* factorisations: every NKdiv x NKFFT split of a grid size N;
* run_on_grid: one serial `run()` with every output file directed into a caller-owned temporary directory;
* calculator catalogue: explicit name lists with the construction arguments each class needs.
"""
import contextlib
import itertools
import os
import shutil
import tempfile

import numpy as np

ZOO_ALL = ("Ham", "AA", "BB", "CC", "SS", "SH", "OO", "SHA", "SA", "SR", "SHR", "GG", "FF")


# ----------------------------------------------------------------------------------------------
#  systems
# ----------------------------------------------------------------------------------------------

def _kp_system():
    """2-band k.p model, gapped everywhere in the box, with *analytic* derivatives up to 3rd order
    (finite-difference derivatives would amplify the 1e-16 differences between the k-coordinates produced
    by different factorisations to 1e-8 in the second derivative)."""
    import wannierberri as wb
    m1 = np.diag([1.0, 1.7, 0.6])
    m2 = np.diag([0.8, 0.5, 1.1])
    m1[0, 1] = m1[1, 0] = 0.2
    lin_a = np.array([0.3, 0.0, 0.0])
    lin_b = np.array([0.0, 0.1, 0.0])
    lin_c = np.array([0.25j, 0.2, -0.1j])

    def Ham(k):
        k = np.array(k, dtype=float)
        a = 0.5 * k @ m1 @ k + lin_a @ k
        b = -0.5 * k @ m2 @ k - 0.6 + lin_b @ k
        c = 0.4 + lin_c @ k
        return np.array([[a, c], [np.conj(c), b]], dtype=complex)

    def derHam(k):
        k = np.array(k, dtype=float)
        d = np.zeros((2, 2, 3), dtype=complex)
        d[0, 0] = m1 @ k + lin_a
        d[1, 1] = -m2 @ k + lin_b
        d[0, 1] = lin_c
        d[1, 0] = np.conj(lin_c)
        return d

    def der2Ham(k):
        d = np.zeros((2, 2, 3, 3), dtype=complex)
        d[0, 0] = m1
        d[1, 1] = -m2
        return d

    def der3Ham(k):
        return np.zeros((2, 2, 3, 3, 3), dtype=complex)

    return wb.system.SystemKP(Ham=Ham, derHam=derHam, der2Ham=der2Ham, der3Ham=der3Ham, kmax=1.3, silent=True)


SYSTEMS = ("chiral", "haldane", "kanemele", "zoo", "zoo_lop", "kp")


def build_system(name, seed=0, symmetric=False):
    """symmetric=True declares the point group the bundled model has (as the repository's tests do);
    otherwise the system keeps the trivial group, so that any grid size is admissible."""
    import wannierberri as wb
    from wannierberri import models
    from wannierberri.system import System_R
    from . import zoo
    if name == "chiral":
        s = System_R.from_pythtb(models.Chiral(), silent=True)
        s.set_spin_eigenstates([1, -1])
        gen = ["C3z"]
    elif name == "haldane":
        s = System_R.from_pythtb(models.Haldane_ptb(), silent=True)
        gen = ["C3z"]
    elif name == "kanemele":
        s = System_R.from_pythtb(models.KaneMele_ptb("odd"), spin=True, silent=True)
        gen = ["C3z", "TimeReversal"]
    elif name == "zoo":
        # NKFFT_recommended = (3,3,3): NKFFT 1 and 2 are below it
        s = zoo.make_system(3, "tric", "shell1", "generic", seed=seed, matrices=ZOO_ALL)
        gen = None
    elif name == "zoo_lop":
        # R up to (2,-1,0),(0,1,3): NKFFT_recommended = (5,3,7), every FFT grid used here aliases
        s = zoo.make_system(2, "mono", "lopsided", "shared", seed=seed, matrices=("Ham", "AA", "SS"))
        gen = None
    elif name == "kp":
        s = _kp_system()
        gen = None
    elif name == "phonon":
        # phonon flag: band "energies" are sqrt of the eigenvalues (shifted to [~1, ~5] so that they are positive)
        s = zoo.make_system(2, "orth", "shell1", "generic", seed=seed, matrices=("Ham",), tag="phonon")
        H = s.get_R_mat("Ham")
        H[s.rvec.iR0] += 2.5 * np.eye(2)
        s.is_phonon = True
        gen = None
    else:
        raise KeyError(name)
    if symmetric:
        if gen is None:
            raise ValueError(f"no symmetric version of {name}")
        s.set_pointgroup(gen)
    del wb
    return s


def system_flags(s):
    has = getattr(s, "has_R_mat", lambda key: False)
    return {"SS": bool(has("SS")), "internal_only": bool(getattr(s, "force_internal_terms_only", False)),
            "kp": not hasattr(s, "rvec"), "CCab": bool(has("CCab")),
            "spin_ext": all(has(x) for x in ("SR", "SH", "SHR", "SA", "SHA"))}


def is_2d(s):
    return not bool(s.periodic[2])


# ----------------------------------------------------------------------------------------------
#  grids
# ----------------------------------------------------------------------------------------------

def divisors(n):
    return [d for d in range(1, n + 1) if n % d == 0]


def factorisations(N):
    """every (NKdiv, NKFFT) with NKdiv*NKFFT == N, the first one is (N, (1,1,1))"""
    per_dir = [[(n // f, f) for f in divisors(n)] for n in N]
    out = []
    for combo in itertools.product(*per_dir):
        out.append((tuple(c[0] for c in combo), tuple(c[1] for c in combo)))
    return out


@contextlib.contextmanager
def case_tmpdir():
    d = tempfile.mkdtemp(prefix="wbmc_run_", dir="/tmp")
    try:
        yield d
    finally:
        shutil.rmtree(d, ignore_errors=True)


def make_grid(system, div=None, fft=None, NK=None, use_symmetry=True):
    import wannierberri as wb
    kw = {}
    if div is not None:
        kw["NKdiv"] = list(div)
    if fft is not None:
        kw["NKFFT"] = list(fft)
    if NK is not None:
        kw["NK"] = list(NK)
    return wb.Grid(system, use_symmetry=use_symmetry, **kw)


def run_on_grid(system, grid, calcs, tmpdir, fftlib="fftw", use_irred=False, tag="r"):
    """serial run(); every file run() writes goes to tmpdir (prefix `tag`); no restart directory is created"""
    import wannierberri as wb
    return wb.run(system, grid, calcs, parallel=False, use_irred_kpt=use_irred, symmetrize=use_irred,
                  fout_name=os.path.join(tmpdir, tag), suffix="v", adpt_num_iter=0,
                  file_Klist_path=os.path.join(tmpdir, "_tmp_wb"),
                  parameters_K={"fftlib": fftlib}, print_progress_step_time=1e9)


# ----------------------------------------------------------------------------------------------
#  calculator catalogue
# ----------------------------------------------------------------------------------------------

STATIC_CORE = ("CumDOS", "DOS", "AHC", "Ohmic_FermiSea", "Ohmic_FermiSurf", "BerryDipole_FermiSea",
               "BerryDipole_FermiSurf", "Morb", "Spin", "GME_orb_FermiSea", "GME_orb_FermiSurf",
               "GME_spin_FermiSea", "GME_spin_FermiSurf")
STATIC_REST = ("AHC_test", "AHC_Zeeman_orb", "AHC_Zeeman_spin", "BerryDipole_FermiSea_test",
               "GME_orb_FermiSea_test", "Hall_classic_FermiSea", "Hall_classic_FermiSurf", "Morb_test",
               "NLAHC_FermiSea", "NLAHC_FermiSurf", "NLDrude_FermiSea", "NLDrude_FermiSurf", "NLDrude_Fermider2",
               "NLDrude_Zeeman_orb_Omega", "NLDrude_Zeeman_spin", "OmegaOmega", "QuantumMetric_FermiSea",
               "QuantumMetric_Vel_DQ", "SHC", "eMChA_FermiSurf", "NLDrude_Zeeman_orb")
STATIC_NEED_SS = {"Spin", "GME_spin_FermiSea", "GME_spin_FermiSurf", "AHC_Zeeman_spin", "NLDrude_Zeeman_spin", "SHC"}
STATIC_NEED_CCAB_IF_EXTERNAL = {"Morb_test", "GME_orb_FermiSea_test"}

DYN_CORE = ("JDOS", "OpticalConductivity", "SHC:simple")
DYN_REST = ("ShiftCurrent", "InjectionCurrent", "SHC:ryoo", "SHC:qiao", "SDCT_sym", "SDCT_asym")

TAB_CORE = ("Energy", "BerryCurvature", "Velocity")
TAB_REST = ("InvMass", "Der3E", "DerBerryCurvature", "Der2BerryCurvature", "Spin", "DerSpin", "Der2Spin",
            "OrbitalMoment", "DerOrbitalMoment", "Der2OrbitalMoment", "SpinBerry")
TAB_NEED_SS = {"Spin", "DerSpin", "Der2Spin", "SpinBerry"}
# tabulate.DerOrbitalMoment_test is not in the alphabet: its constructor raises AttributeError (the formula
# frml.DerMorb_test does not exist) for every input, so there is nothing to compare between factorisations.

# Fermi levels / frequencies: irrational-looking end points keep band energies of the bundled models off the bin edges
EFERMI = np.linspace(-2.23170, 2.47230, 6)
EFERMI_DYN = np.array([-0.73170, 0.41230, 1.3391])
OMEGA = np.linspace(0.11370, 4.2193, 4)


def static_applicable(name, flags):
    if name in STATIC_NEED_SS and not flags["SS"]:
        return False
    if name in STATIC_NEED_CCAB_IF_EXTERNAL and not (flags["internal_only"] or flags["CCab"]):
        return False
    return True


def dyn_applicable(name, flags):
    if name.startswith("SDCT") and flags["kp"]:
        return False  # Data_K_k.Xbar('Ham', 0) raises on purpose: SDCT is not defined for k.p systems
    if name.startswith("SHC"):
        if not flags["SS"]:
            return False
        if name != "SHC:simple" and (flags["internal_only"] or not flags["spin_ext"]):
            return False
    return True


def tab_applicable(name, flags):
    if name in TAB_NEED_SS and not flags["SS"]:
        return False
    return True


def make_static(name, tetra, flags, Efermi=EFERMI):
    from wannierberri.calculators import static
    kw = dict(Efermi=Efermi, tetra=bool(tetra))
    if name == "SHC" and (flags["internal_only"] or not flags["spin_ext"]):
        kw["kwargs_formula"] = {"spin_current_type": "simple"}
    return getattr(static, name)(**kw)


def make_dynamic(name, variant, flags):
    from wannierberri.calculators import dynamic, sdct
    kw = dict(Efermi=EFERMI_DYN, omega=OMEGA)
    if variant == "L0":
        kw.update(kBT=0, smr_fixed_width=0.1, smr_type="Lorentzian")
    elif variant == "G1":
        kw.update(kBT=0.05, smr_fixed_width=0.15, smr_type="Gaussian")
    else:
        raise KeyError(variant)
    if name.startswith("SHC:"):
        return dynamic.SHC(SHC_type=name.split(":")[1], **kw)
    if name == "ShiftCurrent":
        return dynamic.ShiftCurrent(sc_eta=0.1, **kw)
    if name in ("SDCT_sym", "SDCT_asym"):
        return getattr(sdct, name)(**kw)
    return getattr(dynamic, name)(**kw)


def make_tabulator(name, ibands=None):
    from wannierberri.calculators import tabulate
    kw = {}
    if ibands is not None:
        kw["ibands"] = list(ibands)
    if name == "SpinBerry":
        kw["kwargs_formula"] = {"spin_current_type": "simple"}
    return getattr(tabulate, name)(**kw)


def chunks(seq, n):
    seq = list(seq)
    return [seq[i:i + n] for i in range(0, len(seq), n)]
