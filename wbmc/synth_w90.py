"""Synthetic in-memory Wannier90 data (EIG, MMN, AMN, BKVectors) from a hidden tight-binding model.

No file format is on the trusted path: the containers are built through their constructors.

Model: NB orbitals at reduced positions tau_j, H(k) = sum_R H(R) exp(2 pi i k.R) (lattice-periodic gauge,
H(k+G) = H(k)), eigenvectors C(k).  With the usual diagonal approximation of the position operator
    M_mn(k,b) = <u_mk|u_n,k+b> = sum_j C*_jm(k) exp(-i b.tau_j) C_jn(k+b),
    A_nw(k)   = <psi_nk|g_w>   = sum_j C*_jn(k) P_jw ,
with P a trial-orbital matrix (the first NW orbitals plus a generic admixture).  With NW = NB and a
converged mesh wannierise recovers the centres tau (checked when this helper was written).
The band energies written to EIG are supplied by the caller (explicit level alphabet): the model then is
H'(k) = C(k) diag(E(k)) C(k)^+, whose eigenvectors inside an (engineered) multiplet are an arbitrary
basis of the degenerate subspace, as they are in a real calculation.
"""
import copy

import numpy as np

from . import zoo

_BK_CACHE = {}


def kpoints(mesh):
    return np.array([[i / mesh[0], j / mesh[1], k / mesh[2]]
                     for i in range(mesh[0]) for j in range(mesh[1]) for k in range(mesh[2])], dtype=float)


def bkvectors(lat, mesh):
    from wannierberri.w90files.bkvectors import BKVectors
    key = (lat, tuple(mesh))
    if key not in _BK_CACHE:
        L = zoo.lattice(lat)
        rec = 2 * np.pi * np.linalg.inv(L).T
        _BK_CACHE[key] = BKVectors.from_kpoints(rec, np.array(mesh), kpoints(mesh))
    return copy.deepcopy(_BK_CACHE[key])


class Synth:
    def __init__(self, lat, mesh, nb, nw, E, seed, admix=0.3):
        self.lat, self.mesh, self.nb, self.nw = lat, tuple(mesh), nb, nw
        L = zoo.lattice(lat)
        self.kpts = kpoints(mesh)
        self.nk = len(self.kpts)
        bk = bkvectors(lat, mesh)
        rng = zoo.rng_for(seed, "synth_w90", lat, tuple(mesh), nb, nw)
        self.tau_red = zoo.centres("generic", nb)
        tau_cart = self.tau_red @ L
        HR = {}
        for R in zoo.rset("shell1"):
            amp = 1.0 if R == (0, 0, 0) else 0.4
            HR[R] = amp * (rng.normal(size=(nb, nb)) + 1j * rng.normal(size=(nb, nb)))
        self.C = []
        for k in self.kpts:
            Hk = np.zeros((nb, nb), dtype=complex)
            for R, X in HR.items():
                Hk += X * np.exp(2j * np.pi * np.dot(k, R))
            Hk = 0.5 * (Hk + Hk.T.conj()) + np.diag(np.arange(nb, dtype=float))
            self.C.append(np.linalg.eigh(Hk)[1])
        self.E = [np.array(e, dtype=float) for e in E]
        assert len(self.E) == self.nk and all(len(e) == nb for e in self.E)
        self.mmn = {}
        for ik in range(self.nk):
            M = np.zeros((bk.NNB, nb, nb), dtype=complex)
            for ib in range(bk.NNB):
                ik2 = bk.neighbours[ik][ib]
                ph = np.exp(-1j * tau_cart @ bk.bk_cart[ib])
                M[ib] = self.C[ik].T.conj() @ (ph[:, None] * self.C[ik2])
            self.mmn[ik] = M
        P = np.eye(nb, nw, dtype=complex) + admix * (rng.normal(size=(nb, nw)) + 1j * rng.normal(size=(nb, nw)))
        self.amn = {ik: self.C[ik].T.conj() @ P for ik in range(self.nk)}

    def wandata(self):
        """a fresh WannierData (every array copied) without chk"""
        from wannierberri.w90files.wandata import WannierData
        from wannierberri.w90files.eig import EIG
        from wannierberri.w90files.mmn import MMN
        from wannierberri.w90files.amn import AMN
        wd = WannierData()
        wd.set_file("bkvec", bkvectors(self.lat, self.mesh))
        wd.set_file("eig", EIG(data={ik: self.E[ik].copy() for ik in range(self.nk)}, NK=self.nk))
        wd.set_file("mmn", MMN(data={ik: m.copy() for ik, m in self.mmn.items()}, NK=self.nk))
        wd.set_file("amn", AMN(data={ik: a.copy() for ik, a in self.amn.items()}, NK=self.nk))
        return wd


def clone_wandata(wd):
    return copy.deepcopy(wd)
