"""Steered adaptive-refinement runs of the real run() (shared by C10 and C11).

* SteerCalc returns a SteerResult: an EnergyResult whose data are a generic, recognisable function
  of the K-point identity and whose refinement criterion `max` is a harness-chosen priority, so that
  run() refines exactly the points of a chosen history while the data stay O(1).
* Snapshots: SteerResult.savedata() is called by run() once per iteration right after the integral
  has been updated; it walks up the stack to run()'s frame and records (key, factor) of every K-point
  in the live K_list -- the ground truth the reported integral is compared with.
"""
import os
import sys

import numpy as np

from wannierberri.calculators.calculator import Calculator
from wannierberri.result import EnergyResult
from wannierberri.symmetry.point_symmetry import transform_ident

from wbmc.runharness import kkey, hash_value

SNAPSHOTS = []      # filled by SteerResult.savedata: (i_iter, [(key, factor, evaluated)], data copy)


def vdata(key, salt, rank):
    v = hash_value(key, salt)
    w = hash_value(key, salt + 1000)
    if rank == 0:
        return np.array([v, 2.0 * w])
    return np.array([[v, 0.5 * w, 0.25 * v], [2 * w, -v, 0.5 * w]])


def find_live_klist(frame):
    """run()'s live list of K-point objects, found by type (robust against renamed locals / a loop moved into a
    helper): the local called K_list of run() if there is one, else the longest list of KpointBZ objects among
    the locals of the run_grid.py frames on the stack; None if there is no such list"""
    from wannierberri.grid.Kpoint import KpointBZ
    best = None
    f = frame
    while f is not None:
        if f.f_code.co_filename.endswith("run_grid.py"):
            for name, v in list(f.f_locals.items()):
                if isinstance(v, list) and len(v) > 0 and all(isinstance(x, KpointBZ) for x in v):
                    if name == "K_list" and f.f_code.co_name == "run":
                        return v
                    if best is None or len(v) > len(best):
                        best = v
        f = f.f_back
    return best


def snapshots_from_files(klist_dir):
    """{iteration: [(key, factor, True)]} rebuilt from the restart files of an allow_restart run (fallback when the
    live K-list cannot be located on the stack)"""
    import glob
    import pickle
    Ks = []
    with open(os.path.join(klist_dir, "K_list.pickle"), "rb") as fr:
        while True:
            try:
                Ks += pickle.load(fr)
            except EOFError:
                break
    out = {}
    for f in glob.glob(os.path.join(klist_dir, "factors_iter-*.npy")):
        it = int(f.split("-")[-1].split(".")[0])
        fac = np.load(f)
        out[it] = [(kkey(K), float(x), True) for K, x in zip(Ks, fac)]
    return out


class SteerResult(EnergyResult):
    def __init__(self, *a, prio=0.0, **k):
        super().__init__(*a, **k)
        self.prio = prio

    def __mul__(self, n):
        r = super().__mul__(n)
        r.prio = self.prio
        return r

    def __add__(self, o):
        r = super().__add__(o)
        if r is not self:
            r.prio = max(self.prio, getattr(o, "prio", 0.0))
        return r

    def transform(self, sym):
        r = super().transform(sym)
        r.prio = self.prio
        return r

    @property
    def max(self):
        return np.array([self.prio])

    def savedata(self, name, prefix, suffix, i_iter):
        super().savedata(name, prefix, suffix, i_iter)
        K_list = find_live_klist(sys._getframe(1))
        snap = None
        if K_list is not None:
            snap = [(kkey(K), float(K.factor), bool(K.was_evaluated_flag)) for K in K_list]
        SNAPSHOTS.append((int(i_iter), snap, np.array(self.data, copy=True)))


class SteerCalc(Calculator):
    def __init__(self, prio_table=None, salt=0, rank=0, default_prio=0.0):
        self.prio_table = dict(prio_table or {})
        self.default_prio = default_prio
        self.salt = salt
        self.rank = rank
        self.comment = "steering calculator (verification harness)"
        super().__init__(save_mode="bin", print_comment=False)

    def __call__(self, data_K):
        key = kkey(data_K.Kpoint)
        return SteerResult(Energies=[np.array([0.0, 1.0])], data=vdata(key, self.salt, self.rank),
                           transformTR=transform_ident, transformInv=transform_ident, rank=self.rank,
                           E_titles=["Efermi"], save_mode="bin", comment="steer", prio=self.prio_table.get(key, self.default_prio))


def prio_table(history):
    """history = [[keys refined at iteration 0], [keys refined at iteration 1], ...]"""
    D = len(history)
    step = min(40, 300 // max(D, 1))        # 10**(step*D) must stay a finite float for the deep descents
    t = {}
    for i, keys in enumerate(history):
        for j, k in enumerate(keys):
            t[tuple(k)] = 10.0 ** (step * (D - i)) * (1.0 - 0.1 * j)
    return t


def tuplify(x):
    return tuple(tuplify(i) for i in x) if isinstance(x, (list, tuple)) else x


def load_saved(d, name="res", key="scr"):
    """{i_iter: data} from the npz files run() wrote"""
    out = {}
    for f in sorted(os.listdir(d)):
        if f.startswith(f"{name}-{key}_iter-") and f.endswith(".npz"):
            it = int(f.split("_iter-")[1].split(".")[0])
            out[it] = np.array(np.load(os.path.join(d, f), allow_pickle=True)["data"])
    return out


def expected_from_snapshot(snap, salt, rank, symmetrized_results=None):
    """sum_K factor_K * R(K), R recomputed from the K-point identity (rank 0: symmetrisation is the identity)"""
    tot = 0.0
    scale = 0.0
    for key, fac, ev in snap:
        r = vdata(key, salt, rank)
        tot = tot + fac * r
        scale += abs(fac) * np.abs(r).max()
    return tot, scale
