"""Helpers shared by the file round-trip checks C18 (System_R files) and C19 (Wannier90 files).

* `scratch()`            : a private temporary directory, removed on exit
* `FakeGlob`             : stand-in for the `glob` module seen by `System_R.load_npz`; the directory
                           listing it answers is the real one, re-ordered by a permutation chosen by
                           the explorer (directory listing order is an environment choice)
* `kspace_obs`           : energies / Berry curvature of a system at fixed k-points
* reference writers for `_tb.dat` / `_hr.dat` files in the Wannier90 layout with arbitrary
  degeneracy weights (used to test the readers against an independent writer)
"""
import contextlib
import glob as _real_glob
import os
import shutil
import tempfile

import numpy as np


@contextlib.contextmanager
def scratch(prefix="wbmc_rt_"):
    d = tempfile.mkdtemp(prefix=prefix)
    try:
        yield d
    finally:
        shutil.rmtree(d, ignore_errors=True)


class FakeGlob:
    """Replaces the module object `glob` inside wannierberri.system.system_R.

    Every call `glob(pattern)` is answered with the real listing, sorted, then permuted:
    `orders` maps a pattern suffix ("*.npz" / "_XX_R_*.npz") to a permutation (list of ints) or to
    one of the strings "sorted", "reversed".  Calls are recorded in `self.calls`.
    """

    def __init__(self, orders):
        self.orders = dict(orders)
        self.calls = []

    def glob(self, pattern, *args, **kwargs):
        real = sorted(_real_glob.glob(pattern, *args, **kwargs))
        base = os.path.basename(pattern)
        order = self.orders.get(base, "sorted")
        if order == "sorted":
            out = real
        elif order == "reversed":
            out = real[::-1]
        else:
            order = list(order)
            if sorted(order) != list(range(len(real))):
                raise RuntimeError(f"FakeGlob: permutation {order} does not fit listing of {len(real)} files for {base}")
            out = [real[i] for i in order]
        self.calls.append((base, [os.path.basename(x) for x in out]))
        return out

    def __getattr__(self, name):  # anything else: the real module
        return getattr(_real_glob, name)


@contextlib.contextmanager
def patched_glob(orders):
    import wannierberri.system.system_R as mod
    fake = FakeGlob(orders)
    old = mod.glob
    mod.glob = fake
    try:
        yield fake
    finally:
        mod.glob = old


KPTS_E = ((0.0, 0.0, 0.0), (0.5, 0.0, 0.0), (0.123, -0.271, 0.389), (0.31, 0.47, -0.09))
KPTS_O = ((0.123, -0.271, 0.389), (0.31, 0.47, -0.09), (-0.4, 0.21, 0.077))


def kspace_obs(system, external):
    """energies at KPTS_E, Berry curvature at the generic KPTS_O"""
    import wannierberri as wb
    q = "berry_curvature" if external else "berry_curvature_internal_terms"
    E = [np.array(wb.evaluate_k(system, k=k, quantities=["energy"])) for k in KPTS_E]
    EO = [np.array(wb.evaluate_k(system, k=k, quantities=["energy"])) for k in KPTS_O]
    O = [np.array(wb.evaluate_k(system, k=k, quantities=[q])) for k in KPTS_O]
    return E, EO, O


def compare_kspace(ref, got, rel):
    """rel = relative precision of the stored matrix elements (0 for binary formats).
    Energies: |dE| <= (rel*10 + 1e-12) * scale(H).  Berry curvature: perturbation theory bound
    ~ scale/gap^2 (a curvature carries two energy denominators)."""
    E0, EO0, O0 = ref
    E1, EO1, O1 = got
    escale = max(1.0, max(np.abs(e).max() for e in E0))
    for k, a, b in zip(KPTS_E, E0, E1):
        if a.shape != b.shape:
            return f"energy shape {a.shape} vs {b.shape} at k={k}"
        d = np.abs(a - b).max()
        if d > (100 * rel + 1e-11) * escale:
            return f"energies differ by {d:.3e} at k={k}"
    for k, e, a, b in zip(KPTS_O, EO0, O0, O1):
        if a.shape != b.shape:
            return f"curvature shape {a.shape} vs {b.shape} at k={k}"
        gap = np.diff(np.sort(e)).min() if len(e) > 1 else 1.0
        amp = max(1.0, np.abs(a).max())
        tol = (1000 * rel + 1e-10) * amp * max(1.0, escale / max(gap, 1e-6)) ** 2
        d = np.abs(a - b).max()
        if d > tol:
            return f"Berry curvature differs by {d:.3e} (tol {tol:.1e}, min gap {gap:.2e}) at k={k}"
    return None


# ---- independent writers of the Wannier90 text layouts (degeneracy weights != 1 allowed) -------------

def _ndegen_lines(ndegen):
    out = ""
    for i in range(0, len(ndegen), 15):
        out += "".join(f"{int(x):5d}" for x in ndegen[i:i + 15]) + "\n"
    return out


def ref_write_tb(path, lattice, iRvec, ham, aa_conv2, ndegen):
    """`seedname_tb.dat` in the layout of Wannier90's hamiltonian_write_tb.  A reader must divide the
    stored numbers by the degeneracy weight ndegen(R) (that is how wannier-berri defines its X(R)), so
    the file holds X(R)*ndegen(R) together with the weights ndegen.  m runs fastest over (m, n)."""
    nR, nw = ham.shape[0], ham.shape[1]
    with open(path, "w") as f:
        f.write("reference writer of the verification harness\n")
        for row in lattice:
            f.write("".join(f"{x:24.16f}" for x in row) + "\n")
        f.write(f"{nw:12d}\n{nR:12d}\n")
        f.write(_ndegen_lines(ndegen))
        for ir in range(nR):
            f.write("\n" + "".join(f"{int(x):5d}" for x in iRvec[ir]) + "\n")
            for n in range(nw):
                for m in range(nw):
                    v = ham[ir, m, n] * ndegen[ir]
                    f.write(f"{m + 1:5d}{n + 1:5d}   {v.real:15.8E} {v.imag:15.8E}\n")
        for ir in range(nR):
            f.write("\n" + "".join(f"{int(x):5d}" for x in iRvec[ir]) + "\n")
            for n in range(nw):
                for m in range(nw):
                    v = aa_conv2[ir, m, n] * ndegen[ir]
                    f.write(f"{m + 1:5d}{n + 1:5d}   " +
                            " ".join(f"{c.real:15.8E} {c.imag:15.8E}" for c in v) + "\n")


def ref_write_hr(seedname, iRvec, ham, ndegen, centres):
    """`seedname_hr.dat` (Wannier90 layout, m fastest) + WannierTools centre file in the layout
    the library documents for it: first the even-numbered functions (0,2,4,...), then the odd ones."""
    nR, nw = ham.shape[0], ham.shape[1]
    with open(seedname + "_hr.dat", "w") as f:
        f.write("reference writer of the verification harness\n")
        f.write(f"{nw:12d}\n{nR:12d}\n")
        f.write(_ndegen_lines(ndegen))
        for ir in range(nR):
            for n in range(nw):
                for m in range(nw):
                    v = ham[ir, m, n] * ndegen[ir]
                    f.write("".join(f"{int(x):5d}" for x in iRvec[ir]) + f"{m + 1:5d}{n + 1:5d}" +
                            f"{v.real:16.8E}{v.imag:16.8E}\n")
    with open(seedname + "_wannier_centre_WT_format.dat", "w") as f:
        for c in list(centres[::2]) + list(centres[1::2]):
            f.write(" ".join(repr(float(x)) for x in c) + "\n")


# ---- multiprocessing seam of the Wannier90 text readers ----------------------------------------------

class _SerialPool:
    """in-process stand-in for multiprocessing.Pool (map / close / join / terminate)"""

    def __init__(self, *args, **kwargs):
        pass

    def map(self, func, iterable, chunksize=None):
        return [func(x) for x in iterable]

    def close(self):
        pass

    def join(self):
        pass

    def terminate(self):
        pass


class _MPProxy:
    def __init__(self, real):
        self._real = real
        self.pools_created = 0

    def Pool(self, *args, **kwargs):
        self.pools_created += 1
        return _SerialPool()

    def __getattr__(self, name):
        return getattr(self._real, name)


@contextlib.contextmanager
def serial_pools():
    """AMN.from_w90_file / MMN.from_w90_file create a multiprocessing.Pool per call (a fork per call);
    inside this context the pool is replaced by an in-process map.  Used only where thousands of tiny
    files are read (impulse loops); the other cases use the real pools with npar in {1, 2}."""
    import multiprocessing as real
    import wannierberri.w90files.amn as amn
    import wannierberri.w90files.mmn as mmn
    proxy = _MPProxy(real)
    old = (amn.multiprocessing, mmn.multiprocessing)
    amn.multiprocessing = proxy
    mmn.multiprocessing = proxy
    try:
        yield proxy
    finally:
        amn.multiprocessing, mmn.multiprocessing = old
