"""Independent reference for the Wigner-Seitz / MDRS replica selection (used by C01).

For a lattice of the zoo (all of them have a *rational* Gram matrix, the hexagonal one included),
a Monkhorst-Pack mesh `mp` and a rational shift `s` (= tau_b - tau_a in reduced coordinates) the
replicas of the grid cell r0 are R = r0 + mp*n, n in Z^3, and the Wigner-Seitz choice is the set
of R minimising |R + s|.  Distances are screened in floating point through the Gram matrix (not
through Cartesian vectors, which is what the library does) and ties are decided exactly with
Fractions, so "on the boundary" is an exact statement here.
"""
import itertools
from fractions import Fraction

import numpy as np

_F = Fraction

GRAM_HEX = [[_F(1), _F(-1, 2), _F(0)], [_F(-1, 2), _F(1), _F(0)], [_F(0), _F(0), _F(64, 25)]]


def frac(x, maxden=10 ** 6):
    return Fraction(float(x)).limit_denominator(maxden)


def gram_exact(latname):
    """exact Gram matrix a_i.a_j of a zoo lattice"""
    from wbmc import zoo
    if latname == "hex":
        return [row[:] for row in GRAM_HEX]
    L = [[Fraction(repr(float(x))) for x in row] for row in zoo.LATTICES[latname]]
    return [[sum(L[i][k] * L[j][k] for k in range(3)) for j in range(3)] for i in range(3)]


def _q(G, v):
    return sum(v[i] * G[i][j] * v[j] for i in range(3) for j in range(3))


def exact_ws(latname, mp, shift, search=4, near=0.0):
    """For every grid cell r0 (tuple) return a dict with
         'min'  : sorted list of R (tuples) that minimise |R+shift| *exactly*
         'd0'   : the minimal distance (float)
         'near' : list of (R, d - d0) for the non-minimal candidates with d - d0 <= near
         'nmax' : max over the exact minimisers and directions of |floor(R_i / mp_i)|, i.e. the supercell index
                  the library's search window (cells 0..mp-1 plus supercells -3..3) needs to contain them
    shift: 3 Fractions (reduced).  The candidates are R = r0 + mp*n with n in a window of +-search supercells
    centred on -shift, so the true minimum is found for any distance between the centres."""
    G = gram_exact(latname)
    Gf = np.array([[float(x) for x in row] for row in G])
    mp = [int(m) for m in mp]
    sf = np.array([float(x) for x in shift])
    ns = np.array(list(itertools.product(range(-search, search + 1), repeat=3)), dtype=int)
    out = {}
    for r0 in itertools.product(*[range(m) for m in mp]):
        n0 = np.array([int(round((-sf[i] - r0[i]) / mp[i])) for i in range(3)], dtype=int)
        R = np.array(r0, dtype=int)[None, :] + (ns + n0[None, :]) * np.array(mp)[None, :]
        v = R + sf[None, :]
        d2 = np.einsum("ni,ij,nj->n", v, Gf, v)
        d = np.sqrt(np.maximum(d2, 0.0))
        dmin = d.min()
        cand = np.where(d <= dmin + 1e-7 + 1e-9 * dmin)[0]
        ex = {}
        for j in cand:
            Rj = tuple(int(x) for x in R[j])
            ex[j] = _q(G, [Fraction(Rj[i]) + shift[i] for i in range(3)])
        e0 = min(ex.values())
        mins = sorted(tuple(int(x) for x in R[j]) for j in cand if ex[j] == e0)
        minset = set(mins)
        nr = []
        if near > 0:
            for j in np.where(d <= dmin + near)[0]:
                Rj = tuple(int(x) for x in R[j])
                if Rj not in minset:
                    nr.append((Rj, float(d[j] - dmin)))
        nmax = max(max(abs(Rj[i] // mp[i]) for i in range(3)) for Rj in mins + [x[0] for x in nr])
        out[r0] = {"min": mins, "d0": float(dmin), "near": nr, "nmax": int(nmax)}
    return out
