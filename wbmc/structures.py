"""Small crystal structures (lattice, atomic positions, types, magnetic moments) and their irrep
SpaceGroup objects, shared by the symmetry checks (C09 PointGroup(spacegroup=...), C21 Dwann).

symmorphic cubic (sc1, zb), body-centred magnetic (bcc_mag, I4/mm'm'), non-symmorphic hexagonal (hcp,
P6_3/mmc), non-symmorphic cubic (diamond, Fd-3m), non-symmorphic monoclinic (mono, P2_1/m).
All non-magnetic structures are grey groups (every operation also appears with time reversal).
"""
import numpy as np

_h3 = np.sqrt(3) / 2
STRUCTURES = {
    "sc1": dict(lattice=[[1, 0, 0], [0, 1, 0], [0, 0, 1]], positions=[[0, 0, 0]], typat=[1], magmom=None),
    "bcc_mag": dict(lattice=[[-.5, .5, .5], [.5, -.5, .5], [.5, .5, -.5]], positions=[[0, 0, 0]], typat=[1], magmom=[[0, 0, 1]]),
    "hcp": dict(lattice=[[1, 0, 0], [-.5, _h3, 0], [0, 0, 1.6]], positions=[[1 / 3, 2 / 3, 0], [2 / 3, 1 / 3, .5]], typat=[1, 1],
                magmom=None),
    "zb": dict(lattice=[[0, .5, .5], [.5, 0, .5], [.5, .5, 0]], positions=[[0, 0, 0], [.25, .25, .25]], typat=[1, 2], magmom=None),
    "diamond": dict(lattice=[[0, .5, .5], [.5, 0, .5], [.5, .5, 0]], positions=[[0, 0, 0], [.25, .25, .25]], typat=[1, 1],
                    magmom=None),
    "mono": dict(lattice=[[1, 0, 0], [0, 1.1, 0], [0.3, 0, 1.4]], positions=[[0.1, 0.25, 0.2], [-0.1, 0.75, -0.2]], typat=[1, 1],
                 magmom=None),
}


def lattice(name):
    return np.array(STRUCTURES[name]["lattice"], dtype=float)


def get_spacegroup(name, spinor=False):
    """irrep.spacegroup.SpaceGroup of structure `name` (found by spglib from the cell)"""
    from irrep.spacegroup import SpaceGroup
    s = STRUCTURES[name]
    return SpaceGroup.from_cell(real_lattice=lattice(name), positions=np.array(s["positions"], dtype=float),
                                typat=s["typat"], magmom=s["magmom"], spinor=spinor)
