"""Bounded exhaustive exploration engine for the WannierBerri checks.

A property module (wbmc/props/cXX.py) defines

    ID, LEVEL ("exploration" | "fault_enumeration" | "model_checking"), RULE, ASSUMPTIONS
    cases(tier, seed)      -> iterable of JSON-serialisable case dicts, deterministic order,
                              simplest first.  The whole iterable is executed: nothing is sampled.
    run_case(case, seed)   -> dict with keys
          ok        : bool
          nontrivial: falsy; True (the case itself counts); a str/tuple key identifying *what*
                      non-trivial mechanism the case exercised; or a list of such keys
                      (distinct keys are counted)
          key       : (when not ok) stable finding key, e.g. "EIG.to_w90_file" — matched against
                      known_findings.json
          detail    : (when not ok) short human text
          states / transitions / outcome : optional counters for model-checking modules
    optional  setup(tier, seed)  called once in the parent before forking (JIT warm-up …)
    optional  finish(ctx, results) -> extra coverage dict

Everything is run on the real code imported from /repo's working tree.
"""
import contextlib
import fnmatch
import hashlib
import importlib
import io
import json
import multiprocessing as mp
import os
import sys
import time
import traceback
import warnings

ROOT = os.path.dirname(os.path.dirname(os.path.abspath(__file__)))
# VERIF_OUT redirects evidence and replays (used when a check is pointed at a scratch copy of the
# repository with WB_REPO, e.g. for seeded changes, so that /verif/evidence keeps the real tree's run)
_OUT = os.environ.get("VERIF_OUT") or ROOT
EVIDENCE_DIR = os.path.join(_OUT, "evidence")
REPLAY_DIR = os.path.join(_OUT, "replays")
FINDINGS_FILE = os.path.join(ROOT, "known_findings.json")


def canon(obj):
    return json.dumps(obj, sort_keys=True, separators=(",", ":"), default=_jsonable)


def _jsonable(o):
    import numpy as np
    if isinstance(o, np.ndarray):
        return o.tolist()
    if isinstance(o, (np.integer,)):
        return int(o)
    if isinstance(o, (np.floating,)):
        return float(o)
    if isinstance(o, (np.bool_,)):
        return bool(o)
    if isinstance(o, complex):
        return [o.real, o.imag]
    if isinstance(o, (set, frozenset, tuple)):
        return list(o)
    return repr(o)


def case_id(case):
    return hashlib.sha1(canon(case).encode()).hexdigest()[:12]


@contextlib.contextmanager
def quiet():
    """Silence the library (it prints a lot) at file-descriptor level free way: python level only."""
    old_out, old_err = sys.stdout, sys.stderr
    sys.stdout = io.StringIO()
    sys.stderr = io.StringIO()
    try:
        with warnings.catch_warnings():
            warnings.simplefilter("ignore")
            yield
    finally:
        sys.stdout, sys.stderr = old_out, old_err


_MOD = None
_SEED = 0


def _worker_init(modname, seed):
    global _MOD, _SEED
    _MOD = importlib.import_module(modname)
    _SEED = seed


def _run_one(case):
    t0 = time.time()
    try:
        with quiet():
            res = _MOD.run_case(case, _SEED)
        if res is None:
            res = {"ok": True}
    except Exception as e:  # an exception inside the real code is an observation, not a crash
        tb = traceback.format_exc()
        res = {"ok": False, "key": "exception:" + type(e).__name__,
               "detail": f"{type(e).__name__}: {e}", "traceback": tb[-2000:], "nontrivial": False}
    res["_t"] = time.time() - t0
    return res


def _run_chunk(chunk):
    return [_run_one(c) for c in chunk]


def load_findings(pid):
    if not os.path.exists(FINDINGS_FILE):
        return []
    with open(FINDINGS_FILE) as f:
        allf = json.load(f)
    return [e for e in allf.get("findings", []) if e.get("property") == pid]


def match_known(findings, key):
    for e in findings:
        if e.get("status") == "known" and fnmatch.fnmatchcase(str(key), e["key"]):
            return e
    return None


def write_evidence(pid, tier, seed, level, coverage, assumptions, wall, violations, extra=None):
    os.makedirs(EVIDENCE_DIR, exist_ok=True)
    ev = {"property_id": pid, "tier": tier, "seed": int(seed), "level": level,
          "coverage": coverage, "assumptions": list(assumptions), "wall_s": round(wall, 3),
          "violations": int(violations)}
    if extra:
        ev.update(extra)
    path = os.path.join(EVIDENCE_DIR, f"{pid}.json")
    tmp = path + ".tmp"
    with open(tmp, "w") as f:
        json.dump(ev, f, indent=1, default=_jsonable)
    try:  # self-validation; the schema copy lives outside /verif, so tolerate its absence
        import jsonschema
        schema_path = "/root/.vp/EVIDENCE.schema.json"
        if os.path.exists(schema_path):
            with open(schema_path) as f, open(tmp) as g:
                jsonschema.validate(json.load(g), json.load(f))
    except ImportError:
        pass
    except Exception as e:   # never let a coverage shortfall hide the verdict lines that follow
        print(f"EVIDENCE-INVALID {pid}: {str(e).splitlines()[0][:200]}", file=sys.stderr)
    os.replace(tmp, path)
    return path


def write_replay(pid, case, res):
    d = os.path.join(REPLAY_DIR, pid)
    os.makedirs(d, exist_ok=True)
    path = os.path.join(d, case_id(case) + ".json")
    with open(path, "w") as f:
        json.dump({"property": pid, "case": case, "key": res.get("key"),
                   "detail": res.get("detail"), "traceback": res.get("traceback")},
                  f, indent=1, default=_jsonable)
    return path


def run_check(modname, tier, seed, jobs, max_report=20):
    t0 = time.time()
    mod = importlib.import_module(modname)
    pid = mod.ID
    level = mod.LEVEL
    if hasattr(mod, "setup"):
        with quiet():
            mod.setup(tier, seed)
    cases = list(mod.cases(tier, seed))
    # dedup by canonical id, keep order
    seen = set()
    ucases = []
    for c in cases:
        cid = canon(c)
        if cid not in seen:
            seen.add(cid)
            ucases.append(c)
    cases = ucases
    n = len(cases)
    jobs = max(1, min(jobs, n))
    results = [None] * n
    if jobs == 1:
        _worker_init(modname, seed)
        for i, c in enumerate(cases):
            results[i] = _run_one(c)
    else:
        # interleaved small chunks keep the load balanced; order of results is restored
        nchunks = min(n, jobs * 8)
        idx_chunks = [list(range(i, n, nchunks)) for i in range(nchunks)]
        ctx = mp.get_context("fork")
        with ctx.Pool(jobs, initializer=_worker_init, initargs=(modname, seed)) as pool:
            outs = pool.map(_run_chunk, [[cases[i] for i in ch] for ch in idx_chunks], chunksize=1)
        for ch, out in zip(idx_chunks, outs):
            for i, r in zip(ch, out):
                results[i] = r
    return report(mod, tier, seed, cases, results, time.time() - t0, max_report)


def report(mod, tier, seed, cases, results, wall, max_report=20):
    pid, level = mod.ID, mod.LEVEL
    findings = load_findings(pid)
    nontrivial = set()
    outcomes = set()
    states = transitions = 0
    viol = []       # (case, res)
    known = {}      # finding key -> count
    for c, r in zip(cases, results):
        nt = r.get("nontrivial")
        if nt:
            if nt is True:
                nontrivial.add(canon(c))
            elif isinstance(nt, list):   # a list = several keys; anything else = one key
                for x in nt:
                    nontrivial.add(canon(x))
            else:
                nontrivial.add(canon(nt))
        states += int(r.get("states", 0))
        transitions += int(r.get("transitions", 0))
        if "outcome" in r:
            outcomes.add(canon(r["outcome"]))
        if not r.get("ok", False):
            e = match_known(findings, r.get("key", ""))
            if e is not None:
                known.setdefault(e["key"], [e, 0, c, r])
                known[e["key"]][1] += 1
            else:
                viol.append((c, r))
    samples = []
    if cases:
        for i in sorted({0, len(cases) // 2, len(cases) - 1}):
            samples.append({"case": cases[i], "ok": results[i].get("ok"),
                            "nontrivial": results[i].get("nontrivial"),
                            "obs": results[i].get("obs")})
    coverage = {
        "evaluations": len(cases),
        "distinct_nontrivial": len(nontrivial),
        "rule": mod.RULE,
        "samples": samples,
        "exhaustive": bool(getattr(mod, "EXHAUSTIVE", True)),
    }
    if level == "model_checking":
        coverage["states"] = states
        coverage["transitions"] = transitions
        coverage["traces_validated_against_impl"] = int(
            sum(int(r.get("traces", 0)) for r in results)) or len(cases)
        coverage["distinct_outcomes"] = len(outcomes)
    if outcomes and "distinct_outcomes" not in coverage:
        coverage["distinct_outcomes"] = len(outcomes)
    if hasattr(mod, "finish"):
        try:
            extra = mod.finish(tier, cases, results)
            if extra:
                coverage.update(extra)
        except Exception:
            coverage["finish_error"] = traceback.format_exc()[-500:]
    coverage["known_findings_hit"] = {k: v[1] for k, v in known.items()}
    coverage["slowest_case_s"] = round(max((r.get("_t", 0) for r in results), default=0), 3)
    write_evidence(pid, tier, seed, level, coverage, getattr(mod, "ASSUMPTIONS", []), wall, len(viol))
    for k, (e, cnt, c, r) in known.items():
        print(f"KNOWN-FINDING: property={pid} {e['key']} — {e.get('what','')} ({cnt} cases)")
    print(f"[{pid}] tier={tier} seed={seed} cases={len(cases)} nontrivial={len(nontrivial)} "
          f"states={states} transitions={transitions} outcomes={len(outcomes)} "
          f"violations={len(viol)} known={sum(v[1] for v in known.values())} wall={wall:.1f}s")
    if viol:
        # one replay per distinct key first, then up to max_report
        byk = {}
        for c, r in viol:
            byk.setdefault(r.get("key", "?"), []).append((c, r))
        shown = 0
        for k, lst in byk.items():
            c, r = lst[0]
            path = write_replay(pid, r.get("replay_case", c), r)
            print(f"VIOLATION property={pid} replay={path}")
            print(f"   key={k} cases={len(lst)} detail={str(r.get('detail'))[:400]}")
            shown += 1
            if shown >= max_report:
                break
        return 1
    return 0


def run_replay(modname, path, seed):
    mod = importlib.import_module(modname)
    with open(path) as f:
        rec = json.load(f)
    case = rec["case"]
    if hasattr(mod, "setup"):
        with quiet():
            mod.setup("quick", seed)
    _worker_init(modname, seed)
    r = _run_one(case)
    print(json.dumps({k: v for k, v in r.items() if k != "traceback"}, default=_jsonable)[:3000])
    if r.get("traceback"):
        print(r["traceback"])
    if not r.get("ok"):
        e = match_known(load_findings(mod.ID), r.get("key", ""))
        if e is not None:
            print(f"KNOWN-FINDING: property={mod.ID} {e['key']} — {e.get('what','')}")
            return 0
        print(f"VIOLATION property={mod.ID} replay={path}")
        return 1
    print(f"[{mod.ID}] replay ok")
    return 0
