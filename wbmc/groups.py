"""The 32 crystallographic point groups as generator lists for ``wannierberri``'s ``PointGroup``,
with the zoo lattices (``wbmc.zoo.LATTICES``) each setting is compatible with.

Shared by C06, C07, C09 (import it, do not copy it).  Nothing here imports wannierberri at module
level; generator *specs* are plain JSON-serialisable values so that they can be put into case dicts,
and ``build(spec)`` turns a spec into what ``PointGroup(generator_list=...)`` accepts.

Generator spec (one generator)
------------------------------
* a ``str``            : passed to PointGroup unchanged, e.g. ``"C4z"``, ``"Inversion"``,
                         ``"C4z*Inversion"`` (wannierberri parses names from ``dict_sym`` joined by ``*``)
* ``["rot", n, axis]`` : ``Rotation(n, axis)``                     (proper n-fold rotation)
* ``["mir", axis]``    : ``Mirror(axis)``                          (mirror plane normal to axis)
* ``["roti", n, axis]``: ``Rotation(n, axis) * Inversion``         (roto-inversion, e.g. S4 = roti 4)
* ``["TR", spec]``     : ``spec`` multiplied by ``TimeReversal``   (used for black-white groups)

Settings
--------
Cubic setting (axes x, y, z; three-fold axis along [111]) for triclinic … cubic groups, hexagonal
setting (six/three-fold axis z, two-fold axis x = a1 of the zoo ``hex`` lattice) for trigonal and
hexagonal groups.  The trigonal groups have a second setting with the three-fold axis along [111]
(compatible with the cubic lattices).  The monoclinic unique axis is y (zoo lattice ``mono``).

``GROUPS[name]`` = dict(hm=Hermann–Mauguin symbol, order=textbook order, system=crystal system,
                        settings=[dict(gens=[spec, ...], lattices=(zoo lattice names))])

Public helpers
--------------
``names()``                          the 32 Schoenflies names, simplest first
``generators(name, setting=0)``      list of generator specs (JSON values)
``lattices(name, setting=0)``        tuple of compatible zoo lattice names
``variants(name, setting=0)``        [(variant, [spec...])] : "plain", "grey" (+TimeReversal) and
                                     "bw<i>" (generator i multiplied by TimeReversal; if that generator
                                     has odd order the result is the grey group again — callers that need
                                     a true black-white group use ``is_true_bw`` or compare group orders)
``build(specs)``                     list of str / PointSymmetry objects for PointGroup(generator_list=…)
``pointgroup(name, lattice, variant="plain", setting=0, reverse=False)``  a real PointGroup
``spec_matrix(spec)``                (3x3 float matrix with det ±1, TR flag) — independent of wannierberri
``reference_elements(specs)``        closure of the generators as a list of (matrix, TR), computed here
                                     with plain numpy (the reference model the checks compare with)
"""
import numpy as np

A111 = [1, 1, 1]
A1m10 = [1, -1, 0]

_ALL = ("sc", "tet", "orth", "hex", "fcc", "bcc", "mono", "tric")
_MONO = ("mono", "orth", "tet", "sc", "fcc", "bcc", "hex")      # two-fold axis / mirror normal along y
_ORTH = ("orth", "tet", "sc", "fcc", "bcc", "hex")               # x, y, z two-fold axes
_TETR = ("tet", "sc", "fcc", "bcc")                              # four-fold axis z
_HEX = ("hex",)                                                  # three/six-fold axis z, two-fold x
_CUB = ("sc", "fcc", "bcc")                                      # three-fold axis [111]

_C3d = ["rot", 3, A111]
_C2p = ["rot", 2, A1m10]
_Mp = ["mir", A1m10]


def _g(hm, order, system, *settings):
    return dict(hm=hm, order=order, system=system,
                settings=[dict(gens=list(g), lattices=tuple(l)) for g, l in settings])


GROUPS = {
    # triclinic
    "C1": _g("1", 1, "triclinic", ([], _ALL)),
    "Ci": _g("-1", 2, "triclinic", (["Inversion"], _ALL)),
    # monoclinic (unique axis y)
    "C2": _g("2", 2, "monoclinic", (["C2y"], _MONO)),
    "Cs": _g("m", 2, "monoclinic", (["My"], _MONO)),
    "C2h": _g("2/m", 4, "monoclinic", (["C2y", "Inversion"], _MONO)),
    # orthorhombic
    "D2": _g("222", 4, "orthorhombic", (["C2x", "C2y"], _ORTH)),
    "C2v": _g("mm2", 4, "orthorhombic", (["Mx", "My"], _ORTH)),
    "D2h": _g("mmm", 8, "orthorhombic", (["C2x", "C2y", "Inversion"], _ORTH)),
    # tetragonal
    "C4": _g("4", 4, "tetragonal", (["C4z"], _TETR)),
    "S4": _g("-4", 4, "tetragonal", (["C4z*Inversion"], _TETR)),
    "C4h": _g("4/m", 8, "tetragonal", (["C4z", "Inversion"], _TETR)),
    "D4": _g("422", 8, "tetragonal", (["C4z", "C2x"], _TETR)),
    "C4v": _g("4mm", 8, "tetragonal", (["C4z", "Mx"], _TETR)),
    "D2d": _g("-42m", 8, "tetragonal", (["C4z*Inversion", "C2x"], _TETR)),
    "D4h": _g("4/mmm", 16, "tetragonal", (["C4z", "C2x", "Inversion"], _TETR)),
    # trigonal (setting 0 hexagonal axes, setting 1 three-fold axis along [111])
    "C3": _g("3", 3, "trigonal", (["C3z"], _HEX), ([_C3d], _CUB)),
    "S6": _g("-3", 6, "trigonal", (["C3z", "Inversion"], _HEX), ([_C3d, "Inversion"], _CUB)),
    "D3": _g("32", 6, "trigonal", (["C3z", "C2x"], _HEX), ([_C3d, _C2p], _CUB)),
    "C3v": _g("3m", 6, "trigonal", (["C3z", "Mx"], _HEX), ([_C3d, _Mp], _CUB)),
    "D3d": _g("-3m", 12, "trigonal", (["C3z", "C2x", "Inversion"], _HEX), ([_C3d, _C2p, "Inversion"], _CUB)),
    # hexagonal
    "C6": _g("6", 6, "hexagonal", (["C6z"], _HEX)),
    "C3h": _g("-6", 6, "hexagonal", (["C3z", "Mz"], _HEX)),
    "C6h": _g("6/m", 12, "hexagonal", (["C6z", "Inversion"], _HEX)),
    "D6": _g("622", 12, "hexagonal", (["C6z", "C2x"], _HEX)),
    "C6v": _g("6mm", 12, "hexagonal", (["C6z", "Mx"], _HEX)),
    "D3h": _g("-6m2", 12, "hexagonal", (["C3z", "Mz", "C2x"], _HEX)),
    "D6h": _g("6/mmm", 24, "hexagonal", (["C6z", "C2x", "Inversion"], _HEX)),
    # cubic
    "T": _g("23", 12, "cubic", (["C2z", _C3d], _CUB)),
    "Th": _g("m-3", 24, "cubic", (["C2z", _C3d, "Inversion"], _CUB)),
    "O": _g("432", 24, "cubic", (["C4z", _C3d], _CUB)),
    "Td": _g("-43m", 24, "cubic", (["C4z*Inversion", _C3d], _CUB)),
    "Oh": _g("m-3m", 48, "cubic", (["C4z", _C3d, "Inversion"], _CUB)),
}


def names():
    """Schoenflies names of the 32 groups, by increasing order (simplest first)."""
    return sorted(GROUPS, key=lambda n: (GROUPS[n]["order"], list(GROUPS).index(n)))


def nsettings(name):
    return len(GROUPS[name]["settings"])


def generators(name, setting=0):
    """generator specs (JSON-serialisable) of group `name` in the given setting"""
    return [g if isinstance(g, str) else list(g) for g in GROUPS[name]["settings"][setting]["gens"]]


def lattices(name, setting=0):
    """names of the zoo lattices left invariant by the group in this setting"""
    return GROUPS[name]["settings"][setting]["lattices"]


def variants(name, setting=0):
    """[(variant name, generator specs)]: plain, grey (+TimeReversal), bw<i> (generator i times TimeReversal)"""
    gens = generators(name, setting)
    out = [("plain", gens), ("grey", gens + ["TimeReversal"])]
    for i in range(len(gens)):
        out.append((f"bw{i}", gens[:i] + [["TR", gens[i]]] + gens[i + 1:]))
    return out


def variant_generators(name, variant="plain", setting=0):
    for v, g in variants(name, setting):
        if v == variant:
            return g
    raise KeyError(variant)


# ---------------------------------------------------------------------------------------------
# independent (numpy-only) meaning of a spec
# ---------------------------------------------------------------------------------------------

def _rotation_matrix(n, axis):
    """Rodrigues formula, angle 2*pi/n about `axis`"""
    a = np.asarray(axis, dtype=float)
    a = a / np.linalg.norm(a)
    t = 2 * np.pi / n
    K = np.array([[0, -a[2], a[1]], [a[2], 0, -a[0]], [-a[1], a[0], 0]])
    return np.eye(3) + np.sin(t) * K + (1 - np.cos(t)) * (K @ K)


_NAMED = {
    "Identity": (np.eye(3), False), "Inversion": (-np.eye(3), False), "TimeReversal": (np.eye(3), True),
    "Mx": (np.diag([-1., 1, 1]), False), "My": (np.diag([1., -1, 1]), False), "Mz": (np.diag([1., 1, -1]), False),
    "C2x": (np.diag([1., -1, -1]), False), "C2y": (np.diag([-1., 1, -1]), False), "C2z": (np.diag([-1., -1, 1]), False),
    "C3z": (_rotation_matrix(3, [0, 0, 1]), False), "C4x": (_rotation_matrix(4, [1, 0, 0]), False),
    "C4y": (_rotation_matrix(4, [0, 1, 0]), False), "C4z": (_rotation_matrix(4, [0, 0, 1]), False),
    "C6z": (_rotation_matrix(6, [0, 0, 1]), False),
}


def spec_matrix(spec):
    """(full 3x3 orthogonal matrix acting on polar vectors, time-reversal flag) of a generator spec"""
    if isinstance(spec, str):
        R, TR = np.eye(3), False
        for s in spec.split("*"):
            r, t = _NAMED[s]
            R, TR = R @ r, TR != t
        return R, TR
    kind = spec[0]
    if kind == "rot":
        return _rotation_matrix(spec[1], spec[2]), False
    if kind == "roti":
        return -_rotation_matrix(spec[1], spec[2]), False
    if kind == "mir":
        return -_rotation_matrix(2, spec[1]), False
    if kind == "TR":
        R, TR = spec_matrix(spec[1])
        return R, not TR
    raise ValueError(f"unknown generator spec {spec!r}")


def element_key(R, TR):
    return tuple(int(x) for x in np.round(np.asarray(R) * 1e6).reshape(-1)) + (bool(TR),)


def reference_elements(specs):
    """Closure of the generators under multiplication: list of (R, TR), identity first.

    Plain numpy; elements are identified after rounding to 1e-6 (crystallographic operations are
    separated by O(1))."""
    gens = [spec_matrix(s) for s in specs]
    elems = {element_key(np.eye(3), False): (np.eye(3), False)}
    frontier = [(np.eye(3), False)]
    while frontier:
        new = []
        for R, TR in frontier:
            for Rg, TRg in gens:
                R2, TR2 = Rg @ R, TRg != TR
                k = element_key(R2, TR2)
                if k not in elems:
                    if len(elems) > 200:
                        raise RuntimeError("generators do not close to a crystallographic group")
                    elems[k] = (R2, TR2)
                    new.append((R2, TR2))
        frontier = new
    return list(elems.values())


def is_true_bw(name, variant, setting=0):
    """True if the bw<i> variant is a genuine black-white group (same order as the plain group and
    no bare time reversal); False if multiplying that generator by TR produced the grey group."""
    els = reference_elements(variant_generators(name, variant, setting))
    bare_tr = any(TR and np.allclose(R, np.eye(3), atol=1e-6) for R, TR in els)
    return (not bare_tr) and len(els) == GROUPS[name]["order"]


# ---------------------------------------------------------------------------------------------
# objects for the real code
# ---------------------------------------------------------------------------------------------

def build_one(spec):
    """one generator spec -> str or wannierberri PointSymmetry"""
    if isinstance(spec, str):
        return spec
    from wannierberri.symmetry import point_symmetry as ps
    kind = spec[0]
    if kind == "rot":
        return ps.Rotation(int(spec[1]), list(spec[2]))
    if kind == "roti":
        return ps.Rotation(int(spec[1]), list(spec[2])) * ps.Inversion
    if kind == "mir":
        return ps.Mirror(list(spec[1]))
    if kind == "TR":
        inner = build_one(spec[1])
        if isinstance(inner, str):
            return inner + "*TimeReversal"
        return inner * ps.TimeReversal
    raise ValueError(f"unknown generator spec {spec!r}")


def build(specs):
    """list of specs -> list accepted by PointGroup(generator_list=...)"""
    return [build_one(s) for s in specs]


def pointgroup(name, lattice=None, variant="plain", setting=0, reverse=False):
    """A real wannierberri PointGroup of group `name` on zoo lattice `lattice` (name or 3x3 array)."""
    from wannierberri.symmetry.point_symmetry import PointGroup
    from wbmc import zoo
    specs = variant_generators(name, variant, setting)
    if reverse:
        specs = specs[::-1]
    lat = None
    if lattice is not None:
        lat = zoo.lattice(lattice) if isinstance(lattice, str) else np.array(lattice, dtype=float)
    return PointGroup(build(specs), real_lattice=lat)
