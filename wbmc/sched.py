"""Stateless choice-tree explorer (deviation-bounded DFS).

Every environment answer (a ray.wait outcome, a directory listing order, ...) is a *choice point*:
the environment calls `chooser.choose(n, costs)` and receives an index in range(n).  Option 0 is the
default answer and must have cost 0.  A schedule is the list of indices taken.  `explore` enumerates
*all* schedules whose total cost is <= bound (bound=None: all), by replaying prefixes on fresh
executions of the real code.  Replaying a recorded prefix that asks for an option which does not
exist is a hard error (`Divergence`): it means nondeterminism the harness does not own.
"""


class Divergence(RuntimeError):
    pass


class Chooser:
    def __init__(self, prefix=()):
        self.prefix = list(prefix)
        self.trace = []      # (choice, n_options, costs, label)

    def choose(self, n, costs=None, label=None):
        assert n >= 1
        i = len(self.trace)
        if i < len(self.prefix):
            c = self.prefix[i]
            if not (0 <= c < n):
                raise Divergence(f"choice point {i} ({label}): recorded option {c} but only {n} options now")
        else:
            c = 0
        if costs is None:
            costs = [0] + [1] * (n - 1)
        assert costs[0] == 0, "option 0 must be the default (cost 0)"
        self.trace.append((c, n, tuple(costs), label))
        return c

    @property
    def choices(self):
        return [t[0] for t in self.trace]

    @property
    def cost(self):
        return sum(t[2][t[0]] for t in self.trace)


def explore(run, bound=None, root_prefix=(), free_from=None, max_exec=None):
    """Enumerate all schedules extending root_prefix.

    run(chooser) -> observation.   Alternatives are only opened at positions >= free_from
    (default len(root_prefix)), which lets several workers share a tree by first choice.
    Yields (choices, cost, observation, trace) for every complete execution.
    Returns through the generator's StopIteration value a dict of stats (use `explore_all`).
    """
    if free_from is None:
        free_from = len(root_prefix)
    stack = [list(root_prefix)]
    nexec = 0
    nodes = 0
    capped = False
    while stack:
        prefix = stack.pop()
        ch = Chooser(prefix)
        obs = run(ch)
        if len(ch.trace) < len(prefix):
            raise Divergence(f"execution ended after {len(ch.trace)} choice points, prefix has {len(prefix)}")
        nexec += 1
        choices = ch.choices
        # every position at or after max(len(prefix), free_from) is new in this execution
        start = max(len(prefix), free_from)
        # edges of the choice tree first traversed by this execution: the alternative edge that ends the
        # prefix (unless this is the root execution) plus every default edge after it
        nodes += len(choices) - len(prefix) + (0 if nexec == 1 else 1)
        cost_before = sum(t[2][t[0]] for t in ch.trace[:start])
        for i in range(start, len(ch.trace)):
            c, n, costs, label = ch.trace[i]
            for alt in range(n - 1, 0, -1):
                if bound is None or cost_before + costs[alt] <= bound:
                    stack.append(choices[:i] + [alt])
            cost_before += costs[c]
        yield choices, ch.cost, obs, ch.trace
        if max_exec is not None and nexec >= max_exec and stack:
            capped = True
            break
    explore.last_stats = {"executions": nexec, "tree_edges": nodes, "capped": capped, "left_on_stack": len(stack)}
