"""C29 — paths are built and tabulated faithfully (serial part; the parallel schedules belong to C12).

Seam: `Path.from_nodes`, `Path.get_refined`, `Path.getKline`, `Path.get_K_list(k_batch)`,
`evaluate_k_path(parallel=False)` (-> `run` -> `TABresult.self_to_path`).

Exhaustive product
* node lists of length 2..4 over {G, X, M, R, generic, G+(1,0,0), None}, None never first/last, no repeated
  neighbour (all of them: 30 + 186 + 1146), x reciprocal lattice {sc, triclinic};
  inside a case: labels {default, given} x sampling {nk=2,3,5 ; nk=list ; dk in two values ; length in two
  values} x refinement factor {1,2,3} x k_batch {1,2,3,50} x break_thresh {inf, between two step lengths}.
  Oracle = reference path model written here (pieces separated by None; a segment of n points shares its end
  points; labels on the nodes; a break after the last point of every piece but the last): K_list, labels, breaks
  equal the reference; the refined path contains every original point at the reference position with its
  label / break and interpolates uniformly in between; getKline equals the cumulative Cartesian step length, is
  non-decreasing and flat across breaks; the batches of get_K_list concatenate to K_list in order.
* tabulation: node lists (length <= 3 in quick, all in thorough) x system {Chiral (PythTB), zoo 3-band triclinic
  with AA} x k_batch {1,2,3,50} x {path object, nodes+length} : for every path point j, in path order,
  Energy / band gradients / Berry curvature of the TABresult equal `evaluate_k` at K_list[j]; result.kpoints is the path.
* zoom paths (same oracle): straight 9-point paths with a spacing of {2.5e-6, 1e-6, 4e-7} in reduced coordinates (below the
  1e-5 tolerance with which `self_to_path` identifies evaluated and path points) through centre {gen, a point near K, gen + (1,0,-1)} along
  {(1,-1,0), (1,0,0), skew} x system x k_batch {1,2,50} x entry {path with nk ; nodes + huge length ; coarse path refined
  by a factor 8}. Neighbouring points are distinct k-points with distinct values (checked per case: it is the premise for
  the case to count), so every point must still carry the values of its own k-point, not those of a close neighbour.
* band selection: `evaluate_k_path(ibands=...)` x {named quantities, user tabulators} returns the selected bands of
  the single-point values, and evaluating the same points alone afterwards (all bands) is unaffected.
"""
import itertools

import numpy as np

ID = "C29"
LEVEL = "exploration"
RULE = ("cases = (node list over the 7-letter alphabet, lattice) for construction and (node list, system, k_batch, "
        "entry) for tabulation; a construction case runs every (labels, sampling, refinement, k_batch, break_thresh) "
        "combination; non-trivial = the node list has a break or >= 2 segments (construction), the path has more "
        "points than k_batch or a break or a periodic image / revisited point (tabulation); zoom tabulation cases = "
        "(centre, direction, spacing, system, k_batch, entry), non-trivial = the reference energies of every two "
        "neighbouring path points differ by more than 10 x the comparison tolerance")
ASSUMPTIONS = [
    "nk >= 2 (a segment needs both end points), dk/length chosen away from rounding ties of the point count",
    "None (break) never first or last in the node list, as the docstring of Path requires",
    "serial evaluation only (parallel=False); completion-order schedules are explored by C12",
    "tabulators: Energy, band gradients, Berry curvature with default degeneracy threshold on both sides",
    "quick tabulates node lists of length <= 3; thorough all lengths <= 4",
    "zoom paths: one straight segment of 9 points, spacings 2.5e-6 / 1e-6 / 4e-7 (largest reduced component of the step), "
    "three centres x three directions; quick runs the entries 'nodes'(length) and 'refined' with k_batch=2 only; spacings "
    "below 4e-7 (where neighbouring energies approach the 1e-9 comparison tolerance), zoom paths with breaks or several "
    "segments and zooms exactly onto a degeneracy are not covered",
]

NODE_ALPHABET = {"G": (0.0, 0.0, 0.0), "X": (0.5, 0.0, 0.0), "M": (0.5, 0.5, 0.0), "R": (0.5, 0.5, 0.5),
                 "gen": (0.123, -0.271, 0.389), "G1": (1.0, 0.0, 0.0)}
RECIP = {"sc": (2 * np.pi * np.eye(3)).tolist(),
         "tric": [[6.1, 0.4, -0.3], [0.7, 5.2, 0.9], [-0.5, 1.1, 7.3]]}
SAMPLINGS = [("nk", 2), ("nk", 3), ("nk", 5), ("nklist", (2, 5, 3)), ("nklist", (4, 2, 3)),
             ("dk", 0.53), ("dk", 1.71), ("length", 3.1), ("length", 11.0)]


# zoom paths: centre +- 4 steps along a direction; the step is `spacing` x direction (largest |component| = 1)
# (K itself is a band extremum of the Chiral model in the plane: nothing varies to first order there, hence "offK")
ZOOM_CENTRES = {"gen": NODE_ALPHABET["gen"], "offK": (0.35, 0.64, 0.1), "genG1": (1.123, -0.271, -0.611)}
ZOOM_DIRS = {"diag": (1.0, -1.0, 0.0), "axis": (1.0, 0.0, 0.0), "skew": (0.6, -0.3, 1.0)}
ZOOM_STEPS = (2.5e-6, 1e-6, 4e-7)
ZOOM_NPTS = 9
ZOOM_REFINE = 8
TAB_TOL = 1e-9          # x max(1, |value|): comparison of a path value with the single-point value


def zoom_nodes(zoom):
    c = np.array(ZOOM_CENTRES[zoom["centre"]], dtype=float)
    d = np.array(ZOOM_DIRS[zoom["dir"]], dtype=float) * zoom["step"]
    h = (ZOOM_NPTS - 1) // 2
    return [(c - h * d).tolist(), (c + h * d).tolist()]


def node_lists(maxlen):
    names = list(NODE_ALPHABET) + [None]
    for n in range(2, maxlen + 1):
        for seq in itertools.product(names, repeat=n):
            if seq[0] is None or seq[-1] is None:
                continue
            if any(a == b and a is not None for a, b in zip(seq, seq[1:])):
                continue
            yield list(seq)


def coords(seq):
    return [None if s is None else list(NODE_ALPHABET[s]) for s in seq]


# ----------------------------------------------------------------------------------------------
# reference model of a path
def ref_path(nodes, labels, sampling, recip):
    recip = np.array(recip)
    real = [k for k in nodes if k is not None]
    if labels is None:
        labels = [str(i + 1) for i in range(len(real))]
    assert len(labels) == len(real)
    # pieces of consecutive non-None nodes
    pieces, cur = [], []
    for k, lab in zip(nodes, _spread(labels, nodes)):
        if k is None:
            if cur:
                pieces.append(cur)
            cur = []
        else:
            cur.append((np.array(k, dtype=float), lab))
    pieces.append(cur)
    kind, val = sampling
    nkiter = iter(val) if kind == "nklist" else None
    K, labs, breaks = [], {}, []
    for ip, piece in enumerate(pieces):
        for i, (k, lab) in enumerate(piece):
            if i > 0:
                k0 = piece[i - 1][0]
                if kind == "nk":
                    n = val
                elif kind == "nklist":
                    n = next(nkiter)
                else:
                    dk = val if kind == "dk" else 2 * np.pi / val
                    n = max(2, int(round(np.linalg.norm((k - k0) @ recip) / dk)) + 1)
                for j in range(1, n - 1):
                    K.append(k0 + (k - k0) * j / (n - 1))
            labs[len(K)] = lab
            K.append(k)
        if ip < len(pieces) - 1:
            breaks.append(len(K) - 1)
    return np.array(K), labs, breaks


def _spread(labels, nodes):
    it = iter(labels)
    return [None if k is None else next(it) for k in nodes]


def ref_refined(K, labs, breaks, factor):
    Kr, lr, br, pos = [], {}, [], []
    for i in range(len(K)):
        pos.append(len(Kr))
        Kr.append(K[i])
        if i in labs:
            lr[len(Kr) - 1] = labs[i]
        if i in breaks:
            br.append(len(Kr) - 1)
        elif i < len(K) - 1:
            for j in range(1, factor):
                Kr.append(K[i] + (K[i + 1] - K[i]) * j / factor)
    return np.array(Kr), lr, br, pos


def ref_kline(K, breaks, recip, thresh=np.inf):
    Kc = np.array(K) @ np.array(recip)
    out = [0.0]
    for i in range(1, len(K)):
        step = float(np.linalg.norm(Kc[i] - Kc[i - 1]))
        if (i - 1) in breaks or step > thresh:
            step = 0.0
        out.append(out[-1] + step)
    return np.array(out)


def same_path(path, K, labs, breaks, tol=1e-12):
    Kp = np.array(path.K_list, dtype=float)
    if Kp.shape != K.shape:
        return f"K_list shape {Kp.shape} != {K.shape}"
    if np.abs(Kp - K).max() > tol:
        i = int(np.argmax(np.abs(Kp - K).max(axis=1)))
        return f"K_list[{i}]={Kp[i].tolist()} expected {K[i].tolist()}"
    got = {int(i): l for i, l in dict(path.labels).items()}
    if got != labs:
        return f"labels {got} expected {labs}"
    if [int(b) for b in path.breaks] != list(breaks):
        return f"breaks {list(path.breaks)} expected {list(breaks)}"
    return None


def fail(key, case, detail, nt=True):
    return {"ok": False, "key": key, "nontrivial": nt, "detail": f"nodes={case['nodes']} lattice={case.get('lat')}: {detail}"}


def run_build(case):
    from wannierberri.grid import Path
    seq = case["nodes"]
    nodes = coords(seq)
    recip = RECIP[case["lat"]]
    real = [s for s in seq if s is not None]
    nseg = sum(1 for a, b in zip(seq, seq[1:]) if a is not None and b is not None)
    has_break = None in seq
    nontrivial = has_break or nseg >= 2
    given = [f"L{i}:{s}" for i, s in enumerate(real)]
    nev = 0
    for lab_kind, labels in (("default", None), ("given", given)):
        for sampling in SAMPLINGS:
            kind, val = sampling
            if kind == "nklist" and nseg > len(val):
                continue
            kw = {"nk": val} if kind == "nk" else {"nk": list(val)} if kind == "nklist" else {kind: val}
            what = f"labels={lab_kind} {kind}={val}"
            try:
                path = Path.from_nodes(recip_lattice=np.array(recip), nodes=nodes, labels=labels, **kw)
            except Exception as e:
                return fail(f"from_nodes:raises:{type(e).__name__}", case, f"{what}: {type(e).__name__}: {e}", nontrivial)
            K, labs, breaks = ref_path(nodes, labels, sampling, recip)
            nev += 1
            why = same_path(path, K, labs, breaks)
            if why:
                cls = "breaks" if has_break else "plain"
                return fail(f"from_nodes:{why.split(' ')[0].split('[')[0]}:{cls}", case, f"{what}: {why}", nontrivial)
            # statement-level restatement (independent of the reference K): every node in order with its label,
            # uniform sampling between consecutive labelled points that are not separated by a break
            idx = sorted(path.labels)
            exp_labels = labels if labels is not None else [str(i + 1) for i in range(len(real))]
            if [path.labels[i] for i in idx] != list(exp_labels) or \
                    np.abs(np.array(path.K_list)[idx] - np.array([NODE_ALPHABET[s] for s in real])).max() > 1e-12:
                return fail("from_nodes:nodes_not_in_order", case, f"{what}: labelled points {idx}", nontrivial)
            for a, b in zip(idx, idx[1:]):
                if a in path.breaks:
                    if b != a + 1:
                        return fail("from_nodes:points_inside_break", case, f"{what}: {a}->{b}", nontrivial)
                    continue
                seg = np.array(path.K_list)[a:b + 1]
                d2 = seg[2:] - 2 * seg[1:-1] + seg[:-2]
                if len(d2) and np.abs(d2).max() > 1e-12:
                    return fail("from_nodes:segment_not_uniform", case, f"{what}: points {a}..{b}", nontrivial)
            # getKline
            steps = np.linalg.norm(np.diff(K @ np.array(recip), axis=0), axis=1) if len(K) > 1 else np.array([])
            threshes = [np.inf]
            pos = np.unique(np.round(steps[steps > 0], 9))
            if len(pos) >= 2:
                threshes.append(float(0.5 * (pos[-1] + pos[-2])))
            for th in threshes:
                kl = np.array(path.getKline(break_thresh=th)) if th != np.inf else np.array(path.getKline())
                ref = ref_kline(K, breaks, recip, th)
                if kl.shape != ref.shape or np.abs(kl - ref).max() > 1e-10 * max(1.0, ref.max()):
                    return fail("getKline:differs", case, f"{what} break_thresh={th}: {kl.tolist()} expected {ref.tolist()}", nontrivial)
                if np.any(np.diff(kl) < 0):
                    return fail("getKline:decreasing", case, f"{what}: {kl.tolist()}", nontrivial)
                for b in breaks:
                    if kl[b + 1] != kl[b]:
                        return fail("getKline:not_flat_across_break", case, f"{what}: break {b}: {kl.tolist()}", nontrivial)
            # refinement (and refinement of the refinement)
            for factor in (1, 2, 3):
                Kr, lr, br, pos = ref_refined(K, labs, breaks, factor)
                try:
                    pr = path.get_refined(factor=factor)
                except Exception as e:
                    return fail(f"get_refined:raises:{type(e).__name__}", case, f"{what} factor={factor}: {e}", nontrivial)
                nev += 1
                why = same_path(pr, Kr, lr, br)
                if why:
                    return fail(f"get_refined:{why.split(' ')[0].split('[')[0]}", case, f"{what} factor={factor}: {why}", nontrivial)
                if np.abs(np.array(pr.K_list)[pos] - K).max() > 1e-12:
                    return fail("get_refined:original_points_lost", case, f"{what} factor={factor}", nontrivial)
                if differs(pr.recip_lattice, recip, 1e-12):
                    return fail("get_refined:recip_lattice", case, f"{what} factor={factor}: {pr.recip_lattice.tolist()}", nontrivial)
                klr = np.array(pr.getKline())
                refk = ref_kline(Kr, br, recip)
                if np.abs(klr - refk).max() > 1e-10 * max(1.0, refk.max()) or abs(klr[-1] - ref_kline(K, breaks, recip)[-1]) > 1e-9 * max(1.0, refk.max()):
                    return fail("get_refined:getKline", case, f"{what} factor={factor}: {klr.tolist()}", nontrivial)
                if factor == 2:
                    K4, l4, b4, _ = ref_refined(Kr, lr, br, 2)
                    why = same_path(pr.get_refined(factor=2), K4, l4, b4)
                    if why:
                        return fail("get_refined:twice", case, f"{what}: {why}", nontrivial)
            # batches
            for kb in (1, 2, 3, 50):
                from wbmc.engine import quiet
                with quiet():
                    KL = path.get_K_list(k_batch=kb)
                cat = np.vstack([np.array(kp.K).reshape(-1, 3) for kp in KL])
                sizes = [len(np.array(kp.K).reshape(-1, 3)) for kp in KL]
                if cat.shape != K.shape or np.abs(cat - K).max() > 1e-12:
                    return fail("get_K_list:points", case, f"{what} k_batch={kb}: {cat.tolist()}", nontrivial)
                if any(s != kb for s in sizes[:-1]) or not (1 <= sizes[-1] <= kb):
                    return fail("get_K_list:batch_sizes", case, f"{what} k_batch={kb}: sizes {sizes}", nontrivial)
                nev += 1
    return {"ok": True, "nontrivial": nontrivial, "obs": {"evaluations": nev}}


def differs(a, b, tol):
    a, b = np.asarray(a, dtype=float), np.asarray(b, dtype=float)
    return a.shape != b.shape or bool(np.abs(a - b).max() > tol)


# ----------------------------------------------------------------------------------------------
_SYSTEMS = {}
QUANTITIES = ["energy", "band_gradients", "berry_curvature"]


def get_system(name, seed):
    if name not in _SYSTEMS:
        if name == "chiral":
            from wannierberri import models
            from wannierberri.system.system_R import System_R
            _SYSTEMS[name] = System_R.from_pythtb(models.Chiral(), silent=True)
        else:
            from wbmc import zoo
            _SYSTEMS[name] = zoo.make_system(3, "tric", "shell1", "generic", seed=seed, matrices=("Ham", "AA"))
    return _SYSTEMS[name]


def run_tab(case, seed):
    import wannierberri as wb
    from wannierberri.grid import Path
    zoom = case.get("zoom")
    system = get_system(case["system"], seed)
    kb = case["k_batch"]
    if zoom:
        nodes = zoom_nodes(zoom)
        real = nodes
        case = dict(case, nodes=f"zoom {zoom}")          # (for the failure texts)
    else:
        seq = case["nodes"]
        nodes = coords(seq)
        real = [s for s in seq if s is not None]
    labels = [f"L{i}" for i in range(len(real))]
    if case["entry"] == "path":
        nk = ZOOM_NPTS if zoom else case["nk"]
        path = Path.from_nodes(system, nodes=nodes, labels=labels, nk=nk)
        res = wb.evaluate_k_path(system, path=path, quantities=QUANTITIES, parallel=False, k_batch=kb)
        K, labs, breaks = ref_path(nodes, labels, ("nk", nk), system.recip_lattice)
    elif case["entry"] == "refined":
        # a coarse path refined by a high factor (zoom only)
        nk = (ZOOM_NPTS - 1) // ZOOM_REFINE + 1
        path = Path.from_nodes(system, nodes=nodes, labels=labels, nk=nk).get_refined(factor=ZOOM_REFINE)
        res = wb.evaluate_k_path(system, path=path, quantities=QUANTITIES, parallel=False, k_batch=kb)
        K, labs, breaks, _ = ref_refined(*ref_path(nodes, labels, ("nk", nk), system.recip_lattice), ZOOM_REFINE)
    else:
        if zoom:
            # the `length` (2 pi / dk) that gives exactly ZOOM_NPTS points: the ratio segment/dk is an integer, far from a tie
            seg = np.linalg.norm((np.array(nodes[1]) - np.array(nodes[0])) @ np.array(system.recip_lattice))
            length = float(2 * np.pi * (ZOOM_NPTS - 1) / seg)
        else:
            length = case["length"]
        path, res = wb.evaluate_k_path(system, nodes=nodes, labels=labels, length=length,
                                       quantities=QUANTITIES, parallel=False, k_batch=kb)
        K, labs, breaks = ref_path(nodes, labels, ("length", length), system.recip_lattice)
    # (zoom: the spacing is 4e-7 .. 2.5e-6, the points themselves must still be exact)
    why = same_path(path, K, labs, breaks, tol=1e-14 if zoom else 1e-12)
    if why:
        return fail("evaluate_k_path:path", case, why)
    npt = len(K)
    if zoom and npt != ZOOM_NPTS:
        return fail("harness:zoom_number_of_points", case, f"{npt} points")
    wrapped = K - np.round(K)
    revisits = len({tuple(np.round(k, 9)) for k in wrapped}) < npt
    nontrivial = []
    if npt > kb:
        nontrivial.append(("batches", case["system"], kb, min(npt, 12)))
    if breaks:
        nontrivial.append(("break", case["system"], kb))
    if revisits:
        nontrivial.append(("revisit_or_image", case["system"], kb))
    singles = []
    for j in range(npt):
        single = wb.evaluate_k(system, k=tuple(K[j]), quantities=QUANTITIES)
        single["Energy"] = single["energy"]
        singles.append(single)
    if zoom:
        # premise of a zoom case: the tabulated quantity varies along the path -- every two neighbouring points have
        # energies that differ by more than 10 x the comparison tolerance (otherwise the case is run but does not count)
        E = np.array([np.array(sg["energy"]) for sg in singles])
        dmin = float(np.abs(np.diff(E, axis=0)).max(axis=1).min())
        escale = max(1.0, float(np.abs(E).max()))
        nontrivial = [("zoom", case["system"], zoom["centre"], zoom["dir"], zoom["step"], kb, case["entry"])] \
            if dmin > 10 * TAB_TOL * escale else []
    if differs(res.kpoints, K, 1e-14 if zoom else 1e-12):
        return fail("evaluate_k_path:kpoints_not_the_path", case, f"k_batch={kb}: {np.array(res.kpoints).tolist()} expected {K.tolist()}", bool(nontrivial))
    for q in QUANTITIES + ["Energy"]:
        if res.results[q].data.shape[0] != npt:
            return fail(f"evaluate_k_path:{q}:number_of_points", case, f"{res.results[q].data.shape} for {npt} points", bool(nontrivial))
    for j in range(npt):
        for q, v in singles[j].items():
            got = np.array(res.results[q].data[j])
            v = np.array(v)
            scale = max(1.0, np.abs(v).max())
            if got.shape != v.shape or np.abs(got - v).max() > TAB_TOL * scale:
                # is it another point's value?  (ordering defects)
                where = [i for i in range(npt) if i != j and np.abs(np.array(singles[i][q]) - got).max() < TAB_TOL * scale]
                cls = "value_of_another_point" if where else "wrong_value"
                if zoom:
                    cls += ":close_points"        # spacing below the matching tolerance of self_to_path
                return fail(f"evaluate_k_path:{q}:{cls}", case,
                            f"entry={case['entry']} system={case['system']} k_batch={kb}: point {j} k={K[j].tolist()} got {got.tolist()} "
                            f"expected {v.tolist()}" + (f" (equals the value at point(s) {where})" if where else ""), bool(nontrivial))
    obs = {"points": npt}
    if zoom:
        obs["min_neighbour_energy_difference"] = dmin
    # the stored rows in another order (batches accumulated in another order than the path: what a parallel run does):
    # self_to_path must bring every point's own values back to its place.  Orders: the batches shifted cyclically by
    # +1 / -1 (not their own inverse for >= 3 batches), reversed, and the points reversed.
    if not zoom and not revisits and npt >= 3:
        import copy
        nb = -(-npt // kb)
        batches = [list(range(b * kb, min((b + 1) * kb, npt))) for b in range(nb)]
        orders = {"points_reversed": list(range(npt))[::-1], "points_shift": list(range(1, npt)) + [0]}
        if nb >= 2:
            orders["batches_shift+1"] = sum(batches[1:] + batches[:1], [])
            orders["batches_shift-1"] = sum(batches[-1:] + batches[:-1], [])
            orders["batches_reversed"] = sum(batches[::-1], [])
        for oname, perm in orders.items():
            perm = np.array(perm)
            sh = copy.deepcopy(res)
            sh.results = {r: res.results[r].to_path(perm) for r in res.results}
            sh.kpoints = np.array(res.kpoints)[perm]
            try:
                sh.self_to_path(path)
            except Exception as e:
                return fail(f"self_to_path:raises:{type(e).__name__}", case, f"rows stored in the order {oname}: {e}", bool(nontrivial))
            if differs(sh.kpoints, K, 1e-12):
                return fail("self_to_path:kpoints_not_the_path", case, f"rows stored in the order {oname}", bool(nontrivial))
            for q in res.results:
                a, b = np.array(sh.results[q].data), np.array(res.results[q].data)
                if a.shape != b.shape or np.abs(a - b).max() > TAB_TOL * max(1.0, np.abs(b).max()):
                    bad = [j for j in range(npt) if a.shape != b.shape or np.abs(a[j] - b[j]).max() > TAB_TOL * max(1.0, np.abs(b).max())]
                    return fail(f"self_to_path:{q}:value_of_another_point", case,
                                f"rows stored in the order {oname} ({perm.tolist()}): after self_to_path the rows {bad[:8]} do not "
                                f"hold their own point's values", bool(nontrivial))
        obs["stored_orders"] = len(orders)
        nontrivial.append(("stored_order", case["system"], kb, min(npt, 12)))
    return {"ok": True, "nontrivial": nontrivial or False, "obs": obs}


def run_ibands(case, seed):
    """band selection along a path: values of the selected bands, and no influence on later single-point calls"""
    import wannierberri as wb
    import sys
    evk_module = sys.modules["wannierberri.evaluate_k"]   # (the package attribute of that name is the function)
    from wannierberri.calculators import tabulate
    from wannierberri.grid import Path
    system = get_system(case["system"], seed)
    nodes = coords(case["nodes"])
    ib = case["ibands"]

    def fresh():
        return {"energy": tabulate.Energy(print_comment=False),
                "band_gradients": tabulate.Velocity(print_comment=False, kwargs_formula={"external_terms": False}),
                "berry_curvature": tabulate.BerryCurvature(print_comment=False)}
    try:
        path = Path.from_nodes(system, nodes=nodes, nk=3)
        K = np.array(path.K_list)
        ref = [{q: np.array(v.data[0]) for q, v in wb.evaluate_k(system, k=tuple(k), calculators=fresh()).items()} for k in K]
        if case["entry"] == "quantities":
            res = wb.evaluate_k_path(system, path=path, quantities=QUANTITIES, ibands=ib, parallel=False, k_batch=case["k_batch"])
        else:
            res = wb.evaluate_k_path(system, path=path, tabulators=fresh(), ibands=ib, parallel=False, k_batch=case["k_batch"])
        for j in range(len(K)):
            for q in QUANTITIES:
                got = np.array(res.results[q].data[j])
                want = ref[j][q][ib]
                if got.shape != want.shape or np.abs(got - want).max() > 1e-9 * max(1.0, np.abs(want).max()):
                    return fail(f"evaluate_k_path:ibands:{q}:wrong_value", case, f"ibands={ib} point {j}: {got.tolist()} expected {want.tolist()}")
        # the same points evaluated alone afterwards (all bands) must be unaffected by the earlier band selection
        for j in (0, len(K) - 1):
            try:
                single = wb.evaluate_k(system, k=tuple(K[j]), quantities=QUANTITIES)
            except Exception as e:
                return fail("evaluate_k_path:ibands:state_leaks_to_later_calls", case,
                            f"after evaluate_k_path(..., {case['entry']}=..., ibands={ib}) the call evaluate_k(k={K[j].tolist()}, "
                            f"quantities={QUANTITIES}) raises {type(e).__name__}: {e}")
            for q in QUANTITIES:
                if np.abs(np.array(single[q]) - ref[j][q]).max() > 1e-9 * max(1.0, np.abs(ref[j][q]).max()):
                    return fail("evaluate_k_path:ibands:state_leaks_to_later_calls", case,
                                f"after a path evaluation with ibands={ib}, evaluate_k {q} at {K[j].tolist()} = {np.array(single[q]).tolist()} "
                                f"expected {ref[j][q].tolist()}")
        try:
            res2 = wb.evaluate_k_path(system, path=path, quantities=QUANTITIES, parallel=False, k_batch=case["k_batch"])
            bad = any(np.abs(np.array(res2.results[q].data[j]) - ref[j][q]).max() > 1e-9 * max(1.0, np.abs(ref[j][q]).max())
                      for j in range(len(K)) for q in QUANTITIES)
        except Exception as e:
            return fail("evaluate_k_path:ibands:state_leaks_to_later_calls", case,
                        f"after evaluate_k_path(..., ibands={ib}) a second evaluate_k_path without ibands raises {type(e).__name__}: {e}")
        if bad:
            return fail("evaluate_k_path:ibands:state_leaks_to_later_calls", case, f"second path evaluation without ibands differs (ibands={ib})")
    finally:
        # harness hygiene: the workers are reused for other cases
        for q in evk_module.available_quantities.values():
            if hasattr(q, "ibands"):
                q.ibands = None
    return {"ok": True, "nontrivial": ("ibands", case["system"], case["entry"], tuple(ib))}


# ----------------------------------------------------------------------------------------------
def setup(tier, seed):
    from wbmc.engine import quiet
    with quiet():
        for name in ("chiral", "zoo"):
            get_system(name, seed)


def cases(tier, seed):
    quick = tier == "quick"
    for seq in node_lists(4):
        for lat in ("sc", "tric"):
            yield {"kind": "build", "nodes": seq, "lat": lat}
    for seq in node_lists(3 if quick else 4):
        for system in ("chiral", "zoo"):
            for kb in (1, 2, 3, 50):
                yield {"kind": "tab", "nodes": seq, "system": system, "k_batch": kb, "entry": "path", "nk": 3}
            for kb in ((2,) if quick else (1, 2, 50)):
                yield {"kind": "tab", "nodes": seq, "system": system, "k_batch": kb, "entry": "nodes", "length": 2.3}
    # zoom paths: spacing below the 1e-5 with which self_to_path matches evaluated points to path points
    for system in ("chiral", "zoo"):
        for centre in ZOOM_CENTRES:
            for d in ZOOM_DIRS:
                for step in ZOOM_STEPS:
                    zoom = {"centre": centre, "dir": d, "step": step}
                    for kb in (1, 2, 50):
                        yield {"kind": "tab", "zoom": zoom, "system": system, "k_batch": kb, "entry": "path"}
                    for entry in ("nodes", "refined"):
                        for kb in ((2,) if quick else (1, 2, 50)):
                            yield {"kind": "tab", "zoom": zoom, "system": system, "k_batch": kb, "entry": entry}
    # band selection (ibands) and its (non-)influence on later calls
    for system, ibs in (("chiral", ([0], [1], [0, 1])), ("zoo", ([1], [0, 2], [2, 1]))):
        for ib in ibs:
            for entry in ("quantities", "tabulators"):
                for kb in (2, 50):
                    yield {"kind": "ibands", "nodes": ["G", "X", None, "M", "gen"], "system": system, "ibands": ib,
                           "entry": entry, "k_batch": kb}


def run_case(case, seed):
    if case["kind"] == "build":
        return run_build(case)
    if case["kind"] == "ibands":
        return run_ibands(case, seed)
    return run_tab(case, seed)


def finish(tier, cases, results):
    kinds = {}
    for c in cases:
        kinds[c["kind"]] = kinds.get(c["kind"], 0) + 1
    inner = sum(r.get("obs", {}).get("evaluations", 0) for r in results if r.get("obs"))
    kinds["tab_zoom"] = sum(1 for c in cases if c.get("zoom"))
    dmins = [r["obs"]["min_neighbour_energy_difference"] for r in results if isinstance(r.get("obs"), dict) and "min_neighbour_energy_difference" in r["obs"]]
    return {"cases_per_kind": kinds, "zoom": {"centres": {k: list(v) for k, v in ZOOM_CENTRES.items()}, "directions": {k: list(v) for k, v in ZOOM_DIRS.items()},
                                               "spacings": list(ZOOM_STEPS), "points": ZOOM_NPTS,
                                               "smallest_neighbour_energy_difference": min(dmins) if dmins else None,
                                               "zoom_cases_below_premise": sum(1 for c, r in zip(cases, results) if c.get("zoom") and r.get("ok") and not r.get("nontrivial"))}, "paths_built_and_compared": inner, "node_alphabet": list(NODE_ALPHABET) + ["None"],
            "samplings": [list(map(str, s)) for s in SAMPLINGS]}
