"""C28 -- Fermi-sea and Fermi-surface formulations of the same tensor agree (index order, sign, factor).

Every documented (sea, surface) calculator pair

    Ohmic_FermiSea / Ohmic_FermiSurf                      NLDrude_FermiSea / NLDrude_FermiSurf / NLDrude_Fermider2
    BerryDipole_FermiSea / BerryDipole_FermiSurf          Hall_classic_FermiSea / Hall_classic_FermiSurf
    GME_orb_FermiSea / GME_orb_FermiSurf                  GME_spin_FermiSea / GME_spin_FermiSurf

is run through run() with a Fermi-Dirac smoother on a coarse and a dense k-grid for every model of a fixed list
(generic triclinic 3D zoo systems with 2 and 3 bands, generic 2D zoo systems, Chiral, Haldane, Kane-Mele in an exchange
field, CuMnAs with the Neel vector along (1,1,1); thorough: a one-band k.p model) and
every temperature of the alphabet; all tensor components on the whole Fermi-level window inside the bands are compared.
Axis `use_factor` in {True (default), False}: with use_factor=False ("keep only the sign of the prefactor") given to BOTH
members of a pair the two forms must agree exactly as they do with the SI prefactor (same oracle, same grids); False is
run for every pair on one model (quick: zoo2d_2 at 2400 K, plus the composite GME_orb pair on zoo3d_2), see plan().

Oracle (differential, two-grid):  with  scale = max(|sea|,|surf|) over window and components at the dense grid
   (1) max|sea - surf| <= 0.05 scale at the dense grid;
   (2) the disagreement does not grow from the coarse to the dense grid (or is already < 0.02 scale);
   (3) every component carrying >= 20 % of the scale has correlation(sea, surf) over the window >= 0.99.
A sign flip gives a disagreement of 2 scale, a transposed rank-2 tensor ~1 scale on the generic models, a factor 2
0.5-1 scale.  The failure key says which of these relations the two results do satisfy instead.
"""
import numpy as np

ID = "C28"
LEVEL = "exploration"
RULE = ("cases = (model, calculator pair, temperature, use_factor); each case runs the sea and the surface calculator(s) through "
        "run() on a coarse and a dense grid and compares every tensor component at every Fermi level of the window "
        "[Emin+5%, Emax-5%] of the band range; non-trivial = the tensor is non-zero with at least one component above "
        "20 % of the scale (counted per (pair, model, use_factor)); use_factor=False is passed to both calculators of the "
        "pair and judged with the unchanged oracle; the obs records whether an off-diagonal / antisymmetric part is "
        "present, i.e. whether a transposition would be visible")
ASSUMPTIONS = [
    "'sufficiently dense grid' is replaced by one fixed (coarse, dense) pair per (dimension, pair class, T), listed in GRIDS / CHIRAL_GRIDS; "
    "agreement is demanded to 5 % of the tensor's largest component, not better",
    "temperatures: the k-discretisation error decays like exp(-c NK kT / bandwidth); to fit the time budget the 3D "
    "models use kT = 0.4 eV (4640 K) and 0.25 eV (2900 K) instead of the design's 600/1200 K (which need NK >= 48-96 in "
    "3D, > 10 CPU-min per model); 2D models use 1200 K and 2400 K (thorough: 600 K). The identity tested is "
    "temperature-independent (both results are the same T=0 function of Ef convolved with the same kernel)",
    "GME_orb is compared with internal terms only: Morb_Hpm(+) is additive over bands only for internal terms or "
    "physically consistent AA/BB/CC; with the zoo's independent random BB, CC the per-band (surface) and cumulative "
    "(sea) traces differ by construction (verified: DerMorb is the exact k-derivative of Morb_Hpm traces either way)",
    "BerryDipole and GME_spin are compared with external terms (random Hermitian AA resp. SS) on zoo systems",
    "models are smooth: neighbouring bands are degenerate everywhere or separated by a direct gap >= 0.4 everywhere "
    "(checked in every case; zoo systems are a fixed generic model + a 5 % seed-driven perturbation so that the premise "
    "and the discretisation error do not depend on the seed; Kane-Mele is used with an exchange field, CuMnAs with the "
    "Neel vector along (1,1,1), because the default models have Kramers cones / Dirac points)",
    "NLDrude_Fermider2 (f'' form) needs about twice the linear grid density of the other forms; it is run in the "
    "thorough tier only (2D zoo models at 2400 K on (72,108), 3D models at 4640 K), not at 1200 K / 600 K",
    "k.p: one 1-band model (anisotropic mass + tilt + cubic warping, analytic derivatives) in thorough only (no FFT: "
    "30 ms per k-point); Fermi levels are limited to those whose occupied region (+8.5 kT) stays inside the k-box, "
    "otherwise the two forms differ by boundary terms; multi-band k.p models are not covered",
    "use_factor: the non-default value False is run for every pair, but only on the cheapest model of each pair class "
    "(quick: zoo2d_2 at 2400 K for all six pairs + GME_orb on zoo3d_2; thorough adds zoo2d_3, KaneMele_odd_Z, all pairs "
    "on zoo3d_2 and Chiral GME_orb/BerryDipole), not on the full model x temperature list: "
    "the prefactor handling does not depend on the model. The f'' form NLDrude_Fermider2 is excluded from use_factor=False: "
    "its default constant_factor factor_nldrude/2 contains the 1/2 of the identity, and use_factor=False keeps only the sign "
    "of constant_factor, so the raw f'' integral is by construction twice the raw sea integral (observed, not judged). Other constructor options of the calculators (constant_factor "
    "given by the user, hole_like, tetra, k_resolved, select_bands) are not varied",
    "Fermi-level step kT/10 (kT/5 leaves a 1-2 % binning error in the third-order tensors), smoother cut-off maxdE=8 kT, window padded by 8.5 kT on both sides",
]

TOL = 0.05
TOL_CONV = 0.02
SIGNIF = 0.2
CORR_MIN = 0.99
GAP_MIN = 0.4

PAIRS = {
    "Ohmic": ("Ohmic_FermiSea", ["Ohmic_FermiSurf"]),
    "BerryDipole": ("BerryDipole_FermiSea", ["BerryDipole_FermiSurf"]),
    "GME_orb": ("GME_orb_FermiSea", ["GME_orb_FermiSurf"]),
    "GME_spin": ("GME_spin_FermiSea", ["GME_spin_FermiSurf"]),
    "NLDrude": ("NLDrude_FermiSea", ["NLDrude_FermiSurf"]),
    "NLDrude2": ("NLDrude_FermiSea", ["NLDrude_Fermider2"]),
    "Hall_classic": ("Hall_classic_FermiSea", ["Hall_classic_FermiSurf"]),
}
INTERNAL_ONLY = {"GME_orb"}

# model -> (builder spec, dimensionality)
MODELS = {
    "zoo3d_2": dict(kind="zoo", nw=2, lat="tric", rs="shell1", cen="generic", spread=2.0, dim=3),
    "zoo3d_3": dict(kind="zoo", nw=3, lat="tric", rs="shell1", cen="generic", spread=3.0, dim=3),
    "zoo2d_2": dict(kind="zoo", nw=2, lat="mono", rs="planar", cen="generic", spread=2.0, dim=2),
    "zoo2d_3": dict(kind="zoo", nw=3, lat="hex", rs="planar", cen="thirds", spread=2.5, dim=2),
    # one-band k.p model in the box |k_i| <= 1: anisotropic mass tensor + tilt + cubic warping, analytic derivatives
    "kp_aniso": dict(kind="kp", dim=3),
    "Chiral": dict(kind="bundled", name="Chiral", dim=3),
    "Haldane_tbm": dict(kind="bundled", name="Haldane_tbm", dim=2),
    # Kane-Mele has Kramers cones at the TRIM (not smooth); an exchange field B.sigma (|B|=1 along (1,1,1)) added to the
    # on-site block through get_R_mat/set_R_mat separates all four bands by >= 0.5
    "KaneMele_odd_Z": dict(kind="bundled", name="KaneMele_odd", dim=2, zeeman=(1.0, (1, 1, 1))),
    "KaneMele_even_Z": dict(kind="bundled", name="KaneMele_even", dim=2, zeeman=(1.0, (1, 1, 1))),
    # Neel vector along (1,1,1): PT doublets everywhere, separated by 0.72 (the default (0,1,0) has Dirac points)
    "CuMnAs_2d_111": dict(kind="bundled", name="CuMnAs_2d", dim=2, par=dict(nx=1, ny=1, nz=1)),
}


EASY = ("Ohmic", "BerryDipole", "GME_orb", "GME_spin", "Hall_classic")
ALLP = EASY + ("NLDrude", "NLDrude2")
# (dimension, T) -> {pair class: (NK coarse, NK dense)}; "-" = not run at this temperature
GRIDS = {
    (3, 4640): {"easy": (8, 12), "NLDrude": (12, 16), "NLDrude2": (16, 24)},
    (3, 2900): {"easy": (12, 16), "NLDrude": (16, 24), "NLDrude2": (24, 32)},
    (2, 2400): {"easy": (24, 36), "NLDrude": (36, 54), "NLDrude2": (72, 108)},   # (48,72) leaves 0.02-0.036 (seed-dependent)
    (2, 1200): {"easy": (48, 72), "NLDrude": (48, 72)},
    (2, 600): {"easy": (96, 144), "NLDrude": (96, 144)},
}
CHIRAL_GRIDS = {4640: {"easy": (12, 16), "NLDrude": (12, 16), "NLDrude2": (20, 28)},
                2900: {"easy": (16, 24), "NLDrude": (16, 24)}}
BUNDLED_2D = (("Haldane_tbm", ("Ohmic", "NLDrude", "Hall_classic")),
              ("KaneMele_odd_Z", ("Ohmic", "GME_spin", "Hall_classic", "NLDrude", "GME_orb", "BerryDipole")),
              ("KaneMele_even_Z", ("GME_spin", "BerryDipole")),
              ("CuMnAs_2d_111", ("Ohmic", "NLDrude", "Hall_classic")))


def plan(tier):
    """[(model, pair, T_Kelvin, NK_coarse, NK_dense, use_factor)] -- the complete finite list"""
    quick = tier == "quick"
    out = []

    def add(model, pair, T, table, use_factor=True):
        cls = pair if pair in ("NLDrude", "NLDrude2") else "easy"
        out.append((model, pair, T) + table[cls] + (use_factor,))

    # ---- 3D
    for p in ALLP:
        if quick and p == "NLDrude2":
            continue                      # 2 x 24^3 k-points for the f'' form: thorough only
        add("zoo3d_2", p, 4640, GRIDS[(3, 4640)])
    for p in (("BerryDipole", "GME_orb", "GME_spin") if quick else ALLP):
        if p == "NLDrude":
            out.append(("zoo3d_3", p, 4640, 16, 24, True))     # 0.028 of the scale left at 16^3 with three bands
        else:
            add("zoo3d_3", p, 4640, GRIDS[(3, 4640)])
    for p in ("Ohmic", "Hall_classic", "NLDrude"):
        add("Chiral", p, 4640, CHIRAL_GRIDS[4640])
    if not quick:
        for m in ("zoo3d_2", "zoo3d_3"):
            for p in ALLP:
                if p != "NLDrude2":
                    add(m, p, 2900, GRIDS[(3, 2900)])
        for p in ("BerryDipole", "GME_orb"):
            out.append(("Chiral", p, 4640, 16, 24, True))
        add("Chiral", "NLDrude2", 4640, CHIRAL_GRIDS[4640])
        for p in ("Ohmic", "Hall_classic"):      # NLDrude is not converged at 24^3 (0.10 of the scale, falling)
            out.append(("kp_aniso", p, 1200, 16, 24, True))
        for p in ("Ohmic", "Hall_classic", "GME_orb", "BerryDipole", "NLDrude"):
            add("Chiral", p, 2900, CHIRAL_GRIDS[2900])
    # ---- 2D
    for T in ((2400, 1200) if quick else (2400, 1200, 600)):
        second = quick and T != 2400       # quick: the second temperature only on a sub-list (time budget)
        for m in ("zoo2d_2", "zoo2d_3"):
            if second and m != "zoo2d_2":
                continue
            for p in ALLP:
                if p == "NLDrude2" and T != 2400:
                    continue        # the f'' form converges too slowly at low T (0.04 of the scale left at 144^2, 1200 K)
                if p == "NLDrude2" and quick:
                    continue        # 70 CPU-s per case at (72, 108): thorough only
                add(m, p, T, GRIDS[(2, T)])
        for m, ps in BUNDLED_2D:
            if second and m != "KaneMele_odd_Z":
                continue
            for p in ps:
                if second and p not in ("GME_spin", "GME_orb", "BerryDipole"):
                    continue
                add(m, p, T, GRIDS[(2, T)])
    # ---- use_factor=False (both calculators of the pair), same grids as the default-factor case of the same
    #      (model, pair, T): on a correct tree the two results are the default ones divided by |constant_factor|, so the
    #      relative disagreement is the same number and needs no calibration of its own.  Cheapest model per pair:
    #      zoo2d_2 at 2400 K (2.5-11 CPU-s per case, 32 CPU-s together); the composite pair GME_orb (the only one that
    #      forwards its options to an inner BerryDipole calculator) also in 3D, where all nine components are present
    #      NLDrude2 is not part of this axis: NLDrude_Fermider2 carries the 1/2 of the identity
    #      int vvv f'' = 2 int d3E f  inside its default constant_factor (factor_nldrude / 2), which use_factor=False
    #      reduces to its sign by definition -> the f'' form is then exactly twice the sea form (observed: sea = 0.4997 * f''
    #      form on zoo2d_2, (36,54), 2400 K).  The same happens with use_factor=True when the user gives one constant_factor to
    #      both, so the 1/2 is the prefactor's business, not a promise about the raw integrals; demanding agreement
    #      would be more than the statement says.
    for p in EASY + ("NLDrude",):
        add("zoo2d_2", p, 2400, GRIDS[(2, 2400)], use_factor=False)
    add("zoo3d_2", "GME_orb", 4640, GRIDS[(3, 4640)], use_factor=False)
    if not quick:
        for p in EASY + ("NLDrude",):
            add("zoo2d_3", p, 2400, GRIDS[(2, 2400)], use_factor=False)
            if p != "GME_orb":
                add("zoo3d_2", p, 4640, GRIDS[(3, 4640)], use_factor=False)
        for p in ("GME_spin", "GME_orb", "BerryDipole"):
            add("KaneMele_odd_Z", p, 2400, GRIDS[(2, 2400)], use_factor=False)
        for p in ("BerryDipole", "GME_orb"):
            out.append(("Chiral", p, 4640, 16, 24, False))
    assert len(set(out)) == len(out)
    return out


def setup(tier, seed):
    """parent process, before the fork: pay the one-time costs (ray import in the first run(), first use of every
    calculator / formula class) once instead of once per worker"""
    import wannierberri as wb
    from wannierberri.calculators import static
    from wannierberri.smoother import FermiDiracSmoother
    from wbmc import berry_harness as bh
    s = build_model("zoo2d_2", seed)
    Ef = np.linspace(-1.0, 1.0, 21)
    sm = FermiDiracSmoother(Ef, T_Kelvin=2400, maxdE=8)
    names = sorted({n for sea, surfs in PAIRS.values() for n in [sea] + surfs})
    calcs = {}
    for n in names:
        kw = dict(Efermi=Ef, smoother=sm)
        if n.startswith("GME_orb"):
            kw["kwargs_formula"] = {"external_terms": False}
        calcs[n] = getattr(static, n)(**kw)
    with bh.case_tmpdir() as tmp:
        res = bh.tmp_run(s, wb.Grid(s, NK=[4, 4, 1]), calcs, tmp)
        for n in names:
            res.results[n].dataSmooth


def cases(tier, seed):
    pl = plan(tier)

    def cost(x):                      # ~ number of k-points x bands
        spec = MODELS[x[0]]
        return (x[3] ** spec["dim"] + x[4] ** spec["dim"]) * spec.get("nw", 2) * (8 if spec["kind"] == "kp" else 1)

    # cheapest first, except that the few long cases (> 1/3 of the longest) are started first so that they do not
    # form the tail of the run
    pl.sort(key=cost)
    cut = cost(pl[-1]) / 3
    pl = [x for x in pl if cost(x) > cut][::-1] + [x for x in pl if cost(x) <= cut]
    for m, p, T, nc, nd, uf in pl:
        c = {"model": m, "pair": p, "T": T, "NK": [nc, nd]}
        if not uf:
            c["use_factor"] = False       # (the key is absent for the default: case ids of the older cases are unchanged)
        yield c


KP_C = np.array([[3.0, 0.4, -0.3], [0.4, 4.0, 0.5], [-0.3, 0.5, 5.0]])      # inverse-mass tensor (positive definite)
KP_W = np.array([0.4, -0.3, 0.2])                                            # tilt
KP_G = 0.3                                                                    # cubic warping  g*(kx^3 + kx ky^2/2 - ky kz^2)


def kp_energy(k):
    k = np.asarray(k, dtype=float)
    x, y, z = k[..., 0], k[..., 1], k[..., 2]
    return np.einsum("...a,ab,...b->...", k, KP_C, k) + k @ KP_W + KP_G * (x ** 3 + 0.5 * x * y ** 2 - y * z ** 2)


def build_kp():
    import wannierberri as wb

    def ham(k):
        return np.array([[kp_energy(k)]], dtype=complex)

    def dham(k):
        x, y, z = k
        g = 2 * KP_C @ np.asarray(k) + KP_W + KP_G * np.array([3 * x * x + 0.5 * y * y, x * y - z * z, -2 * y * z])
        return g.reshape(1, 1, 3).astype(complex)

    def d2ham(k):
        x, y, z = k
        h = 2 * KP_C + KP_G * np.array([[6 * x, y, 0], [y, x, -2 * z], [0, -2 * z, -2 * y]])
        return h.reshape(1, 1, 3, 3).astype(complex)

    def d3ham(k):
        t = np.zeros((3, 3, 3))
        t[0, 0, 0] = 6
        for i, j, l in ((0, 1, 1), (1, 0, 1), (1, 1, 0)):
            t[i, j, l] = 1
        for i, j, l in ((1, 2, 2), (2, 1, 2), (2, 2, 1)):
            t[i, j, l] = -2
        return (KP_G * t).reshape(1, 1, 3, 3, 3).astype(complex)

    return wb.system.SystemKP(Ham=ham, derHam=dham, der2Ham=d2ham, der3Ham=d3ham, kmax=1.0)


def build_model(name, seed):
    from wbmc import zoo, models2d
    spec = MODELS[name]
    if spec["kind"] == "kp":
        return build_kp()
    if spec["kind"] == "zoo":
        # a fixed generic model (zoo entries drawn with the constant seed 0, so that gaps, band widths and hence the
        # discretisation error do not depend on VERIF_SEED) + a 5 % generic perturbation of every matrix driven by seed
        periodic = (True, True, spec["dim"] == 3)
        s = zoo.make_system(spec["nw"], spec["lat"], spec["rs"], spec["cen"], seed=0, matrices=("Ham", "AA", "SS"),
                            periodic=periodic, tag="c28", onsite_spread=spec["spread"])
        rng = zoo.rng_for(seed, "c28-perturbation", name)
        L = np.array(s.real_lattice)
        for key in ("Ham", "AA", "SS"):
            X = np.array(s.get_R_mat(key))
            P = zoo.random_R_matrix(rng, s.rvec.iRvec, spec["nw"], zoo.NCART[key], L)
            P = 0.5 * (P + s.rvec.conj_XX_R(P))
            if key == "AA":
                P[s.rvec.iR0, np.arange(spec["nw"]), np.arange(spec["nw"])] = 0
            s.set_R_mat(key, X + 0.05 * P, reset=True)
        return s
    s = models2d.bundled(spec["name"], **spec.get("par", {}))
    if "zeeman" in spec:
        b, d = spec["zeeman"]
        d = np.array(d, dtype=float) / np.linalg.norm(d)
        H = np.array(s.get_R_mat("Ham"))
        S = np.array(s.get_R_mat("SS"))
        H[s.rvec.iR0] += b * np.einsum("ija,a->ij", S[s.rvec.iR0], d)
        s.set_R_mat("Ham", H, reset=True)
    return s


def corr(a, b):
    na, nb = np.linalg.norm(a), np.linalg.norm(b)
    if na == 0 or nb == 0:
        return 0.0
    return float(np.dot(a, b) / na / nb)


def run_case(case, seed):
    import wannierberri as wb
    from wannierberri.calculators import static
    from wannierberri.smoother import FermiDiracSmoother
    from wbmc import berry_harness as bh
    mname, pair, T = case["model"], case["pair"], case["T"]
    spec = MODELS[mname]
    s = build_model(mname, seed)
    sea_name, surf_names = PAIRS[pair]
    # ---- band range and smoothness premise from the harness H(k)
    kT = bh.KB_EV * T
    if spec["kind"] == "kp":
        # the occupied region must stay inside the box: the window ends 8.5 kT (the smoother's reach) + 0.1 below the
        # lowest energy found on the box surface; Emax below is that upper end, not the top of the (unbounded) band
        ax = np.linspace(-1, 1, 41)
        kp = np.stack(np.meshgrid(ax, ax, ax, indexing="ij"), -1).reshape(-1, 3)
        Eall = kp_energy(kp)
        surface = np.abs(kp).max(axis=1) > 1 - 1e-9
        E = Eall[:, None]
        Emin = float(Eall.min())
        Emax = float(Eall[surface].min()) - 8.5 * kT - 0.1
        if Emax - Emin < 0.3:
            return {"ok": False, "key": "harness:kp_window_empty", "detail": f"T={T}: [{Emin},{Emax}]"}
        Emin, Emax = Emin - 0.05 * (Emax - Emin) / 0.9, Emax + 0.05 * (Emax - Emin) / 0.9   # undo the 5 % trimming below
    else:
        iR, HR = bh.ham_R(s)
        n = 12 if spec["dim"] == 3 else 48
        ax = np.arange(n) / n
        if spec["dim"] == 3:
            kp = np.stack(np.meshgrid(ax, ax, ax, indexing="ij"), -1).reshape(-1, 3)
        else:
            kp = np.stack(np.meshgrid(ax, ax, [0.0], indexing="ij"), -1).reshape(-1, 3)
        E = np.linalg.eigvalsh(bh.ham_k_many(iR, HR, kp))
        Emin, Emax = float(E.min()), float(E.max())
    dgap = np.diff(E, axis=1)
    # smoothness premise: neighbouring bands are either degenerate everywhere (PT doublets) or separated everywhere
    degenerate_pairs = False
    for j in range(dgap.shape[1]):
        if dgap[:, j].max() < 1e-8:
            degenerate_pairs = True
        elif dgap[:, j].min() < GAP_MIN:
            return {"ok": True, "nontrivial": False,
                    "obs": {"skipped": f"premise: bands {j},{j + 1} approach to {dgap[:, j].min():.3f} < {GAP_MIN}"}}
    dE = kT / 10
    maxdE = 8
    W = Emax - Emin
    lo, hi = Emin + 0.05 * W, Emax - 0.05 * W
    pad = (maxdE + 0.5) * kT
    Ef = lo - pad + dE * np.arange(int(np.ceil((hi - lo + 2 * pad) / dE)) + 1)
    sel = (Ef >= lo) & (Ef <= hi)
    smoother = FermiDiracSmoother(Ef, T_Kelvin=T, maxdE=maxdE)
    kw = dict(Efermi=Ef, smoother=smoother)
    if pair in INTERNAL_ONLY and not s.force_internal_terms_only:
        kw["kwargs_formula"] = {"external_terms": False}
    use_factor = bool(case.get("use_factor", True))
    if not use_factor:
        kw["use_factor"] = False        # BOTH members of the pair: "keep only the sign of the prefactor"
    names = [sea_name] + surf_names
    data = {}
    with bh.case_tmpdir() as tmp:
        for NK in case["NK"]:
            calcs = {nm: getattr(static, nm)(**kw) for nm in names}
            grid = wb.Grid(s, NK=[NK if p else 1 for p in s.periodic])
            res = bh.tmp_run(s, grid, calcs, tmp)
            for nm in names:
                r = res.results[nm]
                if not np.allclose(r.Energies[0], Ef):
                    return {"ok": False, "key": f"{nm}:efermi_axis", "detail": "result Efermi axis differs from the input"}
                data[(nm, NK)] = np.array(r.dataSmooth)[sel]
    NKc, NKd = case["NK"]
    sea_c, sea_d = data[(sea_name, NKc)], data[(sea_name, NKd)]
    where = f"model={mname} T={T}K{'' if use_factor else ' use_factor=False (both calculators)'} NK={NKc}->{NKd} window=[{lo:.3f},{hi:.3f}] ({int(sel.sum())} Fermi levels)"
    obs = {"n_ef": int(sel.sum()), "use_factor": use_factor}
    nt = False
    nt_key = (pair, mname) if use_factor else (pair, mname, "use_factor=False")
    uf_tag = "" if use_factor else ":use_factor_False"      # a defect of the non-default option only is a different defect
    for sname in surf_names:
        su_c, su_d = data[(sname, NKc)], data[(sname, NKd)]
        if su_d.shape != sea_d.shape:
            return {"ok": False, "key": f"{pair}:shape", "detail": f"{where}: {sea_name}{sea_d.shape[1:]} vs {sname}{su_d.shape[1:]}"}
        if not (np.all(np.isfinite(sea_d)) and np.all(np.isfinite(su_d))):
            return {"ok": False, "key": f"{pair}:not_finite", "detail": where}
        scale = max(bh.sup(sea_d), bh.sup(su_d))
        if scale == 0:
            return {"ok": False, "key": f"harness:{pair}:vanishing_tensor", "detail": where}
        d_c = bh.sup(sea_c - su_c) / scale
        d_d = bh.sup(sea_d - su_d) / scale
        disc = (bh.sup(sea_d - sea_c) + bh.sup(su_d - su_c)) / scale         # two-grid estimate of the discretisation error
        A = sea_d.reshape(len(sea_d), -1)
        B = su_d.reshape(len(su_d), -1)
        comp_scale = np.maximum(np.abs(A).max(axis=0), np.abs(B).max(axis=0))
        big = [i for i in range(A.shape[1]) if comp_scale[i] >= SIGNIF * scale]
        corrs = {i: corr(A[:, i], B[:, i]) for i in big}
        mincorr = min(corrs.values())
        rank2 = sea_d.ndim == 3
        asym = bh.sup(sea_d - sea_d.swapaxes(1, 2)) / scale if rank2 else None
        obs[sname] = {"scale": scale, "diff_coarse": round(d_c, 5), "diff_dense": round(d_d, 5), "two_grid_change": round(disc, 5),
                      "n_components": int(A.shape[1]), "n_significant": len(big), "min_corr": round(mincorr, 5),
                      "asymmetric_part": None if asym is None else round(asym, 4), "doublets": degenerate_pairs}
        bad = None
        if d_d > TOL:
            bad = f"max|sea-surf| = {d_d:.3f} of the scale at the dense grid (coarse {d_c:.3f})"
        elif d_d > max(d_c, TOL_CONV):
            bad = f"disagreement grows with the grid: {d_c:.4f} -> {d_d:.4f} of the scale"
        elif mincorr < CORR_MIN:
            i = min(corrs, key=corrs.get)
            comp = np.unravel_index(i, sea_d.shape[1:])
            bad = f"component {tuple(int(x) for x in comp)} has correlation {mincorr:.4f} between sea and surface"
        if bad:
            # which relation do the two results satisfy instead?
            rel = "mismatch"
            if bh.sup(sea_d + su_d) / scale <= TOL:
                rel = "opposite_sign"
            elif rank2 and bh.sup(sea_d - su_d.swapaxes(1, 2)) / scale <= TOL:
                rel = "transposed"
            elif rank2 and bh.sup(sea_d + su_d.swapaxes(1, 2)) / scale <= TOL:
                rel = "transposed_opposite_sign"
            elif bh.sup(sea_d) <= TOL * scale:
                rel = "sea_vanishes"
            elif bh.sup(su_d) <= TOL * scale:
                rel = "surface_vanishes"
            else:
                # common factor ?
                f = float(np.vdot(B.ravel(), A.ravel()).real / max(np.vdot(B.ravel(), B.ravel()).real, 1e-300))
                if abs(f - 1) > 0.1 and bh.sup(sea_d - f * su_d) / scale <= TOL:
                    rel = "factor"
                    bad += f"; sea = {f:.4f} * surf fits"
            imax = np.unravel_index(int(np.argmax(np.abs(sea_d - su_d))), sea_d.shape)
            return {"ok": False, "key": f"{pair}:{sea_name}_vs_{sname}:{rel}{uf_tag}", "nontrivial": nt_key,
                    "detail": f"{where}: {bad}; scale={scale:.4e}; worst at Ef={Ef[sel][imax[0]]:.4f} component {tuple(int(x) for x in imax[1:])}: "
                              f"sea={sea_d[imax]:.6e} surf={su_d[imax]:.6e}; two-grid change {disc:.4f}"}
        nt = nt_key
    return {"ok": True, "nontrivial": nt, "obs": obs}


def finish(tier, cases, results):
    worst = {}
    for c, r in zip(cases, results):
        o = r.get("obs") or {}
        for k, v in o.items():
            if isinstance(v, dict) and "diff_dense" in v:
                w = worst.setdefault(c["pair"], {"max_diff_dense": 0.0, "min_corr": 1.0, "cases": 0, "with_asymmetric_part": 0})
                w["max_diff_dense"] = max(w["max_diff_dense"], v["diff_dense"])
                w["min_corr"] = min(w["min_corr"], v["min_corr"])
                w["cases"] += 1
                if v.get("asymmetric_part") and v["asymmetric_part"] > 0.2:
                    w["with_asymmetric_part"] += 1
    return {"axes": {"models": sorted({c["model"] for c in cases}), "pairs": sorted({c["pair"] for c in cases}),
                     "temperatures_K": sorted({c["T"] for c in cases}),
                     "use_factor": sorted({bool(c.get("use_factor", True)) for c in cases}),
                     "use_factor_False_cases": sorted((c["pair"], c["model"], c["T"]) for c in cases if not c.get("use_factor", True)),
                     "grids": sorted({(c["model"], c["T"], tuple(c["NK"])) for c in cases})},
            "margins_per_pair": worst, "tolerance": TOL,
            "skipped_premise": sum(1 for r in results if isinstance(r.get("obs"), dict) and "skipped" in r["obs"])}
