"""C12 — parallel evaluation gives the same results as serial evaluation, for every completion order.

Model checking of the completion-driven collection loop of run()/process() on the real code:
the `ray` module is replaced by wbmc.seams.fakeray (contract R1-R3, validated against real Ray by
tools/ray_conformance.py) and *every* admissible answer of every `ray.wait` call is explored by the
stateless DFS of wbmc.sched (deviation-bounded in the quick tier, all answers in the thorough tier).
Oracle: the returned results equal the serial run's; every task result is fetched exactly once.
"""
import os

import numpy as np

from wbmc import sched, zoo
from wbmc.runharness import ScriptedCalc, fake_ray, tmpdir, result_arrays, max_rel_diff
from wbmc.seams.fakeray import FakeRay

ID = "C12"
LEVEL = "model_checking"
RULE = ("a case = (configuration, first ray.wait answer); configuration = grid or path (2..5 remote tasks) x reported CPUs "
        "(sets the num_returns ladder) x refinement iterations {0,1} x calculator set; under each case the DFS enumerates "
        "every sequence of ray.wait answers allowed by the contract R1-R3 (quick: total deviation <= BOUND from the "
        "in-order schedule, thorough: all answers, <= MAX_TIMEOUTS timeouts); each schedule is one complete run() on the "
        "real code; non-trivial = schedule in which some task completed out of submission order or a wait timed out "
        "(distinct wait-answer logs are counted)")
ASSUMPTIONS = ["Ray is represented by its wait/get/put/remote contract R1-R3 (tools/ray_conformance.py re-validates it against the installed Ray in the thorough tier)",
               "<= 5 first-iteration tasks, <= 2 tasks in the refinement iteration, <= 2 timeouts per run",
               "worker-side environment (get_ray_runtime_env, real serialization of numpy read-only views) is outside the model"]

MAX_TIMEOUTS = {"quick": 1, "thorough": 2}
BOUND = {"quick": 2, "thorough": None}


def configs(tier):
    out = []
    grids = [(2, 1, 1), (3, 1, 1), (4, 1, 1)] + ([(5, 1, 1)] if tier == "thorough" else [])
    for g in grids:
        for ncpu in (1, 2, 3):
            if ncpu > g[0]:
                continue
            for niter in (0, 1):
                if niter == 1 and g[0] == 5:
                    continue
                out.append({"kind": "grid", "div": list(g), "ncpu": ncpu, "niter": niter, "calc": "scripted"})
    # tabulation on a grid
    for g in [(2, 2, 1), (3, 1, 1)]:
        for ncpu in (1, 2):
            out.append({"kind": "grid", "div": list(g), "ncpu": ncpu, "niter": 0, "calc": "tab"})
    # tabulation along a path, in batches
    for npts, kb in ((4, 1), (4, 2), (3, 1), (5, 2)):
        for ncpu in (1, 2):
            out.append({"kind": "path", "npts": npts, "k_batch": kb, "ncpu": ncpu, "niter": 0, "calc": "tabpath"})
    # a 'zoom' path whose points are closer than any matching tolerance (step 4e-7 in reduced coordinates)
    out.append({"kind": "path", "npts": 6, "k_batch": 2, "ncpu": 1, "niter": 0, "calc": "tabpath", "step": 4e-7})
    out.append({"kind": "path", "npts": 4, "k_batch": 1, "ncpu": 2, "niter": 0, "calc": "tabpath", "step": 4e-7})
    return out


_SYS = {}


def get_system(kind, seed):
    key = (kind, seed)
    if key not in _SYS:
        if kind == "chain":
            _SYS[key] = zoo.make_system(2, "orth", "chain", "generic", seed=seed, periodic=(True, False, False), tag="c12")
        else:
            _SYS[key] = zoo.make_system(2, "orth", "planar", "generic", seed=seed, periodic=(True, True, False), tag="c12")
    return _SYS[key]


def build(cfg, seed):
    import wannierberri as wb
    from wannierberri.calculators import tabulate
    if cfg["kind"] == "grid":
        system = get_system("chain" if cfg["div"][1] == 1 else "planar", seed)
        grid = wb.Grid(system, NKdiv=cfg["div"], NKFFT=1)
    else:
        system = get_system("planar", seed)
        n = cfg["npts"]
        # points outside [0,1) too: TABresult stores k mod 1 and self_to_path must identify periodic images
        kl = [[-0.35 + 1.7 * i / n, 0.13 * i - 0.2, 0.0] for i in range(n)]
        if "step" in cfg:
            kl = [[0.31 + cfg["step"] * i, 0.17 - 0.5 * cfg["step"] * i, 0.0] for i in range(n)]
        grid = wb.Path(system, k_list=kl)
    if cfg["calc"] == "scripted":
        calcs = {"scr": ScriptedCalc(salt=1)}
    elif cfg["calc"] == "tab":
        calcs = {"scr": ScriptedCalc(salt=1),
                 "tab": tabulate.TabulatorAll({"Energy": tabulate.Energy(), "V": tabulate.Velocity()}, mode="grid", save_mode="")}
    else:
        calcs = {"tab": tabulate.TabulatorAll({"Energy": tabulate.Energy(), "V": tabulate.Velocity()}, mode="path", save_mode="")}
    return system, grid, calcs


def execute(cfg, seed, chooser, tier, parallel=True):
    import wannierberri as wb
    system, grid, calcs = build(cfg, seed)
    fr = FakeRay(chooser, ncpu=cfg["ncpu"], max_timeouts=MAX_TIMEOUTS[tier]) if parallel else None
    with tmpdir("wbmc_c12_") as d:
        kw = dict(adpt_num_iter=cfg["niter"], adpt_mesh=2, adpt_fac=1, use_irred_kpt=False, symmetrize=False,
                  fout_name=os.path.join(d, "res"), file_Klist_path=os.path.join(d, "klist"), k_batch=cfg.get("k_batch", 50),
                  print_progress_step_time=0)      # the progress line is formatted at every wait, not only after 5 s of real time
        if parallel:
            with fake_ray(fr):
                res = wb.run(system, grid, calcs, parallel=True, **kw)
        else:
            res = wb.run(system, grid, calcs, parallel=False, **kw)
    obs = result_arrays(res)
    log = None
    if fr is not None:
        log = {"waits": fr.wait_log, "gets": fr.get_log, "ntasks": len(fr.tasks)}
    return obs, log


_SERIAL = {}


def serial(cfg, seed, tier):
    from wbmc.engine import canon
    k = canon(cfg) + str(seed)
    if k not in _SERIAL:
        _SERIAL[k] = execute(cfg, seed, None, tier, parallel=False)[0]
    return _SERIAL[k]


def cases(tier, seed):
    from wbmc.engine import quiet
    for cfg in configs(tier):
        ch = sched.Chooser([])
        try:
            with quiet():
                execute(cfg, seed, ch, tier)
        except Exception:
            pass          # the failure is reported by run_case of the default schedule
        if not ch.trace:
            yield {"cfg": cfg, "first": 0}
            continue
        c, n, costs, label = ch.trace[0]
        for a in range(n):
            if BOUND[tier] is None or costs[a] <= BOUND[tier]:
                yield {"cfg": cfg, "first": a}


def run_case(case, seed):
    tier = case.get("tier") or _TIER[0]
    cfg = case["cfg"]
    ref = serial(cfg, seed, tier)
    nontrivial = set()
    outcomes = set()
    bad = None
    if "schedule" in case:      # replay of one recorded schedule, no explorer
        ch = sched.Chooser(case["schedule"])
        gen = [(case["schedule"], None, execute(cfg, seed, ch, tier), None)]
    else:
        gen = sched.explore(lambda ch: execute(cfg, seed, ch, tier), bound=BOUND[tier],
                            root_prefix=[case["first"]], free_from=1)
    nexec = 0
    for choices, cost, (obs, log), trace in gen:
        nexec += 1
        d, wk = max_rel_diff(obs, ref)
        waits_sig = tuple((nr, tuple(r), bool(to)) for nr, r, to, first in log["waits"])
        ooo = any(list(r) != list(range(first, first + len(r))) or to for nr, r, to, first in log["waits"])
        if ooo:
            nontrivial.add(waits_sig)
        outcomes.add("equal" if d <= 1e-11 else "differs")
        if d > 1e-11 and bad is None:
            bad = {"ok": False,
                   "key": "process:parallel_result_differs_from_serial:" + cfg["kind"] + ":" + cfg["calc"],
                   "detail": f"cfg={cfg} schedule={choices} wait answers (num_returns, ready, timeout, first ref)="
                             f"{log['waits']}: result '{wk}' differs from serial by {d:.3g} (relative)",
                   "replay_case": {"cfg": cfg, "schedule": list(choices), "tier": tier}}
    if "schedule" in case:
        st = {"executions": 1, "tree_edges": len(case["schedule"])}
    else:
        st = sched.explore.last_stats
    res = bad or {"ok": True}
    res.update({"nontrivial": [repr(x) for x in sorted(nontrivial)], "states": st["tree_edges"] + 1,
                "transitions": st["tree_edges"], "traces": st["executions"],
                "outcome": sorted(outcomes), "obs": {"executions": st["executions"], "ooo_schedules": len(nontrivial)}})
    return res


def finish(tier, cases, results):
    """thorough tier: re-validate the Ray model against the installed Ray (never affects the verdict: a Ray that
    cannot start here is an environment problem, and a contradiction is reported in the evidence and on stderr)"""
    import json
    import subprocess
    import sys
    out = {"executions_total": int(sum(r.get("traces", 0) for r in results))}
    here = os.path.dirname(os.path.dirname(os.path.dirname(os.path.abspath(__file__))))
    recorded = os.path.join(here, "conformance", "ray_wait_contract.json")
    if os.path.exists(recorded):
        try:
            d = json.load(open(recorded))
            out["ray_conformance_recorded"] = {"ray": d.get("ray"), "conforms": d.get("conforms"), "scenarios": len(d.get("checks", []))}
        except Exception:
            pass
    if tier == "thorough":
        try:
            r = subprocess.run([sys.executable, os.path.join(here, "tools", "ray_conformance.py")], capture_output=True,
                               text=True, timeout=300, cwd="/tmp")
            d = json.loads(r.stdout.strip().splitlines()[-1])
            out["ray_conformance_live"] = {"ray": d.get("ray"), "conforms": d.get("conforms"), "scenarios": len(d.get("checks", []))}
            if d.get("conforms") is False:
                print("WARNING: the installed Ray contradicts the wait contract modelled by wbmc/seams/fakeray.py", file=sys.stderr)
        except Exception as e:
            out["ray_conformance_live"] = {"ray": "unavailable", "error": repr(e)[:200]}
    return out


_TIER = ["quick"]


def setup(tier, seed):
    _TIER[0] = tier
