"""C10 — adaptive refinement keeps the reported integral consistent.

Model checking of run()'s refinement loop on the real code: the states are (K-point list with weights,
running integral); a transition is one refinement iteration in which run() refines the points the
harness steered it to.  ALL histories up to the depth bound are explored (every subset of size
adpt_fac of the live points at every iteration), in every storage mode, and after EVERY iteration the
integral that run() saved (and, at the end, returned) is compared with  sum_K factor_K * R(K)
recomputed from a snapshot of the live K-point list taken inside run() at that moment.
"""
import itertools
import os

import numpy as np

from wbmc import zoo, refine
from wbmc.runharness import tmpdir

ID = "C10"
LEVEL = "model_checking"
RULE = ("case = (system/grid/adpt_mesh/adpt_fac/symmetry/rank configuration, first refinement choice); below it every "
        "history of refinement choices up to the depth bound is executed through the real run() in each storage mode "
        "(memory, allow_restart, dump_results, memory with the number of iterations given in the negative form; 'discarded' at depth 0); state = snapshot of the live K-point list after an "
        "iteration, transition = one refinement iteration; oracle at every state: saved/returned integral == sum_K "
        "factor_K*R(K) over the snapshot, sum of weights == 1, and all storage modes agree; non-trivial = history of "
        "depth >= 1 (distinct final K-list multisets are counted).  Descent cases = (configuration, word over {first,last}): "
        "every iteration refines the first/last of the sub-cells created by the previous one, down to weights below 1e-9 "
        "(quick: 3 words per configuration, thorough: every word); same oracle; non-trivial = a point of weight < 1e-8 was divided")
ASSUMPTIONS = ["depth <= 2 refinement iterations (quick; 3 for the bcc configuration); thorough: depth 3 for adpt_fac=1 and for the 1D chains, 2 otherwise; grids with <= 9 initial K-points",
               "per-K results are scripted (generic recognisable values); the property is about run()'s bookkeeping, which does not look at the values",
               "weights below 1e-8 are reached only by the descent cases (one refined point per iteration, each a sub-cell of the previous one)",
               "refinement is steered through the result's `max` criterion; dead (zero-weight) points are never selected"]

TOL = 1e-11


def configs(tier):
    out = []
    base = [
        # (system kind, NKdiv, adpt_mesh, symmetric)
        ("chain", (2, 1, 1), 2, False),
        ("chain", (3, 1, 1), 3, False),
        ("planar", (2, 2, 1), 2, False),
        ("planar", (3, 2, 1), (2, 1, 1), False),
        ("cubic", (2, 2, 2), 2, True),
        ("cubic", (2, 2, 2), 2, False),
        ("hexC3", (3, 3, 1), 2, True),
        ("hexC3", (3, 3, 1), 3, True),       # odd mesh: the centre child coincides with its (dead) parent
        ("bcc", (2, 2, 2), 2, True),         # sub-cells of DIFFERENT parents are symmetry-equivalent (merged at run level)
    ]
    for kind, div, mesh, sym in base:
        for fac in (1, 2):
            for rank in (0, 1):
                if rank == 1 and not sym and kind != "chain":
                    continue
                depth = 2
                if tier == "thorough" and (fac == 1 or kind == "chain"):
                    depth = 3          # with adpt_fac=2 the number of histories explodes (C(n,2) per level): depth 2
                if tier == "quick" and kind == "cubic" and fac == 2:
                    depth = 1
                if kind == "bcc":
                    if fac == 2 or rank == 1:
                        continue
                    depth = 3      # index bookkeeping after a run-level merge needs 2 further iterations (depth 4: ~6000 histories)
                out.append({"sys": kind, "div": list(div), "mesh": mesh if isinstance(mesh, int) else list(mesh),
                            "fac": fac, "irred": sym, "rank": rank, "depth": depth})
    return out


_SYS = {}


def get_system(kind, seed):
    if (kind, seed) not in _SYS:
        if kind == "chain":
            s = zoo.make_system(1, "orth", "chain", "zero", seed=seed, periodic=(True, False, False), tag="c10")
        elif kind == "planar":
            s = zoo.make_system(1, "orth", "planar", "zero", seed=seed, periodic=(True, True, False), tag="c10")
        elif kind == "cubic":
            s = zoo.make_system(1, "sc", "shell1", "zero", seed=seed, tag="c10", symmetry_gen=["C4z", "C2x", "Inversion"])
        elif kind == "bcc":
            s = zoo.make_system(1, "bcc", "shell1", "zero", seed=seed, tag="c10", symmetry_gen=["C4z", "C2x", "Inversion"])
        elif kind == "hexC3":
            s = zoo.make_system(1, "hex", "planar", "zero", seed=seed, periodic=(True, True, False), tag="c10",
                                symmetry_gen=["C3z"])
        _SYS[(kind, seed)] = s
    return _SYS[(kind, seed)]


def run_history(cfg, seed, history, mode, d):
    """one complete run() steered along `history`; returns (snapshots, saved {iter: data}, returned data)"""
    import wannierberri as wb
    system = get_system(cfg["sys"], seed)
    grid = wb.Grid(system, NKdiv=cfg["div"], NKFFT=1)
    calc = refine.SteerCalc(prio_table=refine.prio_table(history), salt=seed, rank=cfg["rank"])
    del refine.SNAPSHOTS[:]
    sub = os.path.join(d, mode)
    os.makedirs(sub)
    kw = dict(adpt_num_iter=len(history), adpt_mesh=cfg["mesh"], adpt_fac=cfg["fac"], use_irred_kpt=cfg["irred"],
              symmetrize=cfg["irred"], parallel=False, fout_name=os.path.join(sub, "res"),
              file_Klist_path=os.path.join(sub, "klist"))
    if mode == "memory_negative":
        # the documented alternative way of giving the number of iterations: a negative number n means
        # |n| * prod(NKdiv) / prod(adpt_mesh) / adpt_fac / 3 iterations
        if len(history) == 0:
            kw["adpt_num_iter"] = -0.0
        else:
            kw["adpt_num_iter"] = -(len(history) * 3.0 * cfg["fac"] * float(np.prod(cfg["mesh"])) / float(np.prod(cfg["div"])))
    if mode == "allow_restart":
        kw["allow_restart"] = True
    elif mode == "dump_results":
        kw["dump_results"] = True
    res = wb.run(system, grid, {"scr": calc}, **kw)
    snaps = list(refine.SNAPSHOTS)
    saved = refine.load_saved(sub)
    return snaps, saved, np.array(res.results["scr"].data), system


def expected(cfg, seed, snap, system):
    tot = 0.0
    scale = 0.0
    for key, fac, ev in snap:
        r = refine.vdata(key, seed, cfg["rank"])
        if cfg["irred"] and cfg["rank"] > 0:
            rr = refine.SteerResult(Energies=[np.array([0.0, 1.0])], data=r, transformTR=refine.transform_ident,
                                    transformInv=refine.transform_ident, rank=cfg["rank"], E_titles=["Efermi"])
            r = np.array(system.pointgroup.symmetrize(rr).data)
        tot = tot + fac * r
        scale += abs(fac) * np.abs(r).max()
    return tot, max(scale, 1e-300)


def check_history(cfg, seed, history):
    """returns (failure dict or None, final snapshot, n_states, n_transitions)"""
    modes = ["memory", "allow_restart", "dump_results"] + (["memory_negative"] if len(history) > 0 else [])
    per_mode = {}
    with tmpdir("wbmc_c10_") as d:
        for m in modes:
            per_mode[m] = run_history(cfg, seed, history, m, d)
        try:
            file_snaps = refine.snapshots_from_files(os.path.join(d, "allow_restart", "klist"))
        except Exception:
            file_snaps = {}
        # live K-list not found on the stack (refactored run()): fall back to the restart files of the allow_restart run
        for m in modes:
            sn, saved, returned, system = per_mode[m]
            per_mode[m] = ([(it, s if s is not None else file_snaps.get(it), data) for it, s, data in sn], saved, returned, system)
    ref_snaps = per_mode["memory"][0]
    for m in modes:
        snaps, saved, returned, system = per_mode[m]
        tag = f"cfg={cfg} history={history} mode={m}"
        if [s[0] for s in snaps] != list(range(len(history) + 1)):
            return ({"ok": False, "key": f"run:iterations_saved:{m}", "detail": f"{tag}: savedata iterations {[s[0] for s in snaps]}"}, None)
        for (it, snap, data) in snaps:
            if snap is None:
                return ({"ok": False, "key": "harness:no_K_list_found", "detail": tag}, None)
            wsum = sum(f for _, f, _ in snap)
            if abs(wsum - 1) > 1e-12 or min(f for _, f, _ in snap) < 0:
                return ({"ok": False, "key": f"run:weights_not_partition:{m}", "detail": f"{tag} iter={it} sum={wsum!r}"}, None)
            exp, scale = expected(cfg, seed, snap, system)
            if it not in saved:
                return ({"ok": False, "key": f"run:missing_saved_file:{m}", "detail": f"{tag} iter={it} files={sorted(saved)}"}, None)
            for what, got in (("saved", saved[it]), ("in_memory", data)):
                err = np.abs(got - exp).max() / scale
                if not (err <= TOL):
                    return ({"ok": False, "key": f"run:integral_inconsistent:{what}:{m}",
                             "detail": f"{tag} iteration {it}: {what} integral {np.ravel(got)[:3]} != sum_K factor*R(K) "
                                       f"{np.ravel(exp)[:3]} (rel {err:.3g}); K-list (key,factor,evaluated)={snap[:6]}..."}, None)
        exp, scale = expected(cfg, seed, snaps[-1][1], system)
        err = np.abs(returned - exp).max() / scale
        if not (err <= TOL):
            return ({"ok": False, "key": f"run:returned_inconsistent:{m}", "detail": f"{tag}: returned {np.ravel(returned)[:3]} vs {np.ravel(exp)[:3]} rel {err:.3g}"}, None)
        # all storage modes follow the same history
        if [(it, sorted(sn)) for it, sn, _ in snaps] != [(it, sorted(sn)) for it, sn, _ in ref_snaps]:
            return ({"ok": False, "key": f"run:storage_modes_disagree:{m}", "detail": f"{tag}: K-lists differ from memory mode"}, None)
    return None, ref_snaps


def first_choices(cfg, seed):
    fail, snaps = check_history(cfg, seed, [])
    live = [k for k, f, ev in snaps[-1][1] if f > 0]
    return fail, [list(c) for c in itertools.combinations(live, cfg["fac"])]


DESCENTS = [
    # (configuration, number of iterations): the last iterations divide points whose weight is below 1e-8
    ({"sys": "planar", "div": [2, 2, 1], "mesh": 4, "fac": 1, "irred": False, "rank": 0, "depth": 0}, 9),
    ({"sys": "cubic", "div": [2, 2, 2], "mesh": 4, "fac": 1, "irred": False, "rank": 0, "depth": 0}, 6),
    ({"sys": "cubic", "div": [2, 2, 2], "mesh": 4, "fac": 1, "irred": True, "rank": 1, "depth": 0}, 6),
    ({"sys": "hexC3", "div": [3, 3, 1], "mesh": 3, "fac": 1, "irred": True, "rank": 0, "depth": 0}, 9),
]


def descent_history(cfg, seed, word):
    """history in which iteration i refines the first ('F') / last ('L') live point of the deepest refinement level"""
    hist = []
    divided = []
    for ch in word:
        with tmpdir("wbmc_c10d_") as d:
            snaps = run_history(cfg, seed, hist, "memory", d)[0]
        last = snaps[-1][1]
        if last is None:
            with tmpdir("wbmc_c10d_") as d:
                run_history(cfg, seed, hist, "allow_restart", d)
                last = refine.snapshots_from_files(os.path.join(d, "allow_restart", "klist"))[len(hist)]
        lvl = max(k[0] for k, f, ev in last if f > 0)
        cands = [(k, f) for k, f, ev in last if f > 0 and k[0] == lvl]
        k, f = cands[0] if ch == "F" else cands[-1]
        hist.append([k])
        divided.append(f)
    return hist, divided


def cases(tier, seed):
    from wbmc.engine import quiet
    for cfg, D in DESCENTS:
        if tier == "quick":
            words = ["F" * D, "L" * D, ("FL" * D)[:D]]
        else:
            words = ["".join(w) for w in itertools.product("FL", repeat=D)]
        for w in words:
            yield {"cfg": cfg, "descent": w}
    for cfg in configs(tier):
        with quiet():
            fail, firsts = first_choices(cfg, seed)
        yield {"cfg": cfg, "first": None}          # the depth-0 history (also the "discarded" storage mode)
        if cfg["depth"] >= 1:
            for f in firsts:
                yield {"cfg": cfg, "first": f}


def run_case(case, seed):
    cfg = case["cfg"]
    if "history" in case:                       # replay of one recorded history
        fail, snaps = check_history(cfg, seed, [[refine.tuplify(k) for k in it] for it in case["history"]])
        return fail or {"ok": True, "nontrivial": True, "states": len(case["history"]) + 1, "transitions": len(case["history"]), "traces": 4}
    if "descent" in case:
        hist, divided = descent_history(cfg, seed, case["descent"])
        fail, snaps = check_history(cfg, seed, hist)
        if fail:
            fail["replay_case"] = {"cfg": cfg, "history": hist}
            fail["detail"] += f" [descent {case['descent']}: divided weights {['%.3g' % x for x in divided]}]"
            fail.update({"states": len(hist) + 1, "transitions": len(hist), "traces": 4})
            return fail
        small = min(divided) < 1e-8
        return {"ok": True, "nontrivial": ("descent", repr(cfg), case["descent"]) if small else False, "states": len(hist) + 1,
                "transitions": len(hist), "traces": 4, "outcome": "descent",
                "obs": {"divided_weights": [float("%.3g" % x) for x in divided], "final_points": len(snaps[-1][1])}}
    if case["first"] is None:
        fail, snaps = check_history(cfg, seed, [])
        # discarded mode: adpt_num_iter=0 without restart => results are cleared after use; covered by 'memory'
        return fail or {"ok": True, "nontrivial": False, "states": 1, "transitions": 0, "traces": 3,
                        "outcome": "depth0"}
    frontier = [[[refine.tuplify(k) for k in case["first"]]]]
    nstates = ntrans = nruns = 0
    finals = set()
    while frontier:
        hist = frontier.pop()
        fail, snaps = check_history(cfg, seed, hist)
        nruns += 4
        if fail:
            fail["replay_case"] = {"cfg": cfg, "history": hist}
            fail.update({"states": nstates + 1, "transitions": ntrans + 1, "traces": nruns})
            return fail
        nstates += 1
        ntrans += 1
        last = snaps[-1][1]
        finals.add(tuple(sorted((k, round(f, 12)) for k, f, ev in last)))
        if len(hist) < cfg["depth"]:
            live = [k for k, f, ev in last if f > 0]
            for combo in itertools.combinations(live, cfg["fac"]):
                frontier.append(hist + [list(combo)])
    return {"ok": True, "nontrivial": [repr(hash(x)) for x in finals], "states": nstates, "transitions": ntrans,
            "traces": nruns, "outcome": len(finals), "obs": {"histories": nstates, "distinct_final_klists": len(finals)}}
