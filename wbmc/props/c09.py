"""C09 — point-group operations form a group acting on tensors.

Exhaustive product over the 32 crystallographic point groups (wbmc/groups.py; trigonal groups in two
settings) x {plain, grey (+TimeReversal), every "generator i times TimeReversal" black-white variant}:

* kind "algebra": PointGroup(generators) in both generator orders -> element set equals the closure
  computed here with plain numpy (and the textbook order), the **full multiplication table** through the
  real ``__mul__``/``__eq__`` (every product is in the group exactly once and is the reference product),
  identity, inverses, ``as_dict`` -> ``PointGroup(dictionary=...)`` round trip.
* kind "tensor" (one case per rank 0..3): on the **full basis** e_i(x)e_j(x)e_k and i*e_i(x)e_j(x)e_k
  (the maps are real-linear) with 0, 1 and 2 leading non-Cartesian axes, for every (transformTR,
  transformInv) pair of the alphabet the rank allows: ``transform_tensor`` of every element against a
  reference written here; the action law T_g1(T_g2 x) = T_{g1*g2} x for **all ordered pairs** (left or right
  action accepted, but the same for the whole group); ``symmetrize_tensor`` P: P = mean of the reference
  maps, P(Px)=Px, T_g(Px)=Px for every g; ``PointGroup.symmetrize`` on EnergyResult / ResultDict.
* kind "lattice" (group x each of the 8 zoo lattices): ``check_basis_symmetry`` on the real and reciprocal
  lattice against an independent invariance test (both answers), construction with ``real_lattice``
  (must succeed on compatible lattices and be refused on incompatible ones), ``symmetric_grid`` against a
  rational model for 9 meshes, ``transform_reduced_vector`` against exact integer matrices, ``star(k)``
  for 14 k-points against the brute-force set of distinct images modulo 1 in exact rational arithmetic.
* kind "spacegroup": ``PointGroup(spacegroup=...)`` for 6 irrep space groups (wbmc/structures.py) keeps exactly the
  distinct (rotation, time reversal) parts; ``use_symmetries_index`` gives the subgroup the subset generates.
* kind "scalar0d": a rank-0 tensor without leading axes (0-dimensional array) transforms like any other scalar.
* kind "transform_product": ``TransformProduct`` describes the transform of a product of two quantities.
"""
import itertools
from fractions import Fraction

import numpy as np

ID = "C09"
LEVEL = "exploration"
RULE = ("cases = (group of the 32 x setting x variant plain/grey/bw<i>) x {algebra; tensor rank 0..3; each zoo lattice}; "
        "every case runs the whole inner product (all elements, all ordered pairs, all transform pairs, all k / meshes). "
        "non-trivial: algebra/tensor case with group order > 1 (key = group, variant[, rank]); lattice case on a compatible "
        "lattice where at least one k of the alphabet has 1 < |star| < |G| (duplicates really removed), or an incompatible "
        "lattice that must be refused")
ASSUMPTIONS = [
    "generators come from the table in wbmc/groups.py (cubic / hexagonal settings, monoclinic axis y); other orientations "
    "of the same groups are not enumerated",
    "lattices are the 8 zoo lattices; continuous lattice parameters are represented by one value each",
    "(transformTR, transformInv) pairs are restricted to commuting involutions (pairs of non-commuting transposes do not "
    "define a group action mathematically); transposing/swapping transforms are used only where the rank provides the axes",
    "tensor data: complete real basis (e and i*e) of ranks 0-3, so by real-linearity all data of these ranks; ranks > 3 not run",
    "k alphabet of 14 rational points (high-symmetry, generic, near Gamma, near the zone boundary, outside the first cell)",
    "PointGroup.symmetrize is exercised with EnergyResult and ResultDict (K-resolved results add by stacking k-points and "
    "are not symmetrised by this method)",
]

QUICK_GROUPS = ["C1", "Ci", "C2", "Cs", "C3", "C2h", "D2", "C2v", "C4", "S4", "S6", "D3", "C3v", "C6", "C3h",
                "D2d", "C4v", "D3d", "D3h", "T", "Td"]

TOL = 1e-11
NPARTS = {0: 1, 1: 1, 2: 2, 3: 4}

# ------------------------------------------------------------------------------------------------
# transform alphabet: name -> (factor, conj, transpose_axes, swap_axes, minimal rank, predefined name in the library)
# ------------------------------------------------------------------------------------------------
TRANSFORMS = {
    "ident": (1, False, None, None, 0, "transform_ident"),
    "odd": (-1, False, None, None, 0, "transform_odd"),
    "odd_conj": (-1, True, None, None, 0, "transform_odd_conj"),
    "conj": (1, True, None, None, 0, None),
    "trans": (1, False, (1, 0), None, 2, "transform_trans"),
    "odd_trans": (-1, False, (1, 0), None, 2, None),
    "conj_trans": (1, True, (1, 0), None, 2, None),
    "swap12": (1, False, None, (-1, -2), 2, None),
    "odd_trans_021": (-1, False, (0, 2, 1), None, 3, "transform_odd_trans_021"),
    "odd_trans_102": (-1, False, (1, 0, 2), None, 3, "transform_odd_trans_102"),
    "swap13": (1, False, None, (-1, -3), 3, None),
}


def transform_pairs(rank):
    """(transformTR, transformInv) names; all commute and are involutions"""
    sign = ["ident", "odd"]
    tr = ["ident", "odd", "odd_conj", "conj"]
    if rank >= 2:
        tr += ["trans", "odd_trans", "conj_trans", "swap12"]
    if rank >= 3:
        tr += ["odd_trans_021", "odd_trans_102", "swap13"]
    pairs = [(a, b) for a in tr for b in sign]
    if rank >= 2:
        pairs += [("ident", "trans"), ("odd_conj", "trans"), ("trans", "trans"), ("conj_trans", "odd_trans")]
    if rank >= 3:
        pairs += [("odd_trans_021", "odd_trans_021"), ("odd_conj", "odd_trans_102"), ("swap13", "swap13")]
    return pairs


def real_transform(name):
    from wannierberri.symmetry import point_symmetry as ps
    f, c, t, s, _, pre = TRANSFORMS[name]
    if pre is not None:
        return getattr(ps, pre)
    return ps.Transform(factor=f, conj=c, transpose_axes=t, swap_axes=s)


def ref_apply(name, Y):
    """reference meaning of a Transform on an array whose trailing axes are Cartesian"""
    f, c, t, s, _, _ = TRANSFORMS[name]
    Y = np.array(Y, copy=True)
    if t is not None:
        lead = Y.ndim - len(t)
        Y = np.transpose(Y, tuple(range(lead)) + tuple(lead + a for a in t)).copy()
    elif s is not None:
        Y = np.swapaxes(Y, *s).copy()
    if c:
        Y = Y.conj()
    return f * Y


def ref_transform_tensor(R, TR, X, rank, tTR, tInv):
    """reference: rotate every Cartesian index with the proper part of R, then TR / inversion transforms"""
    det = np.linalg.det(R)
    inv = det < 0
    Rp = R * (-1 if inv else 1)
    Y = np.array(X, copy=True)
    nd = Y.ndim
    for ax in range(nd - rank, nd):
        Y = np.moveaxis(np.tensordot(Rp, Y, axes=([1], [ax])), 0, ax)
    if TR:
        Y = ref_apply(tTR, Y)
    if inv:
        Y = ref_apply(tInv, Y)
    return Y


def basis(rank):
    """complete real basis of complex rank-`rank` tensors: shape (2*3^rank,) + (3,)*rank"""
    n = 3 ** rank
    E = np.eye(n, dtype=complex).reshape((n,) + (3,) * rank)
    return np.concatenate([E, 1j * E], axis=0)


# ------------------------------------------------------------------------------------------------
# cases
# ------------------------------------------------------------------------------------------------

def group_variants(tier):
    from wbmc import groups
    names = groups.names() if tier != "quick" else [n for n in groups.names() if n in QUICK_GROUPS]
    for n in names:
        for st in range(groups.nsettings(n)):
            if tier == "quick" and st > 0 and n not in ("C3", "C3v"):
                continue
            for v, _ in groups.variants(n, st):
                yield n, st, v


def cases(tier, seed):
    from wbmc import zoo
    yield {"kind": "transform_product"}
    from wbmc import structures
    for st in structures.STRUCTURES:
        for spinor in (False, True):
            yield {"kind": "spacegroup", "structure": st, "spinor": spinor}
    gv = list(group_variants(tier))
    for n, st, v in gv:
        yield {"kind": "algebra", "group": n, "setting": st, "variant": v}
    for n, st, v in gv:
        yield {"kind": "scalar0d", "group": n, "setting": st, "variant": v}
    for n, st, v in gv:
        for ln in zoo.LATTICES:
            yield {"kind": "lattice", "group": n, "setting": st, "variant": v, "lattice": ln}
    for rank in (0, 1, 2, 3):
        nparts = NPARTS[rank]
        for n, st, v in gv:
            for part in range(nparts):          # the transform pairs are dealt over `nparts` cases (load balance only)
                yield {"kind": "tensor", "group": n, "setting": st, "variant": v, "rank": rank, "part": part}


# ------------------------------------------------------------------------------------------------
# helpers on real objects
# ------------------------------------------------------------------------------------------------

def full_R(s):
    """full orthogonal matrix (acting on polar vectors) + TR flag of a real PointSymmetry, from its documented attributes"""
    return np.array(s.R, dtype=float) * (-1 if s.Inv else 1), bool(s.TR)


def match_reference(syms, ref):
    """index in `ref` of every real symmetry (None if absent / ambiguous)"""
    from wbmc import groups
    keys = {groups.element_key(R, TR): i for i, (R, TR) in enumerate(ref)}
    out = []
    for s in syms:
        R, TR = full_R(s)
        if abs(abs(np.linalg.det(R)) - 1) > 1e-9 or np.abs(R @ R.T - np.eye(3)).max() > 1e-9:
            return None
        out.append(keys.get(groups.element_key(R, TR)))
    return out


def gtag(case):
    return f"{case['group']}/{case['setting']}/{case['variant']}"


def mult_table(pg):
    """table[i][j] = index of symmetries[i]*symmetries[j] found with the real __eq__ (list of all matches)"""
    S = pg.symmetries
    n = len(S)
    tab = [[None] * n for _ in range(n)]
    for i in range(n):
        for j in range(n):
            p = S[i] * S[j]
            tab[i][j] = [k for k in range(n) if S[k] == p]
    return tab


# ------------------------------------------------------------------------------------------------
# kind: algebra
# ------------------------------------------------------------------------------------------------

def run_algebra(case):
    from wbmc import groups
    from wannierberri.symmetry.point_symmetry import PointGroup, PointSymmetry
    name, st, var = case["group"], case["setting"], case["variant"]
    specs = groups.variant_generators(name, var, st)
    ref = groups.reference_elements(specs)
    nref = len(ref)
    if var == "plain" and nref != groups.GROUPS[name]["order"]:
        return {"ok": False, "key": "harness:reference_order", "detail": f"{gtag(case)} {nref}"}
    refkeys = [groups.element_key(R, TR) for R, TR in ref]
    sets = []
    for reverse in (False, True):
        sp = specs[::-1] if reverse else specs
        pg = PointGroup(groups.build(sp))
        S = pg.symmetries
        idx = match_reference(S, ref)
        where = f"{gtag(case)} generators={'reversed' if reverse else 'given'} size={len(S)} expected={nref}"
        if idx is None or any(i is None for i in idx):
            return {"ok": False, "key": "PointGroup:element_not_in_closure", "detail": where}
        if len(set(idx)) != len(idx):
            return {"ok": False, "key": "PointGroup:duplicate_elements", "detail": where}
        if len(S) != nref or pg.size != nref:
            return {"ok": False, "key": "PointGroup:wrong_order", "detail": where}
        sets.append(sorted(idx))
        # identity exactly once
        from wannierberri.symmetry.point_symmetry import Identity
        nid = [i for i, s in enumerate(S) if s == Identity]
        if len(nid) != 1 or idx[nid[0]] != refkeys.index(groups.element_key(np.eye(3), False)):
            return {"ok": False, "key": "PointGroup:identity", "detail": where + f" identity matches {nid}"}
        # full multiplication table
        tab = mult_table(pg)
        n = len(S)
        for i in range(n):
            for j in range(n):
                m = tab[i][j]
                Ri, Ti = ref[idx[i]]
                Rj, Tj = ref[idx[j]]
                want = refkeys.index(groups.element_key(Ri @ Rj, Ti != Tj))
                if len(m) != 1:
                    return {"ok": False, "key": "PointSymmetry.__mul__/__eq__:closure",
                            "detail": where + f" product of elements {i},{j} equals {len(m)} group elements"}
                if idx[m[0]] != want:
                    return {"ok": False, "key": "PointSymmetry.__mul__:wrong_product",
                            "detail": where + f" product {i}*{j} -> element {m[0]} but reference product is another element; "
                                              f"(TR,Inv) of factors {(S[i].TR, S[i].Inv)},{(S[j].TR, S[j].Inv)} got {(S[m[0]].TR, S[m[0]].Inv)}"}
                # the product object itself carries the reference matrix
                p = S[i] * S[j]
                Rp, Tp = full_R(p)
                if np.abs(Rp - Ri @ Rj).max() > 1e-9 or Tp != (Ti != Tj):
                    return {"ok": False, "key": "PointSymmetry.__mul__:wrong_product", "detail": where + f" {i}*{j}"}
        # __eq__ is an equivalence that separates all elements
        for i in range(n):
            for j in range(n):
                if (S[i] == S[j]) != (i == j):
                    return {"ok": False, "key": "PointSymmetry.__eq__:does_not_separate",
                            "detail": where + f" elements {i},{j}: (TR,Inv)={(S[i].TR, S[i].Inv)},{(S[j].TR, S[j].Inv)}"}
        # inverses
        e = nid[0]
        for i in range(n):
            inv = [j for j in range(n) if tab[i][j] == [e] and tab[j][i] == [e]]
            if len(inv) != 1:
                return {"ok": False, "key": "PointGroup:inverse", "detail": where + f" element {i} has {len(inv)} inverses"}
        # attributes consistent: R proper, Inv, iTR, iInv; as_dict gives back the constructor arguments
        for s in S:
            if abs(np.linalg.det(s.R) - 1) > 1e-9 or s.iTR != (-1 if s.TR else 1) or s.iInv != (-1 if s.Inv else 1):
                return {"ok": False, "key": "PointSymmetry:attributes", "detail": where}
            d = s.as_dict()
            if set(d) != {"R", "TR"} or np.abs(np.array(d["R"]) - full_R(s)[0]).max() > 1e-12 or bool(d["TR"]) != bool(s.TR):
                return {"ok": False, "key": "PointSymmetry.as_dict", "detail": where}
            if not (PointSymmetry(**d) == s):
                return {"ok": False, "key": "PointSymmetry.as_dict", "detail": where + " PointSymmetry(**as_dict()) != original"}
        # dictionary round trip (no lattice: a PointGroup may be used for tensors only)
        pg2 = PointGroup(dictionary=pg.as_dict())
        idx2 = match_reference(pg2.symmetries, ref)
        if idx2 is None or None in idx2 or sorted(idx2) != sorted(idx):
            return {"ok": False, "key": "PointGroup:as_dict_roundtrip", "detail": where}
    if sets[0] != sets[1]:
        return {"ok": False, "key": "PointGroup:depends_on_generator_order", "detail": gtag(case)}
    return {"ok": True, "nontrivial": (("group", name, st, var) if nref > 1 else False),
            "obs": {"order": nref, "pairs": 2 * nref * nref}}


# ------------------------------------------------------------------------------------------------
# kind: tensor
# ------------------------------------------------------------------------------------------------

def run_tensor(case, seed):
    from wbmc import groups, zoo
    from wannierberri.symmetry.point_symmetry import PointGroup
    from wannierberri.result import EnergyResult
    from wannierberri.result.resultdict import ResultDict
    name, st, var, rank = case["group"], case["setting"], case["variant"], case["rank"]
    specs = groups.variant_generators(name, var, st)
    pg = PointGroup(groups.build(specs))
    S = pg.symmetries
    n = len(S)
    els = [full_R(s) for s in S]
    hasTR = any(t for _, t in els)
    hasInv = any(np.linalg.det(R) < 0 for R, _ in els)
    X = basis(rank)
    N = X.shape[0]
    cart = (3,) * rank
    rng = zoo.rng_for(seed, "C09", rank)
    w = rng.normal(size=N)
    Xgen = np.tensordot(w, X, axes=(0, 0))          # one generic complex tensor, no leading axis
    tab = mult_table(pg)
    for i in range(n):
        for j in range(n):
            if len(tab[i][j]) != 1:
                return {"ok": False, "key": "PointSymmetry.__mul__/__eq__:closure", "detail": f"{gtag(case)} {i}*{j}"}
    pairs_all = transform_pairs(rank)
    # transforms that are never called cannot matter: deduplicate
    seen = set()
    pairs = []
    for a, b in pairs_all:
        k = (a if hasTR else "-", b if hasInv else "-")
        if k not in seen:
            seen.add(k)
            pairs.append((a, b))
    pairs = pairs[case.get("part", 0)::NPARTS[rank]]
    abelian = all(tab[i][j] == tab[j][i] for i in range(n) for j in range(n))
    ncalls = 0
    for a, b in pairs:
        tTR, tInv = real_transform(a), real_transform(b)
        where = f"{gtag(case)} rank={rank} transformTR={a} transformInv={b}"
        # --- every element against the reference, 0/1/2 leading axes
        Y = []
        for g, s in enumerate(S):
            R, TR = els[g]
            for lead, Xl in (("1", X), ("2", X.reshape((2, N // 2) + cart)), ("0", Xgen)):
                if Xl.ndim == 0:
                    continue            # 0-d arrays (rank 0, no leading axis) have their own case kind "scalar0d"
                Xin = Xl.copy()
                got = s.transform_tensor(Xin, rank, tTR, tInv)
                ncalls += 1
                if not np.array_equal(Xin, Xl):
                    return {"ok": False, "key": "transform_tensor:modifies_input", "detail": where + f" element {g}"}
                want = ref_transform_tensor(R, TR, Xl, rank, a, b)
                if got.shape != want.shape or np.abs(got - want).max() > TOL:
                    comp = "rotation" if not (TR or np.linalg.det(R) < 0) else ("TR" if TR and np.linalg.det(R) > 0 else "Inv/TR")
                    return {"ok": False, "key": f"transform_tensor:differs_from_reference:{comp}",
                            "detail": where + f" element {g} (TR={TR}, det={np.linalg.det(R):+.0f}) leading axes={lead} "
                                              f"max diff {np.abs(got - want).max() if got.shape == want.shape else 'shape'}"}
                if lead == "1":
                    Y.append(got)
        # --- action law for all ordered pairs
        left = right = True
        bad = None
        for g2 in range(n):
            for g1 in range(n):
                Z = S[g1].transform_tensor(Y[g2], rank, tTR, tInv)
                ncalls += 1
                okl = np.abs(Z - Y[tab[g1][g2][0]]).max() <= TOL
                okr = np.abs(Z - Y[tab[g2][g1][0]]).max() <= TOL
                if not okl:
                    left = False
                    bad = bad or (g1, g2)
                if not okr:
                    right = False
        if not (left or right):
            g1, g2 = bad
            return {"ok": False, "key": "transform_tensor:not_a_group_action",
                    "detail": where + f" T_g1(T_g2 x) != T_(g1*g2) x for elements g1={g1} (TR={els[g1][1]},Inv={S[g1].Inv}) "
                                      f"g2={g2} (TR={els[g2][1]},Inv={S[g2].Inv}); neither a left nor a right action"}
        # --- projection
        P = pg.symmetrize_tensor(X, transformTR=tTR, transformInv=tInv, rank=rank)
        Pref = sum(ref_transform_tensor(R, TR, X, rank, a, b) for R, TR in els) / n
        if np.abs(P - Pref).max() > TOL:
            return {"ok": False, "key": "symmetrize_tensor:not_the_group_average", "detail": where}
        PP = pg.symmetrize_tensor(P, transformTR=tTR, transformInv=tInv, rank=rank)
        if np.abs(PP - P).max() > TOL:
            return {"ok": False, "key": "symmetrize_tensor:not_idempotent", "detail": where + f" {np.abs(PP - P).max()}"}
        for g, s in enumerate(S):
            if np.abs(s.transform_tensor(P, rank, tTR, tInv) - P).max() > TOL:
                return {"ok": False, "key": "symmetrize_tensor:result_not_invariant", "detail": where + f" element {g}"}
        # default rank (= ndim) on data without leading axes
        if rank > 0:
            P0 = pg.symmetrize_tensor(Xgen, transformTR=tTR, transformInv=tInv)
            P0ref = sum(ref_transform_tensor(R, TR, Xgen, rank, a, b) for R, TR in els) / n
            if np.abs(P0 - P0ref).max() > TOL:
                return {"ok": False, "key": "symmetrize_tensor:default_rank", "detail": where}
        # number of invariants: trace of the real-linear projector is an integer = mean character
        Preal = np.concatenate([P.reshape(N, -1).real, P.reshape(N, -1).imag], axis=1)   # (N, N)
        tr = np.trace(Preal)
        if abs(tr - round(tr)) > 1e-9:
            return {"ok": False, "key": "symmetrize_tensor:not_a_projector", "detail": where + f" trace {tr}"}
        # --- PointGroup.symmetrize on result objects
        res = EnergyResult(Energies=[np.arange(float(N))], data=X.copy(), transformTR=tTR, transformInv=tInv, rank=rank)
        sres = pg.symmetrize(res)
        if np.abs(sres.data - Pref).max() > TOL:
            return {"ok": False, "key": "PointGroup.symmetrize:EnergyResult", "detail": where}
        ssres = pg.symmetrize(sres)
        if np.abs(ssres.data - sres.data).max() > TOL:
            return {"ok": False, "key": "PointGroup.symmetrize:not_idempotent", "detail": where}
        for g, s in enumerate(S):
            if np.abs(sres.transform(s).data - sres.data).max() > TOL:
                return {"ok": False, "key": "PointGroup.symmetrize:result_not_invariant", "detail": where + f" element {g}"}
        rd = ResultDict({"a": res, "b": res * 2.0})
        srd = pg.symmetrize(rd)
        if np.abs(srd.results["a"].data - Pref).max() > TOL or np.abs(srd.results["b"].data - 2 * Pref).max() > TOL:
            return {"ok": False, "key": "PointGroup.symmetrize:ResultDict", "detail": where}
    return {"ok": True, "nontrivial": (("action", name, st, var, rank) if (n > 1 and pairs) else False),
            "obs": {"order": n, "transform_pairs": len(pairs), "calls": ncalls, "abelian": bool(abelian)}}


# ------------------------------------------------------------------------------------------------
# kind: scalar0d — a rank-0 tensor without leading axes is a 0-dimensional array
# ------------------------------------------------------------------------------------------------

def run_scalar0d(case):
    from wbmc import groups
    from wannierberri.symmetry.point_symmetry import PointGroup
    name, st, var = case["group"], case["setting"], case["variant"]
    pg = PointGroup(groups.build(groups.variant_generators(name, var, st)))
    S = pg.symmetries
    x = np.array(0.7 - 0.4j)
    used = False
    for a, b in transform_pairs(0):
        tTR, tInv = real_transform(a), real_transform(b)
        vals = []
        for g, s in enumerate(S):
            R, TR = full_R(s)
            want = ref_transform_tensor(R, TR, x, 0, a, b)
            used = used or TR or np.linalg.det(R) < 0
            try:
                got = s.transform_tensor(x.copy(), 0, tTR, tInv)
            except IndexError as e:
                return {"ok": False, "key": "Transform.__call__:0-d_array", "nontrivial": True,
                        "detail": f"{gtag(case)} transform_tensor(np.array(0.7-0.4j), rank=0, transformTR={a}, transformInv={b}) "
                                  f"for element {g} (TR={TR}, det={np.linalg.det(R):+.0f}) raises IndexError: {e}"}
            if np.shape(got) != () or abs(got - want) > TOL:
                return {"ok": False, "key": "transform_tensor:differs_from_reference:scalar",
                        "detail": f"{gtag(case)} TR={a} Inv={b} element {g}: {got} vs {want}"}
            vals.append(want)
        P = pg.symmetrize_tensor(x.copy(), transformTR=tTR, transformInv=tInv, rank=0)
        if abs(P - sum(vals) / len(vals)) > TOL:
            return {"ok": False, "key": "symmetrize_tensor:not_the_group_average", "detail": f"{gtag(case)} 0-d TR={a} Inv={b}"}
    return {"ok": True, "nontrivial": (("scalar0d", name, st, var) if used else False)}


# ------------------------------------------------------------------------------------------------
# kind: lattice
# ------------------------------------------------------------------------------------------------

def F(x):
    return Fraction(x).limit_denominator(10000)


K_ALPHABET = {
    "G": (0, 0, 0), "X": ("1/2", 0, 0), "Z": (0, 0, "1/2"), "M": ("1/2", "1/2", 0), "R": ("1/2", "1/2", "1/2"),
    "K": ("1/3", "1/3", 0), "K2": ("1/3", "2/3", "1/2"), "q": ("1/4", "1/4", "1/4"), "W": ("1/2", "1/4", "3/4"),
    "gen": ("123/1000", "-271/1000", "389/1000"), "gen2": ("31/100", "47/100", "-9/100"),
    "nearG": ("1/500", "1/1000", "3/1000"), "nearX": ("499/1000", 0, "1/1000"),
    "outside": ("3/2", "-1/2", "5/4"),
}
NK_ALPHABET = [(1, 1, 1), (2, 2, 2), (3, 3, 3), (2, 2, 1), (3, 3, 1), (4, 4, 2), (2, 4, 2), (1, 2, 3), (2, 3, 2)]


def int_matrix(M):
    Mi = np.round(M)
    if np.abs(M - Mi).max() > 1e-8:
        return None
    return [[int(x) for x in row] for row in Mi]


def run_lattice(case):
    from wbmc import groups, zoo
    from wannierberri.symmetry.point_symmetry import PointGroup
    name, st, var, ln = case["group"], case["setting"], case["variant"], case["lattice"]
    specs = groups.variant_generators(name, var, st)
    ref = groups.reference_elements(specs)
    L = zoo.lattice(ln)
    B = 2 * np.pi * np.linalg.inv(L).T          # reciprocal lattice rows
    # independent invariance test: g maps lattice vectors to integer combinations
    def invariant(basis):
        return all(int_matrix(basis @ R.T @ np.linalg.inv(basis)) is not None for R, _ in ref)
    inv_real, inv_recip = invariant(L), invariant(B)
    if inv_real != inv_recip or inv_real != (ln in groups.lattices(name, st)):
        return {"ok": False, "key": "harness:lattice_table", "detail": f"{gtag(case)} {ln}"}
    where = f"{gtag(case)} lattice={ln}"
    pg0 = PointGroup(groups.build(specs))          # no lattice
    for bname, basis_, expect in (("real", L, inv_real), ("recip", B, inv_recip)):
        got = bool(pg0.check_basis_symmetry(basis_))
        if got != expect:
            return {"ok": False, "key": f"check_basis_symmetry:{'accepts_non_invariant' if got else 'rejects_invariant'}",
                    "detail": where + f" basis={bname} returned {got}"}
    # constructor
    try:
        pg = PointGroup(groups.build(specs), real_lattice=L)
        constructed = True
    except AssertionError:
        constructed = False
    if constructed != inv_real:
        return {"ok": False, "key": "PointGroup:" + ("accepts_non_invariant_lattice" if constructed else "refuses_invariant_lattice"),
                "detail": where}
    if not inv_real:
        return {"ok": True, "nontrivial": ("refused", name, st, var, ln), "obs": {"compatible": False}}
    # the same group from the reciprocal lattice
    pgr = PointGroup(groups.build(specs), recip_lattice=B)
    if np.abs(pgr.real_lattice - L).max() > 1e-12 or np.abs(pg.recip_lattice - B).max() > 1e-12 or pgr.size != pg.size:
        return {"ok": False, "key": "PointGroup:real_recip_lattice", "detail": where}
    S = pg.symmetries
    idx = match_reference(S, ref)
    if idx is None or None in idx or sorted(idx) != list(range(len(ref))):
        return {"ok": False, "key": "PointGroup:wrong_order", "detail": where + f" size={len(S)} expected={len(ref)}"}
    # dictionary round trip with lattice
    pg2 = PointGroup(dictionary=pg.as_dict())
    idx2 = match_reference(pg2.symmetries, ref)
    if (idx2 is None or None in idx2 or sorted(idx2) != sorted(idx) or np.abs(pg2.real_lattice - L).max() > 1e-12
            or np.abs(pg2.recip_lattice - B).max() > 1e-12):
        return {"ok": False, "key": "PointGroup:as_dict_roundtrip", "detail": where}
    # exact reduced-coordinate matrices acting on k (row vector k -> k @ Mk); TR reverses k
    Mk = []
    for g, s in enumerate(S):
        R, TR = ref[idx[g]]
        M = int_matrix(B @ R.T @ np.linalg.inv(B))
        M = [[(-x if TR else x) for x in row] for row in M]
        Mk.append(M)
        got = s.transform_reduced_vector(np.eye(3), pg.recip_lattice)
        if np.abs(got - np.array(M, dtype=float)).max() > 1e-9:
            return {"ok": False, "key": "transform_reduced_vector:differs_from_reference",
                    "detail": where + f" element {g} TR={TR} det={np.linalg.det(R):+.0f}"}
        # real-space vectors: polar, TR does not act — documented formula applies iTR*iInv to any vector, so only
        # the reciprocal use (k-points) is compared with TR; for TR-free elements also compare the real basis
        if not TR:
            Mr = int_matrix(L @ R.T @ np.linalg.inv(L))
            gotr = s.transform_reduced_vector(np.eye(3), pg.real_lattice)
            if np.abs(gotr - np.array(Mr, dtype=float)).max() > 1e-9:
                return {"ok": False, "key": "transform_reduced_vector:differs_from_reference", "detail": where + f" real basis, element {g}"}
    # symmetric_grid against the rational model: N^-1 M N integer for all g
    for nk in NK_ALPHABET:
        want = all(Fraction(M[i][j] * nk[j], nk[i]).denominator == 1 for M in Mk for i in range(3) for j in range(3))
        got = bool(pg.symmetric_grid(nk))
        if got != want:
            return {"ok": False, "key": f"symmetric_grid:{'accepts' if got else 'rejects'}",
                    "detail": where + f" nk={nk} returned {got}, rational model {want}"}
    # star
    dedup = False
    sizes = {}
    for kname, kk in K_ALPHABET.items():
        k = [Fraction(x) for x in kk]
        images = []
        for M in Mk:
            images.append(tuple(sum(k[i] * M[i][j] for i in range(3)) for j in range(3)))
        classes = {}
        for im in images:
            classes.setdefault(tuple(x % 1 for x in im), []).append(im)
        star = np.array(pg.star(np.array([float(x) for x in k])), dtype=float)
        star = star.reshape(-1, 3)
        hit = {}
        for row in star:
            # must be an actual image
            m = [im for im in set(images) if max(abs(float(a) - b) for a, b in zip(im, row)) < 1e-9]
            if len(m) != 1:
                return {"ok": False, "key": "star:row_is_not_an_image", "detail": where + f" k={kname}{kk} row={row.tolist()}"}
            c = tuple(x % 1 for x in m[0])
            hit[c] = hit.get(c, 0) + 1
        if any(v > 1 for v in hit.values()):
            return {"ok": False, "key": "star:duplicate_image",
                    "detail": where + f" k={kname}{kk}: {len(star)} rows for {len(classes)} distinct images mod 1"}
        if len(hit) != len(classes):
            return {"ok": False, "key": "star:missing_image",
                    "detail": where + f" k={kname}{kk}: {len(star)} rows for {len(classes)} distinct images mod 1"}
        sizes[kname] = len(classes)
        if 1 < len(classes) < len(S):
            dedup = True
    return {"ok": True, "nontrivial": (("star", name, st, var, ln) if dedup else False),
            "obs": {"compatible": True, "order": len(S), "star_sizes": sizes}}


# ------------------------------------------------------------------------------------------------
# kind: spacegroup — PointGroup(spacegroup=...) keeps exactly the distinct (rotation, TR) parts
# ------------------------------------------------------------------------------------------------

def run_spacegroup(case):
    from wbmc import groups, structures
    from wannierberri.symmetry.point_symmetry import PointGroup
    name = case["structure"]
    sg = structures.get_spacegroup(name, spinor=case["spinor"])
    L = structures.lattice(name)
    Linv_T = np.linalg.inv(L).T
    ref = {}
    for s in sg.symmetries:
        R = L.T @ np.array(s.rotation, dtype=float) @ Linv_T
        ref[groups.element_key(R, bool(s.time_reversal))] = (R, bool(s.time_reversal))
    ref = list(ref.values())
    where = f"structure={name} spinor={case['spinor']} space-group operations={len(sg.symmetries)} distinct point parts={len(ref)}"
    pg = PointGroup(spacegroup=sg)
    idx = match_reference(pg.symmetries, ref)
    if idx is None or None in idx:
        return {"ok": False, "key": "PointGroup(spacegroup):element_not_in_spacegroup", "detail": where}
    if len(set(idx)) != len(idx):
        return {"ok": False, "key": "PointGroup:duplicate_elements", "detail": where + f" size={pg.size}"}
    if sorted(idx) != list(range(len(ref))):
        return {"ok": False, "key": "PointGroup(spacegroup):wrong_order", "detail": where + f" size={pg.size}"}
    if np.abs(pg.real_lattice - L).max() > 1e-12 or not pg.check_basis_symmetry(pg.real_lattice) or not pg.check_basis_symmetry(pg.recip_lattice):
        return {"ok": False, "key": "PointGroup(spacegroup):lattice", "detail": where}
    tab = mult_table(pg)
    n = pg.size
    if any(len(tab[i][j]) != 1 for i in range(n) for j in range(n)):
        return {"ok": False, "key": "PointSymmetry.__mul__/__eq__:closure", "detail": where}
    # a subset of operations generates the subgroup they span
    sub = list(range(0, len(sg.symmetries), 3))
    pgs = PointGroup(spacegroup=sg, use_symmetries_index=sub)
    els = {groups.element_key(np.eye(3), False): (np.eye(3), False)}
    front = list(els.values())
    g = []
    for i in sub:
        s = sg.symmetries[i]
        g.append((L.T @ np.array(s.rotation, dtype=float) @ Linv_T, bool(s.time_reversal)))
    while front:
        new = []
        for R, TR in front:
            for Rg, TRg in g:
                k = groups.element_key(Rg @ R, TRg != TR)
                if k not in els:
                    els[k] = (Rg @ R, TRg != TR)
                    new.append(els[k])
        front = new
    idxs = match_reference(pgs.symmetries, list(els.values()))
    if idxs is None or None in idxs or sorted(idxs) != list(range(len(els))):
        return {"ok": False, "key": "PointGroup(spacegroup):use_symmetries_index", "detail": where + f" subset size {pgs.size} expected {len(els)}"}
    return {"ok": True, "nontrivial": ("spacegroup", name, case["spinor"]), "obs": {"order": n, "subset_order": len(els)}}


# ------------------------------------------------------------------------------------------------
# kind: transform_product
# ------------------------------------------------------------------------------------------------

def run_transform_product():
    from wannierberri.symmetry.point_symmetry import TransformProduct, Transform
    names = ["ident", "odd", "odd_conj", "conj"]
    x = np.array([1 + 2j, -0.5 + 0.3j, 2 - 1j])
    y = np.array([0.7 - 1.1j, 1.5 + 0.2j, -1 - 3j])
    z = np.array([0.2 + 0.9j, -1.3 + 0.4j, 0.6 - 0.8j])
    count = 0
    for length in (1, 2, 3):
        for combo in itertools.product(names, repeat=length):
            ts = [real_transform(c) for c in combo]
            conj = [TRANSFORMS[c][1] for c in combo]
            try:
                tp = TransformProduct(ts)
            except ValueError:
                if len(set(conj)) == 1:
                    return {"ok": False, "key": "TransformProduct:refuses_valid", "detail": str(combo)}
                continue
            if len(set(conj)) != 1:
                return {"ok": False, "key": "TransformProduct:accepts_mixed_conjugation", "detail": str(combo)}
            args = [x, y, z][:length]
            prod = np.prod(args, axis=0)
            got = tp(prod.copy())
            want = np.prod([ref_apply(c, a) for c, a in zip(combo, args)], axis=0)
            if np.abs(got - want).max() > 1e-13:
                return {"ok": False, "key": "TransformProduct:wrong_product", "detail": f"{combo}: {got} vs {want}"}
            count += 1
    for bad in ("trans", "swap12"):
        try:
            TransformProduct([real_transform(bad), real_transform("ident")])
            return {"ok": False, "key": "TransformProduct:accepts_transposing", "detail": bad}
        except NotImplementedError:
            pass
    # the predefined objects mean what their names say
    for nm, (f, c, t, s, r, pre) in TRANSFORMS.items():
        tr = real_transform(nm)
        if (tr.factor, tr.conj, tr.transpose_axes, tr.swap_axes) != (f, c, t, s):
            return {"ok": False, "key": "Transform:predefined_object", "detail": nm}
        data = np.arange(27 * 2).reshape(2, 3, 3, 3) * (1 + 0.5j)
        got = tr(data.copy())
        if np.abs(got - ref_apply(nm, data)).max() > 0:
            return {"ok": False, "key": "Transform.__call__:differs_from_reference", "detail": nm}
    return {"ok": True, "nontrivial": ("transform_product", count), "obs": {"products": count}}


def run_case(case, seed):
    k = case["kind"]
    if k == "algebra":
        return run_algebra(case)
    if k == "tensor":
        return run_tensor(case, seed)
    if k == "lattice":
        return run_lattice(case)
    if k == "scalar0d":
        return run_scalar0d(case)
    if k == "spacegroup":
        return run_spacegroup(case)
    return run_transform_product()


def finish(tier, cases, results):
    gv = {(c["group"], c["setting"], c["variant"]) for c in cases if "group" in c}
    calls = sum(r.get("obs", {}).get("calls", 0) for r in results if r.get("obs"))
    pairs = sum(r.get("obs", {}).get("pairs", 0) for r in results if r.get("obs"))
    nonab = len({(c["group"], c["setting"], c["variant"]) for c, r in zip(cases, results)
                 if c.get("kind") == "tensor" and r.get("obs") and not r["obs"].get("abelian", True)})
    return {"axes": {"groups": len({g for g, _, _ in gv}), "group_variants": len(gv), "lattices": 8, "ranks": 4,
                     "k_points": len(K_ALPHABET), "meshes": len(NK_ALPHABET),
                     "transform_pairs_rank3": len(transform_pairs(3))},
            "multiplication_table_entries": pairs, "transform_tensor_calls": calls,
            "non_abelian_group_variants": nonab}
