"""C02 — all Fourier back ends agree; the Hamiltonian and its k-derivatives are Hermitian.

One case = (num_wann, R-set, centre pattern, lattice, NKFFT, dK).  Inside a case the complete product
back end {fftw, numpy, slow, k_list} x derivative order {0,1,2,3} x hermitian flag {False, True} is run
through the real `Data_K_R(system, dK, grid, fftlib)` / `Data_K_R(system, k_list=...)`:

  * `data.rvec.R_to_k(Ham_R, der, hermitian)`   (Wannier gauge, before rotation)
  * `data.HH_K`, `data.E_K`, `data.Xbar('Ham', der)` (after rotation with the code's own UU_K)

and judged against an independent explicit sum written here,
    X_ab,c1..cn(k) = sum_R  prod_j [ i (R + tau_b - tau_a)_cj ]  H_ab(R)  exp(2 pi i k.R),
evaluated at k = grid point + dK directly from the *system's* R-matrices (no FFT box, no aliasing, no
exp(dK) splitting).  Hermiticity in the band indices is checked for every Cartesian component on the
raw output (hermitian=False), where it is not enforced by the code.  A central finite difference of
the tau-phased Hamiltonian ties the reference (and the code) to the meaning "Cartesian k-derivative".
"""
import itertools

import numpy as np

ID = "C02"
LEVEL = "exploration"
RULE = ("cases = (num_wann, R-set, centre pattern, lattice, NKFFT, dK); each runs back end {fftw,numpy,slow,k_list} x "
        "der {0,1,2,3} x hermitian {F,T} on R_to_k plus HH_K/E_K/Xbar('Ham',der) and compares every k-point and every "
        "Cartesian component with the explicit-sum reference; non-trivial = more than one R-vector and at least one of: "
        "R-set aliases on the FFT box (NKFFT smaller than the R range), dK != 0, non-zero centre differences "
        "(derivative factors), more than one FFT point")
ASSUMPTIONS = [
    "zoo systems: num_wann 1-3, R-sets {R0, shell1, lopsided, cube2} (+shell2, chain in thorough) closed under R->-R, Hermitian "
    "Ham with generic entries seeded by VERIF_SEED; centres {zero, generic, outside} (+thirds, shared in thorough); lattices "
    "{sc, hex, fcc, tric} (+tet, orth, bcc, mono in thorough)",
    "FFT boxes up to 4 points per direction: (1,1,1),(2,1,1),(2,3,1),(3,3,3),(4,2,3); larger FFT sizes are not reached",
    "dK in {0, (1/4,0,0), generic (also negative / >1/NKFFT components)}",
    "R_to_k is linear in the data; generic complex Hermitian data + the product over R-sets is used, not an impulse basis "
    "(every R of the set carries non-zero data, so every placement on the FFT box is exercised)",
    "Xbar is compared using the code's own eigenvector matrix UU_K (checked to be unitary and to diagonalise the reference "
    "H), so eigenvector phase/degeneracy conventions are not judged",
]

BACKENDS = ("fftw", "numpy", "slow", "k_list")
DERS = (0, 1, 2, 3)
NKFFTS = ((1, 1, 1), (2, 1, 1), (2, 3, 1), (3, 3, 3), (4, 2, 3))
DKS = {"zero": (0.0, 0.0, 0.0), "quarter": (0.25, 0.0, 0.0), "generic": (0.123, -0.271, 0.389),
       "tiny": (3e-9, -7e-9, 5e-9)}      # non-zero but below any "is it zero" tolerance


def cases(tier, seed):
    if tier == "quick":
        nws, rsets, cens, lats = (1, 2, 3), ("R0", "shell1", "lopsided", "cube2"), ("zero", "generic", "outside"), ("sc", "hex", "fcc", "tric")
    else:
        nws = (1, 2, 3, 4)
        rsets = ("R0", "shell1", "lopsided", "cube2", "shell2", "chain")
        cens = ("zero", "generic", "outside", "thirds", "shared")
        lats = ("sc", "hex", "fcc", "tric", "tet", "orth", "bcc", "mono")
    for nk in NKFFTS:
        for dk in DKS:
            for rs in rsets:
                for nw in nws:
                    for cen in cens:
                        for lat in lats:
                            yield {"nw": nw, "rs": rs, "cen": cen, "lat": lat, "nkfft": list(nk), "dK": dk}
    # one Rvectors object re-used for a sequence of transforms (set_fft_R_to_k called again with another shift / library)
    for nk in ((2, 3, 1), (3, 3, 3)):
        for rs in ("shell1", "lopsided"):
            for lat in ("hex", "tric"):
                yield {"kind": "reuse", "nw": 2, "rs": rs, "cen": "generic", "lat": lat, "nkfft": list(nk),
                       "depth": 2 if tier == "quick" else 3}


def reference(system, kred, der):
    """explicit sum at the reduced k-points kred; shape (nk, nw, nw) + (3,)*der.  Built from the system's own R
    matrices and centres with plain loops over the Cartesian components."""
    iR = np.array(system.rvec.iRvec)
    H = np.array(system.get_R_mat("Ham"))
    L = np.array(system.real_lattice)
    tau = np.array(system.wannier_centers_cart)
    cR = iR @ L                                                       # (nR,3)
    D = cR[:, None, None, :] + tau[None, None, :, :] - tau[None, :, None, :]   # [R,a,b,c] = R + tau_b - tau_a
    ph = np.exp(2j * np.pi * (np.asarray(kred) @ iR.T))               # (nk,nR)
    nk = len(kred)
    nw = H.shape[1]
    out = np.zeros((nk, nw, nw) + (3,) * der, dtype=complex)
    for comp in itertools.product(range(3), repeat=der):
        X = H.copy()
        for c in comp:
            X = X * (1j * D[:, :, :, c])
        out[(slice(None),) * 3 + comp] = np.tensordot(ph, X, axes=(1, 0))
    return out


def h_tilde(system, kred_pts):
    """tau-phased Hamiltonian  exp(-i k.tau_a) H_ab(k) exp(i k.tau_b)  at reduced k-points (for finite differences)"""
    iR = np.array(system.rvec.iRvec)
    H = np.array(system.get_R_mat("Ham"))
    tred = np.array(system.wannier_centers_red)
    ph = np.exp(2j * np.pi * (kred_pts @ iR.T))
    Hk = np.tensordot(ph, H, axes=(1, 0))
    pt = np.exp(2j * np.pi * (kred_pts @ tred.T))                     # (nk, nw)
    return pt.conj()[:, :, None] * Hk * pt[:, None, :], pt


def scale_of(x):
    return max(1.0, float(np.abs(x).max()))


def run_reuse(case, seed):
    """every ordered sequence (depth 2 / 3) of (fftlib, dK) settings applied to ONE Rvectors object through repeated
    set_fft_R_to_k calls; after the last call the transforms must equal the explicit sum for the LAST setting"""
    import itertools
    from wbmc import zoo
    nw, rs, cen, lat = case["nw"], case["rs"], case["cen"], case["lat"]
    NK = tuple(case["nkfft"])
    s = zoo.make_system(nw, lat, rs, cen, seed=seed, matrices=("Ham",), tag="C02")
    settings = [(lib, dk) for lib in ("fftw", "numpy", "slow") for dk in DKS]
    grid_pts = np.array([[ix / NK[0], iy / NK[1], iz / NK[2]] for ix in range(NK[0]) for iy in range(NK[1]) for iz in range(NK[2])])
    refs = {dk: {d: reference(s, grid_pts + np.array(DKS[dk])[None, :], d) for d in (0, 1)} for dk in DKS}
    nseq = 0
    for seq in itertools.product(settings, repeat=case["depth"]):
        if len({dk for _, dk in seq}) < 2:
            continue            # only sequences in which the shift changes are new with respect to the plain cases
        rv = s.rvec.copy()
        for lib, dk in seq:
            rv.set_fft_R_to_k(NK=np.array(NK), num_wann=nw, fftlib=lib, dK=np.array(DKS[dk], dtype=float))
            outs = {d: np.array(rv.R_to_k(rv.apply_expdK(np.array(s.get_R_mat("Ham"))).copy(), der=d, hermitian=True)).copy() for d in (0, 1)}
        nseq += 1
        lib, dk = seq[-1]
        for d in (0, 1):
            ref = refs[dk][d]
            err = float(np.abs(outs[d] - ref).max())
            if err > 1e-10 * scale_of(ref):
                return {"ok": False, "key": "Rvectors:reuse:result_depends_on_previous_setting", "nontrivial": True,
                        "detail": f"nw={nw} rset={rs} lat={lat} NKFFT={NK}: after set_fft_R_to_k for {list(seq[:-1])} and then (fftlib={lib}, "
                                  f"dK={dk}) on the same Rvectors object, der={d} differs from the explicit sum by {err:.3g}"}
    return {"ok": True, "nontrivial": ("reuse", rs, lat, NK), "obs": {"sequences": nseq}}


def run_case(case, seed):
    if case.get("kind") == "reuse":
        return run_reuse(case, seed)
    from wbmc import zoo
    from wannierberri.grid import Grid
    from wannierberri.data_K.data_K_R import Data_K_R
    nw, rs, cen, lat = case["nw"], case["rs"], case["cen"], case["lat"]
    NK = tuple(case["nkfft"])
    dK = np.array(DKS[case["dK"]], dtype=float)
    s = zoo.make_system(nw, lat, rs, cen, seed=seed, matrices=("Ham",), tag="C02")
    ctx = f"nw={nw} rset={rs} cen={cen} lat={lat} NKFFT={NK} dK={case['dK']}"
    grid = Grid(s, NKdiv=1, NKFFT=np.array(NK))
    if tuple(grid.FFT) != NK:
        return {"ok": False, "key": "grid:FFT_changed", "detail": f"{ctx}: {grid.FFT}", "nontrivial": False}
    kpts = np.array([[ix / NK[0], iy / NK[1], iz / NK[2]] for ix in range(NK[0]) for iy in range(NK[1]) for iz in range(NK[2])]) + dK[None, :]
    iR = np.array(s.rvec.iRvec)
    alias = len({tuple(r) for r in (iR % np.array(NK)).tolist()}) < len(iR)
    refs = {d: reference(s, kpts, d) for d in DERS}
    H_before = np.array(s.get_R_mat("Ham")).copy()
    # Hermiticity of the reference itself (the premise: a Hermitian real-space model)
    for d in DERS:
        if np.abs(refs[d] - refs[d].swapaxes(1, 2).conj()).max() > 1e-12 * scale_of(refs[d]):
            return {"ok": False, "key": "harness:reference_not_hermitian", "detail": ctx, "nontrivial": False}

    datas = {}
    for b in BACKENDS:
        if b == "k_list":
            g1 = Grid(s, NKdiv=1, NKFFT=1)
            datas[b] = Data_K_R(s, k_list=kpts.copy(), grid=g1)
        else:
            datas[b] = Data_K_R(s, dK=dK.copy(), grid=grid, fftlib=b)
        got_k = np.array(datas[b].kpoints_all)
        if got_k.shape != kpts.shape or np.abs((got_k - kpts + 0.5) % 1 - 0.5).max() > 1e-12:
            return {"ok": False, "key": f"kpoints_all:{b}", "detail": f"{ctx}: k-points of the data object differ from grid+dK",
                    "nontrivial": False}

    # ---- raw transforms, every back end x der x hermitian flag
    for d in DERS:
        ref = refs[d]
        tol = 1e-10 * scale_of(ref)
        bad, herm_bad, outs = {}, {}, {}
        for b in BACKENDS:
            data = datas[b]
            for herm in (False, True):
                X = data.rvec.R_to_k(np.array(data.Ham_R).copy(), der=d, hermitian=herm)
                X = np.array(X)
                if X.shape != ref.shape:
                    return {"ok": False, "key": f"backend:{b}:shape", "nontrivial": False,
                            "detail": f"{ctx} der={d}: shape {X.shape} != {ref.shape}"}
                err = float(np.abs(X - ref).max())
                if err > tol:
                    bad.setdefault(b, (err, herm))
                if not herm:
                    outs[b] = X
                    he = float(np.abs(X - X.swapaxes(1, 2).conj()).max())
                    if he > tol:
                        herm_bad[b] = he
        if bad:
            names = "all" if len(bad) == len(BACKENDS) else "+".join(sorted(bad))
            b0 = sorted(bad)[0]
            return {"ok": False, "key": f"backend:{names}:der{d}" + (":aliased" if alias and names != "all" else ""),
                    "nontrivial": False,
                    "detail": f"{ctx} der={d}: max|X_backend - explicit sum| = " +
                              ", ".join(f"{b}:{e:.2e}(hermitian={h})" for b, (e, h) in sorted(bad.items())) +
                              f" tol={tol:.1e}; first failing back end {b0}"}
        if herm_bad:
            names = "all" if len(herm_bad) == len(BACKENDS) else "+".join(sorted(herm_bad))
            return {"ok": False, "key": f"hermiticity:{names}:der{d}", "nontrivial": False,
                    "detail": f"{ctx} der={d}: max|X - X^+| = {herm_bad}"}
        # pairwise agreement (implied by the reference, stated for the evidence)
        for b1, b2 in itertools.combinations(BACKENDS, 2):
            if np.abs(outs[b1] - outs[b2]).max() > 2 * tol:
                return {"ok": False, "key": f"pairwise:{b1}:{b2}:der{d}", "detail": ctx, "nontrivial": False}

    # ---- HH_K, E_K, Xbar after rotation
    for b in BACKENDS:
        data = datas[b]
        HH = np.array(data.HH_K)
        tol0 = 1e-10 * scale_of(refs[0])
        if np.abs(HH - refs[0]).max() > tol0:
            return {"ok": False, "key": f"HH_K:{b}", "nontrivial": False,
                    "detail": f"{ctx}: max|HH_K - explicit sum| = {np.abs(HH - refs[0]).max():.2e}"}
        if np.abs(HH - HH.swapaxes(1, 2).conj()).max() > tol0:
            return {"ok": False, "key": f"hermiticity:HH_K:{b}", "detail": ctx, "nontrivial": False}
        E = np.array(data.E_K)
        Eref = np.linalg.eigvalsh(refs[0])
        if np.abs(E - Eref).max() > 1e-9 * scale_of(Eref):
            return {"ok": False, "key": f"E_K:{b}", "detail": f"{ctx}: {np.abs(E - Eref).max():.2e}", "nontrivial": False}
        U = np.array(data.UU_K)
        if np.abs(np.einsum("kba,kbc->kac", U.conj(), U) - np.eye(nw)[None]).max() > 1e-10:
            return {"ok": False, "key": f"UU_K:not_unitary:{b}", "detail": ctx, "nontrivial": False}
        for d in DERS:
            Xb = np.array(data.Xbar("Ham", d))
            want = np.einsum("kba,kbc...,kcd->kad...", U.conj(), refs[d], U)
            tol = 1e-9 * scale_of(refs[d])
            if Xb.shape != want.shape or np.abs(Xb - want).max() > tol:
                return {"ok": False, "key": f"Xbar:Ham:{b}:der{d}", "nontrivial": False,
                        "detail": f"{ctx}: max|Xbar - U^+ X_ref U| = {np.abs(Xb - want).max():.2e}"}
            if np.abs(Xb - Xb.swapaxes(1, 2).conj()).max() > tol:
                return {"ok": False, "key": f"hermiticity:Xbar:{b}:der{d}", "detail": ctx, "nontrivial": False}
            if d == 0:
                off = Xb - np.einsum("kn,nm->knm", E, np.eye(nw))
                if np.abs(off).max() > 1e-9 * scale_of(E):
                    return {"ok": False, "key": f"Xbar:Ham:{b}:not_diagonal", "detail": ctx, "nontrivial": False}

    # ---- the system's matrices must not have been modified by the transforms (R_to_k destroys its input)
    if np.abs(np.array(s.get_R_mat("Ham")) - H_before).max() != 0:
        return {"ok": False, "key": "system:Ham_R_modified", "detail": ctx, "nontrivial": False}

    # ---- finite differences: ties "der" to the Cartesian k-derivative of the tau-phased Hamiltonian
    if NK in ((1, 1, 1), (2, 1, 1)):
        recip = 2 * np.pi * np.linalg.inv(np.array(s.real_lattice)).T        # rows b_i ; k_cart = k_red @ recip
        to_red = np.linalg.inv(recip)                                       # dk_red = dk_cart @ to_red
        h = 1e-4
        H0t, pt = h_tilde(s, kpts)
        for d in (1, 2):
            got = datas["k_list"].rvec.R_to_k(np.array(datas["k_list"].Ham_R).copy(), der=d, hermitian=False)
            for c in range(3):
                e = np.zeros(3)
                e[c] = h
                if d == 1:
                    Hp, _ = h_tilde(s, kpts + (e @ to_red)[None])
                    Hm, _ = h_tilde(s, kpts - (e @ to_red)[None])
                    fd = (Hp - Hm) / (2 * h)
                    g = got[..., c]
                else:
                    Hp, _ = h_tilde(s, kpts + (e @ to_red)[None])
                    Hm, _ = h_tilde(s, kpts - (e @ to_red)[None])
                    fd = (Hp - 2 * H0t + Hm) / h ** 2
                    g = got[..., c, c]
                g_t = pt.conj()[:, :, None] * g * pt[:, None, :]
                sc = scale_of(refs[d + 1] if d < 3 else refs[d])
                lim = (1e-6 if d == 1 else 1e-4) * max(sc, scale_of(refs[3]))
                if np.abs(fd - g_t).max() > lim:
                    return {"ok": False, "key": f"finite_difference:der{d}", "nontrivial": False,
                            "detail": f"{ctx} component {c}: |FD - der| = {np.abs(fd - g_t).max():.2e} (limit {lim:.1e})"}

    nt = (len(iR) > 1) and (alias or case["dK"] != "zero" or (cen != "zero" and nw > 1) or int(np.prod(NK)) > 1)
    return {"ok": True, "nontrivial": bool(nt), "obs": {"nR": int(len(iR)), "alias": bool(alias), "nk": int(len(kpts))}}


def finish(tier, cases, results):
    ax = {}
    for k in ("nw", "rs", "cen", "lat", "dK"):
        ax[k] = len({c[k] for c in cases})
    ax["nkfft"] = len({tuple(c["nkfft"]) for c in cases})
    n_alias = sum(1 for r in results if (r.get("obs") or {}).get("alias"))
    ncmp = len(cases) * len(BACKENDS) * len(DERS) * 2
    return {"axes": ax, "backends": list(BACKENDS), "derivative_orders": list(DERS), "aliased_cases": n_alias,
            "backend_x_der_x_flag_comparisons": ncmp}
