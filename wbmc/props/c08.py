"""C08 — declared time-reversal / inversion parities of every k-resolved formula match computed values.

For every formula class found by introspection of formula/covariant.py, formula/basic.py, formula/sdct.py and
calculators/dynamic.py (plus every entry of the parity table data_K.get_transform_TR/Inv, and every dynamic /
SDCT calculator with its own declaration) the value at -k is compared with the declared transformation
applied (by the real `Transform.__call__`) to the value at k, on models whose time-reversal / inversion
symmetry was built by hand (wbmc/symmodels.py) or is known (bundled models) and was verified at matrix level
with a library-independent Fourier sum before use.  One Data_K object holds the two points (k_list=[k,-k]).
"""
import inspect

import numpy as np

ID = "C08"
LEVEL = "exploration"
RULE = ("cases = (symmetry in {TR, Inv}) x (model alphabet) x (k alphabet) x (formula class | parity-table name | "
        "dynamic calculator class); each case runs every constructor variant (internal/external/cross terms, OO_uIu, "
        "FF_rotAA, CCab_antisym, sign, spin_current_type, SDCT term switches, sym/asym) x every band group "
        "(each degenerate group with the rest as 'out', every lower set [0,b), every ordered pair of groups for "
        "two-index formulas) and compares value(-k) with T_declared(value(k)); a case is non-trivial when at least "
        "one compared value is >1e-4 of the formula's matrix-element scale, so that a wrong sign would be visible; "
        "non-trivial keys are (class, symmetry)")
ASSUMPTIONS = [
    "models: hand-symmetrised generic systems (1-3 orbitals, spinless and spinor, triclinic/monoclinic lattices, centres at "
    "the origin or on inversion centres with parities) and bundled KaneMele / Haldane(delta=0) / Chiral(phi=0); k alphabet of 5 points",
    "k points where two band groups are closer than 1e-2 but not degenerate (<1e-8) are skipped (ties)",
    "values are compared as the calculators consume them: real trace over a band group (Formula_ln.trace) or "
    "trace_ln over a pair of groups; gauge-dependent blocks (ln/nl) are not compared",
    "at k points with an exactly degenerate group (Kramers pairs at TRIM, PT-symmetric models) a formula that is not "
    "invariant under unitary mixing inside the group (shift/injection current, 'qiao' spin current, SDCT sea terms) has no "
    "well-defined value; there the comparison is repeated with the eigenvectors at -k chosen as the symmetry image of "
    "those at k (u(-k)=U u(k)*, resp. D u(k)) and only a failure in that gauge too is a violation; such classes are listed "
    "in coverage.gauge_dependent_at_exact_degeneracy (gauge independence itself is C04's subject)",
    "helper classes without a declaration (Der2A, tildeFab, Dcov, ...) are only checked to be unusable in a "
    "symmetrised result (transform_tensor raises on None)",
    "premise H(-k)=U H(k)* U+ / H(-k)=D H(k) D and the analogous relations for every other matrix are verified to 1e-10",
    "tolerance 1e-8 relative to an explicit scale: formula level max(1, largest |nn| / |trace_ln| entry at the two points); "
    "calculator level (sum over band pairs of |factor_omega||factor_Efermi| at the k point) x (largest single matrix element over the "
    "k alphabet of the model and of its symmetry-broken sibling), because both the energy factors and the matrix elements "
    "can vanish by symmetry at the point under test",
    "constructor / evaluation exceptions are skipped only when they mean 'this model lacks the matrices / the class has no such "
    "knob / combination not implemented'; any other exception is a failure",
]

TOL = 1e-8
INFRA = {"Formula", "Formula_ln", "Matrix_ln", "Matrix_GenDer_ln", "FormulaProduct", "FormulaSum", "DeltaProduct",
         "Formula_SDCT", "FormulaAntiSymmetric", "FormulaSymmetric"}
K_ALPHABET = {"G": (0, 0, 0), "X": (0.5, 0, 0), "third": (1 / 3., 1 / 3., 0), "gen": (0.123, -0.271, 0.389),
              "gen2": (0.31, 0.47, -0.09)}
TABLE_NAMES = ("Ham", "AA", "BB", "CC", "CCab", "OO", "GG", "FF", "SS", "rotAA", "rotAAab", "CCab_antisym", "D",
               "SH", "SA", "SHA", "SR", "SHR")

# model alphabet: name -> (symmetries it has, builder kwargs)
MODELS_QUICK = {
    "T_spinless3": ("TR",), "T_spinor2": ("TR",), "KaneMele": ("TR",),
    "I_spinless3": ("Inv",), "I_half3": ("Inv",), "I_spinor2": ("Inv",),
    "IT_spinor2": ("TR", "Inv"), "Haldane_d0": ("Inv",),
}
MODELS_THOROUGH = dict(MODELS_QUICK)
MODELS_THOROUGH.update({"T_spinless2_mono": ("TR",), "T_spinor3": ("TR",), "Chiral_TR": ("TR",),
                        "I_spinless2_mono": ("Inv",), "I_spinor3": ("Inv",), "IT_spinless3": ("TR", "Inv"),
                        "T_spinless4_shell2": ("TR",), "I_spinless4_shell2": ("Inv",)})

_CACHE = {}


# ----------------------------------------------------------------------------------------------
# models
# ----------------------------------------------------------------------------------------------

def build_model(name, seed):
    """returns (system, dict(ok, worst, where, spinor, sym)) ; the premise is verified here"""
    key = (name, seed)
    if key in _CACHE:
        return _CACHE[key]
    import wannierberri as wb
    from wannierberri import models
    from wbmc import symmodels as sm
    from wbmc.engine import quiet
    syms = MODELS_THOROUGH[name]
    group = [sm.GEN["E"]] + [sm.GEN["T" if s == "TR" else "I"] for s in syms]
    D_of = None
    par = None
    nw_orb = None
    spinor = False
    with quiet():
        if name == "KaneMele":
            s = wb.system.System_R.from_pythtb(models.KaneMele_ptb("odd"), spin=True)
            spinor, nw_orb = True, 2
        elif name == "Chiral_TR":
            s = wb.system.System_R.from_pythtb(models.Chiral(phi=0, hopz_left=0.2, hopz_right=0.05))
            nw_orb = 2
        elif name == "Haldane_d0":
            s = wb.system.System_R.from_tbmodels(models.Haldane_tbm(delta=0.0, hop2=0.15, phi=np.pi / 3))
            nw_orb = 2
            sx = np.array([[0, 1], [1, 0]], dtype=complex)

            def D_of(O, tr):
                return sx if np.linalg.det(O) < 0 else np.eye(2, dtype=complex)
        else:
            spec = {
                "T_spinless3": dict(nw_orb=3, lat="tric", rs="shell1", gens=("T",)),
                "T_spinless2_mono": dict(nw_orb=2, lat="mono", rs="shell2", gens=("T",)),
                "T_spinless4_shell2": dict(nw_orb=4, lat="tric", rs="shell2", gens=("T",)),
                "T_spinor2": dict(nw_orb=2, lat="tric", rs="shell1", gens=("T",), spinor=True, matrices=sm.ALL_SPINOR),
                "T_spinor3": dict(nw_orb=3, lat="mono", rs="shell1", gens=("T",), spinor=True, matrices=sm.ALL_SPINOR),
                "I_spinless3": dict(nw_orb=3, lat="tric", rs="shell1", gens=("I",), parities=[1, -1, 1]),
                "I_spinless2_mono": dict(nw_orb=2, lat="mono", rs="shell2", gens=("I",), parities=[1, -1]),
                "I_spinless4_shell2": dict(nw_orb=4, lat="tric", rs="shell2", gens=("I",), parities=[1, -1, -1, 1]),
                "I_half3": dict(nw_orb=3, lat="tric", rs="shell2", gens=("I",), parities=[1, -1, 1], cen="half"),
                "I_spinor2": dict(nw_orb=2, lat="tric", rs="shell1", gens=("I",), parities=[1, -1], spinor=True,
                                  matrices=sm.ALL_SPINOR),
                "I_spinor3": dict(nw_orb=3, lat="mono", rs="shell1", gens=("I",), parities=[-1, 1, 1], spinor=True,
                                  matrices=sm.ALL_SPINOR),
                "IT_spinor2": dict(nw_orb=2, lat="tric", rs="shell1", gens=("I", "T"), parities=[1, -1], spinor=True,
                                   matrices=sm.ALL_SPINOR),
                "IT_spinless3": dict(nw_orb=3, lat="tric", rs="shell1", gens=("I", "T"), parities=[1, -1, 1]),
            }[name]
            s, info = sm.hand_system(seed=seed, tag=name, set_group=False, **spec)
            par, nw_orb, spinor = info["parities"], info["nw_orb"], info["spinor"]
            sib, _ = sm.hand_system(seed=seed, tag=name, set_group=False, **dict(spec, gens=()))
        if name in ("KaneMele", "Chiral_TR", "Haldane_d0"):
            sib = sm.perturbed_copy(s, seed, name)
    ok, worst, where = sm.verify_symmetry(s, group, nw_orb, spinor, par, D_of=D_of, tol=1e-10)
    # a model that should break the other symmetry must really break it (otherwise odd quantities vanish)
    broken = {}
    for other in ("TR", "Inv"):
        if other not in syms:
            O, tr = sm.GEN["T" if other == "TR" else "I"]
            broken[other] = bool(sm.is_broken(s, O, tr, nw_orb, spinor, par, D_of=D_of))
    rep = {}
    for sy in syms:
        O, tr = sm.GEN["T" if sy == "TR" else "I"]
        rep[sy] = D_of(O, tr) if D_of is not None else sm._orbital_D(O, tr, nw_orb, spinor, par)
    # `sibling`: the same generic matrices without the symmetry projection; only used for scales (a quantity may vanish
    # identically, element by element, in the symmetric model: shift current under PT ...)
    meta = dict(ok=bool(ok), worst=float(worst), where=where, spinor=spinor, syms=syms, broken=broken, rep=rep, sibling=sib)
    _CACHE[key] = (s, meta)
    return s, meta


# ----------------------------------------------------------------------------------------------
# enumeration of formula classes by introspection
# ----------------------------------------------------------------------------------------------

def formula_classes():
    from wannierberri.formula import covariant, basic, sdct
    from wannierberri.formula.formula import Formula
    from wannierberri.calculators import dynamic
    out = {}
    for mod in (covariant, basic, sdct, dynamic):
        for nm, obj in sorted(vars(mod).items()):
            if inspect.isclass(obj) and issubclass(obj, Formula) and nm == obj.__name__:
                out.setdefault(nm, obj)
    return out


def dynamic_calculators():
    from wannierberri.calculators import dynamic, sdct
    from wannierberri.calculators.dynamic import DynamicCalculator
    out = {}
    for mod in (dynamic, sdct):
        for nm, obj in sorted(vars(mod).items()):
            if (inspect.isclass(obj) and issubclass(obj, DynamicCalculator) and obj is not DynamicCalculator
                    and not nm.startswith("_") and not inspect.isabstract(obj)):
                out.setdefault(nm, obj)
    return out


def _accepts_kwargs(cls):
    try:
        sig = inspect.signature(cls.__init__)
    except (TypeError, ValueError):
        return False
    return any(p.kind == p.VAR_KEYWORD for p in sig.parameters.values())


def _params(cls):
    try:
        return set(inspect.signature(cls.__init__).parameters)
    except (TypeError, ValueError):
        return set()


TERM_VARIANTS = [("default", {}), ("internal_only", {"external_terms": False}),
                 ("external_only", {"internal_terms": False}), ("OO_uIu", {"OO_uIu": True}),
                 ("FF_rotAA", {"FF_rotAA": True}), ("CCab_antisym", {"CCab_antisym": True})]


def variants(name, cls):
    """list of (label, constructor(data_K)) for one formula class; introspection decides which knobs exist"""
    pars = _params(cls)
    base = [("default", {})]
    if _accepts_kwargs(cls) and name not in ("InjectionCurrentFormula",):
        base = list(TERM_VARIANTS)
    extra = [("", {})]
    if "sign" in pars:
        extra = [("sign+1", {"sign": +1}), ("sign-1", {"sign": -1}), ("sign0", {"sign": 0})]
    if "spin_current_type" in pars:
        extra = [(t, {"spin_current_type": t}) for t in ("simple", "ryoo", "qiao")]
    if "SHC_type" in pars:
        extra = [(t, {"SHC_type": t}) for t in ("simple", "ryoo", "qiao")]
        extra.append(("ryoo_abc", {"SHC_type": "ryoo", "shc_abc": (1, 2, 3)}))
    if "sc_eta" in pars:
        extra = [("eta0.04", {"sc_eta": 0.04})]
    if "sym" in pars:       # SDCT formulas
        terms = [("all", dict(M1_terms=True, E2_terms=True, V_terms=True, S_terms=True)),
                 ("M1", dict(M1_terms=True, E2_terms=False, V_terms=False, S_terms=False)),
                 ("E2", dict(M1_terms=False, E2_terms=True, V_terms=False, S_terms=False)),
                 ("V", dict(M1_terms=False, E2_terms=False, V_terms=True, S_terms=False)),
                 ("S", dict(M1_terms=False, E2_terms=False, V_terms=False, S_terms=True)),
                 ("noS", dict(M1_terms=True, E2_terms=True, V_terms=True, S_terms=False))]
        extra = [(f"sym{int(sy)}:{tn}", dict(sym=sy, **tv)) for sy in (True, False) for tn, tv in terms]
        base = [("default", {}), ("internal_only", {"external_terms": False}), ("OO_uIu", {"OO_uIu": True})]
    out = []
    for bl, bk in base:
        for el, ek in extra:
            kw = dict(bk)
            kw.update(ek)
            if name == "SpinVelocity":
                # positional signature (data_K, spin_current_type, external_terms)
                if set(kw) - {"spin_current_type", "external_terms"}:
                    continue
            label = bl + (":" + el if el else "")
            out.append((label, kw))
    # dedupe
    seen, res = set(), []
    for label, kw in out:
        k = repr(sorted(kw.items()))
        if k not in seen:
            seen.add(k)
            res.append((label, kw))
    return res


# ----------------------------------------------------------------------------------------------
# cases
# ----------------------------------------------------------------------------------------------

def cases(tier, seed):
    models = MODELS_QUICK if tier == "quick" else MODELS_THOROUGH
    fcls = formula_classes()
    dcal = dynamic_calculators()
    yield {"kind": "none_raises"}
    for m, syms in models.items():
        yield {"kind": "premise", "model": m}
    targets = ([("table", n) for n in TABLE_NAMES] + [("formula", n) for n in fcls if n not in INFRA] +
               [("dyncalc", n) for n in dcal])
    for sym in ("TR", "Inv"):
        for m, syms in models.items():
            if sym not in syms:
                continue
            for kname in K_ALPHABET:
                for kind, n in targets:
                    yield {"kind": kind, "name": n, "sym": sym, "model": m, "k": kname}


# ----------------------------------------------------------------------------------------------
# evaluation
# ----------------------------------------------------------------------------------------------

def make_data_K(system, k, image=None):
    from wannierberri.grid import Grid
    from wannierberri.data_K import get_data_k_class_from_system
    cls = get_data_k_class_from_system(system)
    if "grid" not in _CACHE.setdefault("grids", {}) or _CACHE["grids"].get("sys") is not system:
        _CACHE["grids"] = {"grid": Grid(system=system, NK=1, NKFFT=1), "sys": system}
    k = np.array(k, dtype=float)
    d = cls(system, grid=_CACHE["grids"]["grid"], k_list=np.array([k, -k]))
    if image is not None:
        # eigenvectors at -k := image of the eigenvectors at k (u(-k) = U u(k)^* resp. D u(k)); legitimate
        # eigenvectors of H(-k) because the premise H(-k) = U H(k)^* U^+ (resp. D H(k) D^+) was verified
        sym, rep = image
        d.E_K
        d._UU[1] = rep @ (d._UU[0].conj() if sym == "TR" else d._UU[0])
    return d


def band_groups(E1, E2):
    """chain-linked groups; None when a gap is in the ambiguous window or the two spectra differ"""
    if np.abs(E1 - E2).max() > 1e-8 * max(1.0, np.abs(E1).max()):
        return "spectrum"
    groups = [[0]]
    for i in range(1, len(E1)):
        gap = E1[i] - E1[i - 1]
        if gap < 1e-8:
            groups[-1].append(i)
        elif gap > 1e-2:
            groups.append([i])
        else:
            return "tie"
    return [(g[0], g[-1] + 1) for g in groups]


def apply_T(T, v):
    a = np.array(v, dtype=complex if np.iscomplexobj(v) else float)[None].copy()
    return T(a)[0]


def compare(v1, v2, T, scale):
    """returns (err/scale, discriminating)"""
    v1 = np.asarray(v1)
    v2 = np.asarray(v2)
    exp = apply_T(T, v1)
    err = float(np.abs(np.asarray(v2) - exp).max())
    disc = float(np.abs(v1).max()) > 1e-4 * scale
    return err / scale, disc


def sym_of(sym):
    return "transformTR" if sym == "TR" else "transformInv"


MISSING = (KeyError, NotImplementedError)


def memo_nn(f):
    """trace() calls nn() again; keep one evaluation per (ik, inn) (copies are handed out)"""
    orig = f.nn
    store = {}

    def nn(ik, inn, out):
        key = (int(ik), tuple(int(i) for i in inn))
        if key not in store:
            store[key] = np.array(orig(ik, inn, out))
        return store[key].copy()
    f.nn = nn
    return f


def check_formula_ln(f, T, groups, nb):
    """Formula_ln: trace over each group (out = rest) and over every lower set"""
    f = memo_nn(f)
    worst, ndisc, ncmp, where = 0.0, 0, 0, None
    sets = []
    for a, b in groups:
        sets.append((np.arange(a, b), np.concatenate((np.arange(0, a), np.arange(b, nb)))))
    for a, b in groups[:-1]:
        sets.append((np.arange(0, b), np.arange(b, nb)))
    for inn, out in sets:
        inn = np.array(inn)
        out = np.array(out)
        n1 = np.asarray(f.nn(0, inn, out))
        n2 = np.asarray(f.nn(1, inn, out))
        scale = max(1.0, float(np.abs(n1).max()), float(np.abs(n2).max()))
        v1 = f.trace(0, inn, out)
        v2 = f.trace(1, inn, out)
        e, d = compare(v1, v2, T, scale)
        ncmp += 1
        ndisc += d
        if e > worst:
            worst, where = e, (inn.tolist(), np.round(np.asarray(v1), 6).tolist(), np.round(np.asarray(v2), 6).tolist())
    return worst, ndisc, ncmp, where


def check_formula_pairs(f, T, groups):
    worst, ndisc, ncmp, where = 0.0, 0, 0, None
    vals = {}
    for g1 in groups:
        for g2 in groups:
            vals[(g1, g2)] = (np.asarray(f.trace_ln(0, np.arange(*g1), np.arange(*g2))),
                              np.asarray(f.trace_ln(1, np.arange(*g1), np.arange(*g2))))
    scale = max([1.0] + [float(np.abs(v).max()) for pair in vals.values() for v in pair])
    for (g1, g2), (v1, v2) in vals.items():
        e, d = compare(v1, v2, T, scale)
        ncmp += 1
        ndisc += d
        if e > worst:
            worst, where = e, ([g1, g2], np.round(v1, 6).tolist(), np.round(v2, 6).tolist())
    return worst, ndisc, ncmp, where


def fail(key, case, label, worst, where, meta):
    return {"ok": False, "key": key, "nontrivial": (case.get("name"), case.get("sym")),
            "detail": f"model={case['model']} k={K_ALPHABET[case['k']]} variant={label} sym={case['sym']} "
                      f"|value(-k)-T(value(k))|/scale={worst:.3e} at (bands, value(k), value(-k))={where} "
                      f"(premise verified to {meta['worst']:.1e})"}


def run_case(case, seed):
    kind = case["kind"]
    if kind == "none_raises":
        return run_none_raises()
    system, meta = build_model(case["model"], seed)
    if kind == "premise":
        if not meta["ok"]:
            return {"ok": False, "key": f"premise:{case['model']}",
                    "detail": f"hand-built model is not symmetric: {meta['worst']:.2e} at {meta['where']}"}
        if not all(meta["broken"].values()):
            return {"ok": False, "key": f"premise_not_broken:{case['model']}", "detail": str(meta["broken"])}
        return {"ok": True, "nontrivial": ("premise", case["model"]), "obs": {"worst": meta["worst"], "broken": meta["broken"]}}
    if not meta["ok"]:
        return {"ok": True, "nontrivial": False, "obs": "premise failed (reported by the premise case)"}
    sym = case["sym"]
    k = K_ALPHABET[case["k"]]
    d0 = make_data_K(system, k)
    groups = band_groups(d0.E_K[0], d0.E_K[1])
    if isinstance(groups, str):
        if groups == "spectrum":
            return {"ok": False, "key": f"spectrum:{sym}", "detail": f"E(k)!=E(-k) model={case['model']} k={k}"}
        return {"ok": True, "nontrivial": False, "obs": "tie"}
    nb = system.num_wann
    if kind == "table":
        return run_table(case, system, meta, groups, nb, k)
    if kind == "formula":
        return run_formula(case, system, meta, groups, nb, k)
    return run_dyncalc(case, system, meta, groups, nb, k)


def run_none_raises():
    from wannierberri.symmetry.point_symmetry import TimeReversal, Inversion
    from wannierberri.result import EnergyResult
    bad = []
    for symop, nm in ((TimeReversal, "TR"), (Inversion, "Inv")):
        try:
            symop.transform_tensor(np.ones((2, 3)), 1, transformTR=None, transformInv=None)
            bad.append("transform_tensor:" + nm)
        except TypeError:
            pass
        try:
            EnergyResult(np.array([0., 1.]), np.ones((2, 3)), transformTR=None, transformInv=None).transform(symop)
            bad.append("EnergyResult.transform:" + nm)
        except TypeError:
            pass
    if bad:
        return {"ok": False, "key": "undeclared_transform_passes_silently", "detail": str(bad)}
    return {"ok": True, "nontrivial": "none_raises"}


def skippable(e):
    """exceptions that only mean 'this model / this variant cannot feed the formula' (missing matrices, a knob the class
    does not have, an explicitly unimplemented combination).  Anything else (NameError, AttributeError, shape errors ...)
    is not swallowed: a formula that cannot be built is not a formula that was checked."""
    msg = str(e)
    if isinstance(e, NotImplementedError):
        return True
    if isinstance(e, (ValueError, KeyError)) and ("not set in the system" in msg or "are required" in msg):
        return True
    if isinstance(e, KeyError):
        return True
    if isinstance(e, TypeError) and ("unexpected keyword" in msg or "multiple values" in msg or "positional argument" in msg):
        return True
    if isinstance(e, ValueError) and ("parity under" in msg):
        return True
    return False


def has_degenerate(groups):
    return any(b - a > 1 for a, b in groups)


def judged(build, sym, meta, system, k, groups, nb):
    """evaluate one formula variant in the library's own gauge; when the k point carries an exactly degenerate
    group and the comparison fails, repeat with the eigenvectors at -k chosen as the symmetry image of those
    at k.  Returns (status, worst, ndisc, ncmp, where) with status in ok / gauge / fail / skip:<why> / undeclared"""
    last = None
    for image in (None, (sym, meta["rep"][sym])):
        d = make_data_K(system, k, image=image)
        try:
            f = build(d)
        except Exception as e:     # matrices this model does not have, unsupported combinations
            if not skippable(e):
                raise
            return ("skip:" + type(e).__name__, 0.0, 0, 0, None)
        T = getattr(f, sym_of(sym), None)
        if T is None:
            return ("undeclared", 0.0, 0, 0, None)
        try:
            if hasattr(f, "trace_ln"):
                worst, ndisc, n, where = check_formula_pairs(f, T, groups)
            else:
                worst, ndisc, n, where = check_formula_ln(f, T, groups, nb)
        except MISSING as e:
            return ("skip:eval:" + type(e).__name__, 0.0, 0, 0, None)
        if worst <= TOL:
            return ("ok" if image is None else "gauge", worst, ndisc, n, where)
        if last is None:
            last = (worst, ndisc, n, where)
        if not has_degenerate(groups):
            break
    return ("fail",) + last


def run_table(case, system, meta, groups, nb, k):
    from wannierberri.data_K import data_K as dk
    name, sym = case["name"], case["sym"]
    getter = dk.get_transform_TR if sym == "TR" else dk.get_transform_Inv
    nd = ncmp = 0
    skipped, gauge = [], []
    for mode, orders in (("commader", (0, 1, 2, 3)), ("gender", (1,))):
        for der in orders:
            try:
                T = getter(name, der)
            except ValueError:
                return {"ok": True, "nontrivial": False, "obs": "unknown to the table"}
            if T is None:
                return {"ok": True, "nontrivial": False, "obs": "declared None"}

            def build(d, mode=mode, der=der):
                f = d.covariant(name, commader=der) if mode == "commader" else d.covariant(name, gender=der)
                f.nn(0, np.arange(0, 1), np.arange(1, nb))
                return f
            status, worst, ndisc, n, where = judged(build, sym, meta, system, k, groups, nb)
            if status.startswith("skip") or status == "undeclared":
                skipped.append(f"{mode}{der}:{status}")
                continue
            ncmp += n
            nd += ndisc
            if status == "gauge":
                gauge.append(f"{mode}{der}")
            if status == "fail":
                return fail(f"get_transform_{sym}:{name}", case, f"{mode}={der}", worst, where, meta)
    return {"ok": True, "nontrivial": ((name, sym) if nd else False),
            "obs": {"cmp": ncmp, "disc": nd, "skipped": skipped, "gauge": gauge}}


def run_formula(case, system, meta, groups, nb, k):
    name, sym = case["name"], case["sym"]
    cls = formula_classes()[name]
    nd = ncmp = 0
    skipped, gauge, undeclared = [], [], False
    for label, kw in variants(name, cls):
        def build(d, kw=kw):
            if name == "SpinVelocity":
                return cls(d, kw.get("spin_current_type", "simple"), external_terms=kw.get("external_terms", True))
            return cls(d, **kw)
        status, worst, ndisc, n, where = judged(build, sym, meta, system, k, groups, nb)
        if status == "undeclared":
            undeclared = True
            continue
        if status.startswith("skip"):
            skipped.append(f"{label}:{status}")
            continue
        ncmp += n
        nd += ndisc
        if status == "gauge":
            gauge.append(label)
        if status == "fail":
            return fail(f"parity:{name}:{sym}", case, label, worst, where, meta)
    return {"ok": True, "nontrivial": ((name, sym) if nd else False),
            "obs": {"cmp": ncmp, "disc": nd, "skipped": skipped, "undeclared": undeclared, "gauge": gauge}}


def calc_variants(name, cls, emin=-1.0, emax=1.5):
    pars = set()
    for c in cls.__mro__:
        pars |= _params(c)
    w = emax - emin
    kw0 = dict(Efermi=emin + w * np.array([-0.07, 0.31, 0.52, 1.09]) + 0.0123, omega=w * np.array([0.11, 0.47, 0.93]) + 0.0101,
               kBT=0.05, smr_fixed_width=0.12)
    out = [("Lorentzian", dict(kw0))]
    out.append(("Gaussian", dict(kw0, smr_type="Gaussian")))
    if "sc_eta" in pars:
        out = [(l, dict(kw, sc_eta=0.04)) for l, kw in out]
    if "SHC_type" in pars:
        out = [(f"{l}:{t}", dict(kw, SHC_type=t)) for l, kw in out for t in ("simple", "ryoo", "qiao")]
    if "S_terms" in pars:
        out = [(f"{l}:S{int(s)}", dict(kw, S_terms=s)) for l, kw in out[:1] for s in (False, True)]
    ext = []
    for l, kw in out:
        ext.append((l, kw))
        ext.append((l + ":internal_only", dict(kw, kwargs_formula={"external_terms": False})))
    return ext


def natural_scale(calc, d, d_alphabet):
    """(sum over band pairs of |factor_omega| |factor_Efermi| at this k, through the real __call__ loop)
       x (largest single matrix element |trace_ln(ik,[m],[n])| over the k alphabet of the model).
    This is the scale on which a component that vanishes by symmetry is rounding noise: the energy factors and the
    matrix elements are separated because either of them may be tiny / vanish by symmetry at the k point under test
    (band velocities at a TRIM, sums over Kramers partners, Gaussian weights far from a transition)."""
    import copy
    F = calc.Formula
    kwf = dict(calc.kwargs_formula)
    M = 0.0
    for dd in d_alphabet:
        f = F(data_K=dd, **kwf)
        nb = dd.num_wann
        for ik in range(dd.nk):
            for m in range(nb):
                for n in range(nb):
                    M = max(M, float(np.abs(f.trace_ln(ik, np.array([m]), np.array([n]))).max()))
    c2 = copy.copy(calc)

    class OnesFormula:
        def __init__(self, data_K, **kw):
            self.f = F(data_K, **kw)
            self.ndim = self.f.ndim
            self.transformTR = self.f.transformTR
            self.transformInv = self.f.transformInv

        def trace_ln(self, ik, a, b):
            return np.ones((3,) * self.ndim) * len(a) * len(b)
    fo, fe = calc.factor_omega, calc.factor_Efermi
    c2.Formula = OnesFormula
    c2.factor_omega = lambda E1, E2: np.abs(fo(E1, E2))
    c2.factor_Efermi = lambda E1, E2: np.abs(fe(E1, E2))
    Fk = float(np.abs(c2(d).data).max())
    return Fk * M


def run_dyncalc(case, system, meta, groups, nb, k):
    """the whole declared pipeline: calculator(k) --EnergyResult.transform(TimeReversal|Inversion)--> calculator(-k)"""
    from wannierberri.symmetry.point_symmetry import TimeReversal, Inversion
    from wannierberri.data_K import get_data_k_class_from_system
    from wannierberri.result.result import VoidResult
    name, sym = case["name"], case["sym"]
    cls = dynamic_calculators()[name]
    symop = TimeReversal if sym == "TR" else Inversion
    dcls = get_data_k_class_from_system(system)
    grid = _CACHE["grids"]["grid"]
    kk = np.array(k, dtype=float)
    nd = ncmp = 0
    skipped, gauge = [], []
    E0 = dcls(system, grid=grid, k_list=np.array([kk])).E_K[0]
    for label, kw in calc_variants(name, cls, float(E0.min()), float(E0.max())):
        try:
            calc = cls(**kw)
        except Exception as e:
            if not skippable(e):
                raise
            skipped.append(f"{label}:init:{type(e).__name__}")
            continue
        status, detail = None, None
        for image in (False, True):
            try:
                d1 = dcls(system, grid=grid, k_list=np.array([kk]))
                d2 = dcls(system, grid=grid, k_list=np.array([-kk]))
                if image:
                    d1.E_K, d2.E_K
                    rep = meta["rep"][sym]
                    d2._UU[0] = rep @ (d1._UU[0].conj() if sym == "TR" else d1._UU[0])
                res = [calc(d1), calc(d2)]
            except Exception as e:
                if not skippable(e):
                    raise
                status = f"skip:{type(e).__name__}"
                break
            if isinstance(res[0], VoidResult):
                status = "skip:void"
                break
            exp = res[0].transform(symop).data          # the real declared pipeline
            got = res[1].data
            skey = ("scale", case["model"], name, label, case["k"])
            if skey not in _CACHE:
                alphabet = [dcls(sy, grid=grid, k_list=np.array([np.array(kx, dtype=float)])) for kx in K_ALPHABET.values()
                            for sy in (system, meta["sibling"])]
                _CACHE[skey] = natural_scale(calc, d1, alphabet)
            scale = max(1e-300, _CACHE[skey])
            err = float(np.abs(got - exp).max()) / scale
            disc = float(np.abs(res[0].data).max()) > 1e-4 * scale
            if err <= TOL:
                status = "gauge" if image else "ok"
                break
            if detail is None:
                i = np.unravel_index(np.argmax(np.abs(got - exp)), got.shape)
                detail = (err, (list(map(int, i)), complex(res[0].data[i]), complex(got[i])))
            status = "fail"
            if not has_degenerate(groups):
                break
        if status.startswith("skip"):
            skipped.append(f"{label}:{status}")
            continue
        ncmp += 1
        nd += int(disc)
        if status == "gauge":
            gauge.append(label)
        if status == "fail":
            return fail(f"parity:calculator:{name}:{sym}", case, label, detail[0], detail[1], meta)
    return {"ok": True, "nontrivial": ((name, sym) if nd else False),
            "obs": {"cmp": ncmp, "skipped": skipped, "gauge": gauge}}


def finish(tier, cases_, results):
    """which (class, symmetry) were never compared on a discriminating value, which were never constructible"""
    seen, disc, undeclared, ncmp = set(), set(), set(), 0
    gauge = set()
    for c, r in zip(cases_, results):
        if c["kind"] not in ("formula", "table", "dyncalc"):
            continue
        key = (c["kind"], c["name"], c["sym"])
        obs = r.get("obs")
        if isinstance(obs, dict):
            ncmp += int(obs.get("cmp", 0))
            if obs.get("cmp", 0):
                seen.add(key)
            if obs.get("undeclared"):
                undeclared.add(c["name"])
            if obs.get("gauge"):
                gauge.add(":".join(key))
        if r.get("nontrivial") or not r.get("ok", True):
            disc.add(key)
            seen.add(key)
    allkeys = {(c["kind"], c["name"], c["sym"]) for c in cases_ if c["kind"] in ("formula", "table", "dyncalc")}
    declared_keys = {k for k in allkeys if k[1] not in undeclared or k in seen}
    return {"comparisons": ncmp,
            "classes_enumerated": sorted({k[1] for k in allkeys if k[0] == "formula"}),
            "undeclared_helper_classes": sorted(undeclared - {k[1] for k in seen}),
            "never_compared": sorted(":".join(k) for k in declared_keys - seen
                                     if not (k[0] == "table")),
            "compared_but_never_discriminating": sorted(":".join(k) for k in seen - disc),
            "gauge_dependent_at_exact_degeneracy": sorted(gauge),
            "axes": {"models": len({c.get("model") for c in cases_ if c.get("model")}), "k": len(K_ALPHABET),
                     "formula_classes": len({k[1] for k in allkeys if k[0] == "formula"}),
                     "table_names": len(TABLE_NAMES), "dynamic_calculators": len({k[1] for k in allkeys if k[0] == "dyncalc"})}}
