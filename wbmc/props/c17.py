"""C17 — energy smoothing applies every axis smoother.

Exhaustive product: number of energy axes {1,2,3} x (grid, smoother) per axis — *all assignments* over the
per-axis alphabet (grid length/step) x {Void, FermiDirac(T), Gaussian(sigma)} x maxdE — x tensor rank.
For every assignment the real `EnergyResult.dataSmooth` is compared with
  (a) the real axis smoothers composed by the harness on the raw data, in both orders, and
  (b) an explicit normalised-kernel convolution matrix per axis written here (independent reference),
on the full unit-impulse basis (every grid node x every tensor component; linearity => all data), on
constants and on generic real/complex data.  Each smoother object is separately checked to be linear, to
preserve constants and to act only along the requested axis of an array.
"""
import itertools

import numpy as np

ID = "C17"
LEVEL = "exploration"
RULE = ("cases = (per-axis (grid, smoother) assignment for 1..3 energy axes — the complete product over the axis "
        "alphabet —, tensor rank); each case checks dataSmooth on the full impulse basis, constants and generic data "
        "against composed real smoothers (both orders) and against a harness-written normalised kernel; "
        "non-trivial = at least one axis smoother really mixes nodes (NE1>=1); the key ('compose', ...) is counted when "
        ">=2 axes have mixing smoothers (only there the composition clause can fail)")
ASSUMPTIONS = ["energy grids are uniform (the smoothers' documented precondition) with >=2 nodes; steps are chosen so "
               "that maxdE*smear/dE is not within 1e-6 of an integer (kernel cut-off tie)",
               "3-axis assignments use a reduced smoother alphabet (4 smoothers quick / 6 thorough) x 3 grids; 1- and 2-axis "
               "assignments use the full 13-smoother x 3-grid alphabet",
               "tensor rank 0,1 (quick) / 0,1,2 (thorough); impulse results are built one by one when the basis "
               "(nodes x components) has <= 90 (quick) / 250 (thorough) elements; larger bases: the rank-0 case pushes all "
               "node impulses at once through one EnergyResult declared rank=0 with a trailing batch axis, the rank>0 cases "
               "use first/centre/last node x first/last component impulses plus generic and constant data"]

BOLTZMANN_EV = 1.380649e-23 / 1.602176634e-19   # written out here: independent of scipy.constants

# (length, step, first energy)
GRIDS = {"n2": (2, 0.07, -0.3), "n5": (5, 0.013, 0.11), "n9": (9, 0.0047, -1.0)}
FD_T = (50, 300, 3000)
GAUSS_S = (0.01, 0.1, 1.0)
MAXDE = (2, 8)
SMOOTHERS_FULL = [["void"]] + [["fd", T, m] for T in FD_T for m in MAXDE] + [["gauss", s, m] for s in GAUSS_S for m in MAXDE]
SMOOTHERS_3Q = [["void"], ["fd", 300, 8], ["gauss", 0.1, 2], ["gauss", 0.01, 8]]
SMOOTHERS_3T = SMOOTHERS_3Q + [["fd", 50, 8], ["fd", 3000, 2]]


_TIER_CAP = {"quick": 90, "thorough": 250}


def cases(tier, seed):
    ranks = (0, 1) if tier == "quick" else (0, 1, 2)
    full = [[g, s] for g in GRIDS for s in SMOOTHERS_FULL]
    three = [[g, s] for g in GRIDS for s in (SMOOTHERS_3Q if tier == "quick" else SMOOTHERS_3T)]
    # smoother objects alone (construction through get_smoother, kernel, axis, linearity)
    for g in GRIDS:
        for s in SMOOTHERS_FULL:
            yield {"kind": "smoother", "grid": g, "sm": s}
    for nax, alpha in ((1, full), (2, full), (3, three)):
        for axes in itertools.product(alpha, repeat=nax):
            for rank in ranks:
                yield {"kind": "result", "axes": [list(a) for a in axes], "rank": rank, "cap": _TIER_CAP[tier]}


# ------------------------------------------------------------------ reference model
def grid(g):
    n, dE, E0 = GRIDS[g]
    return E0 + dE * np.arange(n)


def ref_smear(sm):
    if sm[0] == "fd":
        return sm[1] * BOLTZMANN_EV
    return float(sm[1])


def ref_NE1(g, sm):
    """number of neighbours on each side; None if the cut-off is a float tie"""
    n, dE, _ = GRIDS[g]
    x = sm[2] * ref_smear(sm) / dE
    if abs(x - round(x)) < 1e-6:
        return None
    return int(np.floor(x))


def ref_matrix(g, sm):
    """explicit normalised-kernel convolution matrix M[i,j] : out[i] = sum_j M[i,j] in[j]"""
    n, dE, _ = GRIDS[g]
    if sm[0] == "void":
        return np.eye(n)
    s = ref_smear(sm)
    ne1 = ref_NE1(g, sm)
    M = np.zeros((n, n))
    for i in range(n):
        for j in range(n):
            if abs(i - j) <= ne1:
                x = (j - i) * dE
                if sm[0] == "fd":
                    M[i, j] = 1.0 / (4 * s * np.cosh(x / (2 * s)) ** 2)
                else:
                    M[i, j] = np.exp(-(x / s) ** 2) / (s * np.sqrt(np.pi))
        M[i] /= M[i].sum()
    return M


def apply_axis(M, A, axis):
    return np.moveaxis(np.tensordot(M, A, axes=(1, axis)), 0, axis)


def make_real(g, sm):
    from wannierberri.smoother import FermiDiracSmoother, GaussianSmoother, VoidSmoother
    E = grid(g)
    if sm[0] == "void":
        return VoidSmoother()
    if sm[0] == "fd":
        return FermiDiracSmoother(E, sm[1], maxdE=sm[2])
    return GaussianSmoother(E, sm[1], maxdE=sm[2])


def mixing(g, sm):
    return sm[0] != "void" and (ref_NE1(g, sm) or 0) >= 1


def sm_name(sm):
    return {"void": "VoidSmoother", "fd": "FermiDiracSmoother", "gauss": "GaussianSmoother"}[sm[0]]


def tol(*arrs):
    return 1e-12 * max([1.0] + [float(np.abs(a).max()) for a in arrs if np.size(a)])


def fail(key, detail, nt=False):
    return {"ok": False, "key": key, "detail": detail, "nontrivial": nt}


# ------------------------------------------------------------------ one smoother object
def run_smoother(case, seed):
    from wannierberri.smoother import get_smoother, VoidSmoother, FermiDiracSmoother, GaussianSmoother
    from wbmc import zoo
    g, sm = case["grid"], case["sm"]
    n, dE, _ = GRIDS[g]
    E = grid(g)
    name = sm_name(sm)
    if sm[0] != "void" and ref_NE1(g, sm) is None:
        return {"ok": True, "nontrivial": False, "obs": "cut-off tie, skipped"}
    S = make_real(g, sm)
    M = ref_matrix(g, sm)
    desc = f"{name}{sm[1:]} on grid n={n} dE={dE}"
    # kernel matrix of the real smoother: one call on the identity (columns = impulses)
    got = np.array(S(np.eye(n), axis=0))
    if got.shape != (n, n) or np.abs(got - M).max() > tol(M):
        return fail(f"smoother:{name}:kernel", f"{desc}: matrix differs from the normalised-kernel reference by "
                    f"{np.abs(got - M).max() if got.shape == M.shape else got.shape}")
    # impulses one by one, 1D arrays
    for j in range(n):
        e = np.zeros(n)
        e[j] = 1.0
        out = np.array(S(e.copy()))
        if np.abs(out - M[:, j]).max() > tol(M):
            return fail(f"smoother:{name}:kernel", f"{desc}: impulse {j} -> {out.tolist()} expected {M[:, j].tolist()}")
    # constants (float and complex)
    for c in (1.0, -2.5, 3.0 + 0.5j):
        out = np.array(S(np.full(n, c), axis=0))
        if np.abs(out - c).max() > tol(np.array(c)):
            return fail(f"smoother:{name}:constant", f"{desc}: constant {c} -> {out.tolist()}")
    # acts only along the requested axis: every axis position of 2D/3D arrays, full impulse basis
    rng = zoo.rng_for(seed, "C17", "sm", g, str(sm))
    for shape_other in ((2,), (3, 2)):
        nd = 1 + len(shape_other)
        for axis in range(nd):
            shape = list(shape_other)
            shape.insert(axis, n)
            N = int(np.prod(shape))
            basis = np.eye(N).reshape(tuple(shape) + (N,))
            out = np.array(S(basis.copy(), axis=axis))
            exp = apply_axis(M, basis, axis)
            if out.shape != exp.shape or np.abs(out - exp).max() > tol(exp):
                return fail(f"smoother:{name}:axis", f"{desc}: array shape {shape} axis={axis}: result is not the kernel "
                            f"along that axis times identity on the others (max dev "
                            f"{np.abs(out - exp).max() if out.shape == exp.shape else out.shape})")
            # linearity on generic complex data
            a = rng.normal(size=shape) + 1j * rng.normal(size=shape)
            b = rng.normal(size=shape) + 1j * rng.normal(size=shape)
            al, be = 0.7 - 0.2j, -1.3
            lhs = np.array(S(al * a + be * b, axis=axis))
            rhs = al * np.array(S(a.copy(), axis=axis)) + be * np.array(S(b.copy(), axis=axis))
            if np.abs(lhs - rhs).max() > tol(lhs):
                return fail(f"smoother:{name}:linearity", f"{desc}: shape {shape} axis={axis} dev {np.abs(lhs - rhs).max()}")
            if np.abs(lhs - apply_axis(M, al * a + be * b, axis)).max() > tol(lhs):
                return fail(f"smoother:{name}:kernel", f"{desc}: generic data shape {shape} axis={axis}")
    # construction through get_smoother
    if sm[0] == "void":
        for args in ((None, 0.1, "Gaussian"), (E, None, "Gaussian"), (E, 0, "Fermi-Dirac"), (E, -1.0, "Gaussian"),
                     (E[:1], 0.1, "Gaussian"), (E, None, None)):
            s2 = get_smoother(*args)
            if not isinstance(s2, VoidSmoother):
                return fail("get_smoother:void", f"get_smoother{args} returned {type(s2).__name__}")
            x = rng.normal(size=(n, 3))
            if np.abs(np.array(s2(x.copy(), axis=0)) - x).max() != 0:
                return fail("smoother:VoidSmoother:changes_data", f"get_smoother{args}")
    elif sm[2] == 8:   # get_smoother uses the default maxdE=8
        s2 = get_smoother(E, sm[1], {"fd": "Fermi-Dirac", "gauss": "Gaussian"}[sm[0]])
        cls = {"fd": FermiDiracSmoother, "gauss": GaussianSmoother}[sm[0]]
        if type(s2) is not cls:
            return fail("get_smoother:kind", f"{desc}: get_smoother returned {type(s2).__name__}")
        got2 = np.array(s2(np.eye(n), axis=0))
        if np.abs(got2 - M).max() > tol(M):
            return fail("get_smoother:kernel", f"{desc}: smoother from get_smoother differs from reference kernel")
        if not (s2 == S) or (s2 != S):
            return fail("smoother:eq", f"{desc}: identical parameters compare unequal")
    return {"ok": True, "nontrivial": (("kernel", sm[0], ref_NE1(g, sm) >= n - 1) if mixing(g, sm) else False),
            "obs": {"NE1": (None if sm[0] == "void" else ref_NE1(g, sm)), "n": n}}


# ------------------------------------------------------------------ results
def run_result(case, seed, cap):
    from wannierberri.result import EnergyResult
    from wbmc import zoo
    axes, rank = case["axes"], case["rank"]
    nax = len(axes)
    for g, sm in axes:
        if sm[0] != "void" and ref_NE1(g, sm) is None:
            return {"ok": True, "nontrivial": False, "obs": "cut-off tie, skipped"}
    Es = [grid(g) for g, sm in axes]
    Ms = [ref_matrix(g, sm) for g, sm in axes]
    eshape = tuple(len(E) for E in Es)
    tshape = (3,) * rank
    shape = eshape + tshape
    nmix = sum(mixing(g, sm) for g, sm in axes)
    desc = " x ".join(f"{sm_name(sm)}{sm[1:]}@{g}" for g, sm in axes) + f" rank={rank}"

    def real_smoothers():
        return [make_real(g, sm) for g, sm in axes]

    def result(data, **kw):
        return EnergyResult(Energies=[E.copy() for E in Es], data=data, smoothers=real_smoothers(),
                            E_titles=[f"E{i}" for i in range(nax)], **kw)

    def reference(data):
        out = data
        for i in range(nax):
            out = apply_axis(Ms[i], out, i)
        return out

    def composed(data, order):
        sms = real_smoothers()
        out = data.copy()
        for i in order:
            out = np.array(sms[i](out, axis=i))
        return out

    def classify(data, got):
        """a specific key for the way dataSmooth is wrong"""
        for i in range(nax):   # (a Void axis smoother "applied alone" leaves the data as they are)
            only = apply_axis(Ms[i], data, i)
            if np.abs(got - only).max() <= tol(data):
                return f"dataSmooth:only_axis{i}_smoother_applied"
        if np.abs(got - data).max() <= tol(data):
            return "dataSmooth:no_smoother_applied"
        return "dataSmooth:differs_from_composition"

    def check(data, what):
        raw = data.copy()
        res = result(data)
        got = np.array(res.dataSmooth)
        if not np.array_equal(np.asarray(res.data), raw):
            return fail("dataSmooth:modifies_raw_data", f"{desc}: {what}: .data changed by smoothing", nmix >= 1)
        if got.shape != raw.shape:
            return fail("dataSmooth:shape", f"{desc}: {what}: shape {got.shape} vs {raw.shape}", nmix >= 1)
        fw = composed(raw, range(nax))
        bw = composed(raw, range(nax - 1, -1, -1))
        ref = reference(raw)
        t = tol(raw)
        if np.abs(fw - bw).max() > t:
            return fail("smoother:composition_order", f"{desc}: {what}: real axis smoothers composed in the two orders "
                        f"disagree by {np.abs(fw - bw).max()}", nmix >= 1)
        if np.abs(fw - ref).max() > t:
            for i, (g, sm) in enumerate(axes):   # which axis smoother departs from its reference kernel?
                Mi = np.array(real_smoothers()[i](np.eye(eshape[i]), axis=0))
                if np.abs(Mi - Ms[i]).max() > tol(Ms[i]):
                    return fail(f"smoother:{sm_name(sm)}:kernel", f"{desc}: {what}: axis {i} smoother differs from the "
                                f"normalised-kernel reference by {np.abs(Mi - Ms[i]).max()}", nmix >= 1)
            return fail("smoother:differs_from_reference", f"{desc}: {what}: composed real smoothers differ from the reference kernels applied "
                        f"along each axis by {np.abs(fw - ref).max()} although every 1D kernel matches", nmix >= 1)
        if np.abs(got - ref).max() > t:
            return fail(classify(raw, got), f"{desc}: {what}: dataSmooth deviates from the composition of the axis "
                        f"smoothers by {np.abs(got - ref).max():.3e} (data scale {np.abs(raw).max():.3e}); "
                        f"deviation from smoothing each axis alone: "
                        f"{[float(np.abs(got - apply_axis(Ms[i], raw, i)).max()) for i in range(nax)]}", nmix >= 1)
        return None

    # no smoothers at all: unchanged
    rng = zoo.rng_for(seed, "C17", "res", str(axes), rank)
    generic = rng.normal(size=shape)
    generic_c = rng.normal(size=shape) + 1j * rng.normal(size=shape)
    plain = EnergyResult(Energies=[E.copy() for E in Es], data=generic.copy())
    if not np.array_equal(np.array(plain.dataSmooth), generic):
        return fail("dataSmooth:void_changed", f"{desc}: result without smoothers is changed by dataSmooth")

    # constants, generic real and complex
    for what, data in (("constant 1.5", np.full(shape, 1.5)), ("generic real", generic), ("generic complex", generic_c)):
        r = check(data, what)
        if r:
            return r
    # constant per tensor component (must be preserved component-wise)
    if rank > 0:
        comp = np.broadcast_to(np.arange(1, 3 ** rank + 1, dtype=float).reshape(tshape), shape).copy()
        got = np.array(result(comp.copy()).dataSmooth)
        if np.abs(got - comp).max() > tol(comp):
            return fail("dataSmooth:constant", f"{desc}: component-wise constant not preserved", nmix >= 1)

    # full impulse basis
    N = int(np.prod(shape))
    if N <= cap:
        for j in range(N):
            e = np.zeros(N)
            e[j] = 1.0
            r = check(e.reshape(shape), f"impulse at {np.unravel_index(j, shape)}")
            if r:
                return r
        mode = "single"
    else:
        mode = "structural"
    if N > cap and rank == 0:
        # all impulses through one result: declared rank 0, trailing axis = impulse index (the batched run does not
        # depend on the tensor rank, so it is done in the rank-0 case of every axis assignment only)
        NE = int(np.prod(eshape))
        basis = np.eye(NE).reshape(eshape + (NE,))
        res = EnergyResult(Energies=[E.copy() for E in Es], data=basis.copy(), smoothers=real_smoothers(), rank=0,
                           E_titles=[f"E{i}" for i in range(nax)])
        got = np.array(res.dataSmooth)
        ref = reference(basis)
        if got.shape != ref.shape or np.abs(got - ref).max() > tol(ref):
            return fail(classify(basis, got) if got.shape == ref.shape else "dataSmooth:shape",
                        f"{desc}: impulse basis (batched): dataSmooth deviates from the composition of the axis smoothers "
                        f"by {np.abs(got - ref).max() if got.shape == ref.shape else got.shape}", nmix >= 1)
        mode = "batched"
    if N > cap:
        # a structural set of true-rank impulses: first, last, centre node x first/last component
        nodes = {tuple(0 for _ in eshape), tuple(n - 1 for n in eshape), tuple(n // 2 for n in eshape)}
        comps = {tuple(0 for _ in tshape), tuple(2 for _ in tshape)}
        for nd in sorted(nodes):
            for cp in sorted(comps):
                e = np.zeros(shape)
                e[nd + cp] = 1.0
                r = check(e, f"impulse at {nd + cp}")
                if r:
                    return r

    # linearity at result level through the real operators (+, *)
    a = result(generic.copy())
    b = result(generic[::-1].copy())
    lhs = np.array((a * 0.5 + b * (-2)).dataSmooth)
    rhs = 0.5 * np.array(a.dataSmooth) + (-2) * np.array(b.dataSmooth)
    if np.abs(lhs - rhs).max() > tol(lhs, rhs):
        return fail("dataSmooth:linearity", f"{desc}: (0.5a-2b).dataSmooth != 0.5 a.dataSmooth - 2 b.dataSmooth "
                    f"({np.abs(lhs - rhs).max()})", nmix >= 1)
    nt = False
    if nmix >= 1:
        nt = ("compose" if nmix >= 2 else "mix", tuple(tuple(map(str, [g] + sm)) for g, sm in axes), rank)
    return {"ok": True, "nontrivial": nt, "obs": {"mixing_axes": int(nmix), "impulses": mode, "basis": N}}


def run_case(case, seed):
    if case["kind"] == "smoother":
        return run_smoother(case, seed)
    return run_result(case, seed, case["cap"])


def finish(tier, cases, results):
    comp = sum(1 for r in results if isinstance(r.get("nontrivial"), (list, tuple)) and r["nontrivial"][0] == "compose")
    return {"axes": {"grids": len(GRIDS), "smoothers_full": len(SMOOTHERS_FULL),
                     "smoothers_3axes": len(SMOOTHERS_3Q if tier == "quick" else SMOOTHERS_3T),
                     "energy_axes": [1, 2, 3], "ranks": [0, 1] if tier == "quick" else [0, 1, 2]},
            "cases_with_two_or_more_mixing_axes": comp,
            "impulse_cap_single": _TIER_CAP[tier]}
