"""C07 — run() on irreducible K-points with symmetrisation == unsymmetrised run over the full grid,
on genuinely symmetric systems, for every static, dynamic (incl. SDCT) and tabulating calculator.

Left side : run(system, grid, calcs, use_irred_kpt=True)            (symmetrize is forced on)
Right side: run(system, grid, calcs, use_irred_kpt=False, symmetrize=False)     NOT symmetrised, so a wrong
            declared transformation cannot cancel between the two sides.
Systems   : bundled models with a known group (Haldane/Chiral C3z, Chiral(phi=0) C3z+TR, KaneMele C3z+TR,
            CuMnAs_2d PT) and generic zoo systems projected onto a (magnetic) point group by the group average
            of wbmc/symmodels.py (no library symmetriser); every premise is verified at matrix level
            (X_W(gk) = s M_g D_g X_W(k)^(*) D_g^+ for every matrix, library-independent Fourier sum).
Scale     : a component that is forbidden by symmetry is an exact zero on the left and rounding noise on the
            right, so differences are judged against the natural scale of the per-K contributions
            mean_K max|R(K)| (recorded by wrapping every calculator), taken as the larger of the symmetric model's
            and of a generic (symmetry-broken) sibling's, because in PT-symmetric models even the per-K
            contributions vanish (sums over Kramers partners).
"""
import inspect
import os
import shutil
import tempfile

import numpy as np

ID = "C07"
LEVEL = "exploration"
RULE = ("cases = (symmetric model) x (grid compatible with its group) x (calculator class: every StaticCalculator class | "
        "every DynamicCalculator class incl. SDCT terms and the SDCT multi-term sums | TabulatorAll of Energy + every Tabulator "
        "class | tetrahedron variants of the static ones), each with its constructor variants; classes are found by introspection and kept when the model provides their "
        "matrices; each case makes three run() calls (irreducible+symmetrised, full unsymmetrised, full unsymmetrised on "
        "a symmetry-broken sibling for the scale) and compares every calculator, all tensor components and energies; "
        "tabulations also per k on the full grid; non-trivial keys = (model, calculator) for which the group has >1 "
        "element, the irreducible run used fewer K-points than the full one and the result is not identically zero")
ASSUMPTIONS = [
    "point groups: C3, C3+TR, PT, Ci, TR, Ci+TR, C4v, magnetic 4mm' (spinor), D3, Oh, T(spinor) (+ D4h, D6, Th.. in thorough); "
    "grids 2 per model at most (NKdiv x NKFFT factorisation fixed per grid)",
    "orbitals of the hand-symmetrised models are scalar functions at the origin (or on inversion centres with parities): "
    "no p/d orbital representations, no non-symmorphic operations",
    "tolerance 1e-8 of the natural scale of the per-K contributions (see module docstring)",
    "tetra=True cannot be compared exactly: the tetrahedron split of a cell is not invariant under the point group, so the two "
    "sides agree only to discretisation order (observed 0.5-2% of the scale on the doubled grid, anything between 0 and 50% on the "
    "coarse one, not monotonic, larger for Fermi-surface derivatives); the thorough tier therefore only requires |diff| <= 5% / 15% / 30% "
    "of the scale (Fermi sea / f' / f'' and higher) on the doubled grid "
    "(a smoke test that catches a component symmetrised away or doubled, not a subtle error)",
    "Fermi levels are chosen off every band energy of the grid (irrational offsets); adaptive refinement is not used (C10)",
    "calculators whose constructor or first evaluation raises for reasons unrelated to symmetry "
    "(e.g. tabulate.DerOrbitalMoment_test refers to a missing formula) are listed in coverage.not_runnable",
]
TOL = 1e-8
_CACHE = {}


# ----------------------------------------------------------------------------------------------
# models
# ----------------------------------------------------------------------------------------------

PLANAR3 = [(a, b, c) for a in (-1, 0, 1) for b in (-1, 0, 1) for c in (-1, 0, 1)]

# name -> spec ; grids = list of (NK, NKFFT)
MODELS = {
    # bundled
    "Haldane": dict(kind="bundled", gens=("C3z",), grids=[((6, 6, 1), (2, 2, 1)), ((4, 4, 1), (2, 2, 1))]),   # NKdiv=3: K and -K differ
    "Chiral": dict(kind="bundled", gens=("C3z",), grids=[((4, 4, 2), (2, 2, 2)), ((3, 3, 3), (3, 3, 3))]),
    "Chiral_TR": dict(kind="bundled", gens=("C3z", "T"), grids=[((4, 4, 2), (2, 2, 2))]),
    "KaneMele": dict(kind="bundled", gens=("C3z", "T"), grids=[((6, 6, 1), (2, 2, 1)), ((4, 4, 1), (2, 2, 1))]),
    "CuMnAs": dict(kind="bundled", gens=("IT",), grids=[((4, 4, 1), (2, 2, 1))]),
    # hand-symmetrised generic systems
    "Ci_spinless3": dict(kind="hand", spec=dict(nw_orb=3, lat="tric", rs="shell1", gens=("I",), parities=[1, -1, 1]),
                         grids=[((4, 4, 4), (2, 2, 2)), ((3, 3, 3), (3, 3, 3))]),
    "Ci_half3": dict(kind="hand", spec=dict(nw_orb=3, lat="tric", rs="shell2", gens=("I",), parities=[1, -1, 1], cen="half"),
                     grids=[((4, 4, 4), (2, 2, 2))]),
    "TR_spinor2": dict(kind="hand", spec=dict(nw_orb=2, lat="tric", rs="shell1", gens=("T",), spinor=True),
                       grids=[((4, 4, 4), (2, 2, 2))]),
    "TR_spinless3": dict(kind="hand", spec=dict(nw_orb=3, lat="mono", rs="shell1", gens=("T",)),
                         grids=[((4, 4, 4), (2, 2, 2))]),
    "CiTR_spinor2": dict(kind="hand", spec=dict(nw_orb=2, lat="tric", rs="shell1", gens=("I", "T"), parities=[1, -1], spinor=True),
                         grids=[((4, 4, 4), (2, 2, 2))]),
    "PT_spinor2": dict(kind="hand", spec=dict(nw_orb=2, lat="tric", rs="shell1", gens=("IT",), parities=[1, -1], spinor=True),
                       grids=[((3, 3, 3), (1, 1, 1)), ((4, 4, 4), (2, 2, 2))]),
    "C4v_spinless2": dict(kind="hand", spec=dict(nw_orb=2, lat="tet", rs="shell2", gens=("C4z", "Mx")),
                          grids=[((4, 4, 4), (2, 2, 2)), ((6, 6, 3), (3, 3, 3))]),
    # NKdiv = 3: with NKdiv <= 2 every K equals -K modulo the reduced cell and antiunitary operations T*g act like g on the K-list
    "m4mm_spinor2": dict(kind="hand", spec=dict(nw_orb=2, lat="tet", rs="shell1", gens=("C4z", "MxT"), spinor=True),
                         grids=[((6, 6, 3), (2, 2, 1)), ((4, 4, 2), (2, 2, 2))]),
    "D3_spinless2": dict(kind="hand", spec=dict(nw_orb=2, lat="hex", rs=PLANAR3, gens=("C3z", "C2x")),
                         grids=[((6, 6, 2), (3, 3, 2))]),
    "Oh_spinless2": dict(kind="hand", spec=dict(nw_orb=2, lat="sc", rs="shell2", gens=("C3d", "C4z", "I"), parities=[1, -1]),
                         grids=[((4, 4, 4), (2, 2, 2))]),
    "T_fcc_spinor1": dict(kind="hand", spec=dict(nw_orb=1, lat="fcc", rs="cube2", gens=("C3d", "C2z"), spinor=True),
                          grids=[((4, 4, 4), (2, 2, 2))]),
    # thorough only
    "D4h_spinless3": dict(kind="hand", spec=dict(nw_orb=3, lat="tet", rs="shell2", gens=("C4z", "Mx", "I"), parities=[1, -1, 1]),
                          grids=[((4, 4, 4), (2, 2, 2))]),
    "C2vT_spinor2": dict(kind="hand", spec=dict(nw_orb=2, lat="orth", rs="shell1", gens=("C2zT", "Mx"), spinor=True),
                         grids=[((4, 4, 4), (2, 2, 2)), ((3, 5, 2), (3, 5, 2))]),
    "D6_spinless2": dict(kind="hand", spec=dict(nw_orb=2, lat="hex", rs=PLANAR3, gens=("C6z", "C2x")),
                         grids=[((6, 6, 2), (3, 3, 2))]),
    "O_bcc_spinless2": dict(kind="hand", spec=dict(nw_orb=2, lat="bcc", rs="cube2", gens=("C3d", "C4z")),
                            grids=[((4, 4, 4), (2, 2, 2))]),
    "Th_sc_spinor1": dict(kind="hand", spec=dict(nw_orb=1, lat="sc", rs="shell2", gens=("C3d", "C2z", "I", "T"), spinor=True,
                                                 parities=[1]),
                          grids=[((4, 4, 4), (2, 2, 2))]),
    "C4zT_spinor2": dict(kind="hand", spec=dict(nw_orb=2, lat="tet", rs="shell1", gens=("C4zT",), spinor=True),
                         grids=[((6, 6, 3), (2, 2, 1)), ((4, 4, 2), (2, 2, 2))]),
    "Mz_spinless4": dict(kind="hand", spec=dict(nw_orb=4, lat="mono", rs="shell1", gens=("My",)),
                         grids=[((4, 4, 4), (2, 2, 2))]),
}
QUICK_MODELS = ("Haldane", "Chiral", "Chiral_TR", "KaneMele", "CuMnAs", "Ci_spinless3", "Ci_half3", "TR_spinor2",
                "CiTR_spinor2", "PT_spinor2", "C4v_spinless2", "m4mm_spinor2", "D3_spinless2", "Oh_spinless2",
                "T_fcc_spinor1")
BATCHES_QUICK = ("static", "dynamic", "tab")
TETRA_MODELS = ("Chiral", "C4v_spinless2", "TR_spinor2")


def _perturbed_copy(system, seed, name, amp=0.3):
    """symmetry-broken sibling of a bundled model: generic Hermitian perturbation of Ham (scale only)"""
    import copy
    from wbmc import zoo
    s2 = copy.deepcopy(system)
    H = s2.get_R_mat("Ham")
    rng = zoo.rng_for(seed, "c07-sibling", name)
    X = rng.normal(size=H.shape) + 1j * rng.normal(size=H.shape)
    X = 0.5 * (X + s2.rvec.conj_XX_R(X))
    s2.set_R_mat("Ham", H + amp * X * (np.abs(H).max()), reset=True)
    s2.set_pointgroup(symmetry_gen=[])
    return s2


def build_model(name, seed):
    """(symmetric system with its group declared, generic sibling without group, meta)"""
    key = ("model", name, seed)
    if key in _CACHE:
        return _CACHE[key]
    import wannierberri as wb
    from wannierberri import models
    from wbmc import symmodels as sm
    from wbmc.engine import quiet
    m = MODELS[name]
    D_of, par, spinor = None, None, False
    with quiet():
        if m["kind"] == "bundled":
            gens = m["gens"]
            group = sm.close_group(gens)
            if name == "Haldane":
                s = wb.system.System_R.from_pythtb(models.Haldane_ptb())
                nw_orb = 2
            elif name == "Chiral":
                s = wb.system.System_R.from_pythtb(models.Chiral(hopz_left=0.2, hopz_right=0.05, hopz_vert=0.1))
                nw_orb = 2
            elif name == "Chiral_TR":
                s = wb.system.System_R.from_pythtb(models.Chiral(phi=0, hopz_left=0.2, hopz_right=0.05, hopz_vert=0.1))
                nw_orb = 2
            elif name == "KaneMele":
                s = wb.system.System_R.from_pythtb(models.KaneMele_ptb("odd"), spin=True)
                nw_orb, spinor = 2, True
            elif name == "CuMnAs":
                s = wb.system.System_R.from_pythtb(models.CuMnAs_2d(nx=1, ny=2, nz=0.5))
                nw_orb = 4
                sx = np.array([[0, 1], [1, 0]], dtype=complex)

                def D_of(O, tr):       # PT about the A-B bond centre: sublattice swap (x) i sigma_y ; basis (A up, A dn, B up, B dn)
                    return np.kron(sx, sm.ISY) if tr else np.eye(4, dtype=complex)
            s.set_pointgroup(symmetry_gen=sm.lib_generators(list(gens)))
            sib = _perturbed_copy(s, seed, name)
        else:
            spec = dict(m["spec"])
            spinor = bool(spec.get("spinor", False))
            spec.setdefault("matrices", sm.ALL_SPINOR if spinor else sm.ALL_SPINLESS)
            s, info = sm.hand_system(seed=seed, tag=name, **spec)
            group, nw_orb, par = info["group"], info["nw_orb"], info["parities"]
            spec_g = dict(spec)
            spec_g["gens"] = ()
            sib, _ = sm.hand_system(seed=seed, tag=name, **spec_g)
    ok, worst, where = sm.verify_symmetry(s, group, nw_orb, spinor, par, D_of=D_of, tol=1e-10)
    # the library must have built the same group from the declared generators
    same_group = (s.pointgroup.size == len(group))
    meta = dict(ok=bool(ok) and same_group, worst=float(worst), where=where, group_size=len(group),
                lib_group_size=int(s.pointgroup.size), spinor=spinor)
    _CACHE[key] = (s, sib, meta)
    return _CACHE[key]


def band_range(system):
    if ("band_range", id(system)) in _CACHE:
        return _CACHE[("band_range", id(system))]
    _CACHE[("band_range", id(system))] = _band_range(system)
    return _CACHE[("band_range", id(system))]


def _band_range(system):
    import wannierberri as wb
    from wbmc.engine import quiet
    E = []
    with quiet():
        for k in ((0, 0, 0), (0.5, 0, 0), (0.31, 0.47, 0.2), (1 / 3., 1 / 3., 0), (0.5, 0.5, 0.5 if system.periodic[2] else 0)):
            E.append(wb.evaluate_k(system, k=k, quantities=["energy"]))
    E = np.array(E)
    return float(E.min()), float(E.max())


# ----------------------------------------------------------------------------------------------
# calculators by introspection
# ----------------------------------------------------------------------------------------------

def calculator_classes(batch):
    from wannierberri.calculators import static, dynamic, sdct, tabulate
    from wannierberri.calculators.calculator import MultitermCalculator
    out = {}
    if batch in ("static", "tetra"):
        for nm, c in sorted(vars(static).items()):
            if inspect.isclass(c) and issubclass(c, static.StaticCalculator) and c is not static.StaticCalculator \
                    and not nm.startswith("_") and c.__module__ == static.__name__:
                out[nm] = c
    elif batch == "dynamic":
        for mod in (dynamic, sdct):
            for nm, c in sorted(vars(mod).items()):
                if not inspect.isclass(c) or nm.startswith("_") or c.__module__ != mod.__name__:
                    continue
                if (issubclass(c, dynamic.DynamicCalculator) and c is not dynamic.DynamicCalculator) or \
                        (issubclass(c, MultitermCalculator) and c is not MultitermCalculator):
                    out[nm] = c
    elif batch == "tab":
        for nm, c in sorted(vars(tabulate).items()):
            if inspect.isclass(c) and issubclass(c, tabulate.Tabulator) and c is not tabulate.Tabulator \
                    and c.__module__ == tabulate.__name__:
                out[nm] = c
    return out


def _init_params(cls):
    pars = set()
    for c in cls.__mro__:
        try:
            pars |= set(inspect.signature(c.__init__).parameters)
        except (TypeError, ValueError):
            pass
    return pars


def make_calculators(batch, emin, emax):
    """dict name -> (factory, label).  Variants: `_test` classes get FF_rotAA/CCab_antisym like in the suite; SHC types;
    internal-terms-only twins for the dynamic ones"""
    w = emax - emin
    Ef = np.linspace(emin + 0.13 * w, emax - 0.11 * w, 5) + 0.0123456789
    out = {}
    for nm, cls in calculator_classes(batch).items():
        pars = _init_params(cls)
        if batch in ("static", "tetra"):
            kw = dict(Efermi=Ef)
            if batch == "tetra":
                kw["tetra"] = True
            if nm.endswith("_test"):
                kw["kwargs_formula"] = {"FF_rotAA": True, "CCab_antisym": True}
            variants = [("", kw)]
            if nm == "SHC":
                variants = [(":" + t, dict(kw, kwargs_formula={"spin_current_type": t})) for t in ("simple", "ryoo", "qiao")]
        elif batch == "dynamic":
            kw = dict(Efermi=Ef[1:4], omega=np.array([0.0, 0.21 * w, 0.77 * w]) + 0.0101, kBT=0.05, smr_fixed_width=0.1)
            if "sc_eta" in pars:
                kw["sc_eta"] = 0.04
            variants = [("", kw)]
            if "SHC_type" in pars:
                variants = [(":" + t, dict(kw, SHC_type=t)) for t in ("simple", "ryoo", "qiao")]
            if "S_terms" in pars:
                variants = variants + [(":S", dict(kw, S_terms=True))]
            variants = variants + [(l + ":internal", dict(k_, kwargs_formula={"external_terms": False})) for l, k_ in variants[:1]]
        else:
            kw = {}
            if nm == "SpinBerry":
                variants = [(":" + t, dict(kwargs_formula={"spin_current_type": t})) for t in ("simple", "ryoo", "qiao")]
            else:
                variants = [("", kw), (":internal", dict(kwargs_formula={"external_terms": False}))]
                if nm in ("Energy", "Spin", "DerSpin", "Der2Spin", "InvMass", "Der3E"):
                    variants = variants[:1]
        for label, k_ in variants:
            out[nm + label] = (cls, k_)
    return out


def norm_of(res):
    from wannierberri.result.tabresult import TABresult
    from wannierberri.result.result import VoidResult
    if isinstance(res, VoidResult):
        return 0.0
    if isinstance(res, TABresult):
        return {q: float(np.abs(r.data).max()) for q, r in res.results.items()}
    return float(np.abs(res.data).max())


def recording(calc, store):
    """re-class the instance so that every per-K result is measured before run() weights/symmetrises it"""
    base = calc.__class__

    def __call__(self, data_K):
        res = base.__call__(self, data_K)
        store.append(norm_of(res))
        return res
    calc.__class__ = type("Rec_" + base.__name__, (base,), {"__call__": __call__})
    return calc


def instantiate(specs, only=None):
    calcs, stores, bad = {}, {}, {}
    for nm, (cls, kw) in specs.items():
        if only is not None and nm not in only:
            continue
        try:
            c = cls(**{k: (dict(v) if isinstance(v, dict) else v) for k, v in kw.items()})
        except Exception as e:
            bad[nm] = f"init:{type(e).__name__}:{str(e)[:80]}"
            continue
        stores[nm] = []
        calcs[nm] = recording(c, stores[nm])
    return calcs, stores, bad


def probe(system, specs):
    """which calculators can be evaluated on this model at all (matrices present ...)"""
    import wannierberri as wb
    good, bad = [], {}
    calcs, _, bad0 = instantiate(specs)
    bad.update(bad0)
    for nm, c in calcs.items():
        try:
            wb.evaluate_k(system, k=(0.113, 0.227, 0.0 if not system.periodic[2] else 0.341), calculators={nm: c})
            good.append(nm)
        except Exception as e:
            bad[nm] = f"{type(e).__name__}:{str(e)[:80]}"
    return good, bad


def do_run(system, NK, NKFFT, calcs, irred, tmp, tag, symmetrize=None):
    import wannierberri as wb
    grid = wb.Grid(system, NK=list(NK), NKFFT=list(NKFFT))
    res = wb.run(system, grid, calcs, use_irred_kpt=irred, symmetrize=irred if symmetrize is None else symmetrize,
                 parallel=False, adpt_num_iter=0,
                 fout_name=os.path.join(tmp, tag), file_Klist_path=os.path.join(tmp, "K_" + tag), restart=False,
                 print_progress_step_time=1e9)
    return res


# ----------------------------------------------------------------------------------------------
# cases
# ----------------------------------------------------------------------------------------------

def setup(tier, seed):
    """build (and verify) every model once in the parent; the forked workers inherit the cache"""
    for n in (QUICK_MODELS if tier == "quick" else tuple(MODELS)):
        s, sib, meta = build_model(n, seed)
        band_range(s)


def cases(tier, seed):
    names = QUICK_MODELS if tier == "quick" else tuple(MODELS)
    for n in names:
        yield {"kind": "premise", "model": n}
    for n in names:
        grids = MODELS[n]["grids"] if tier == "thorough" else MODELS[n]["grids"][:1]
        for ig, (NK, FFT) in enumerate(grids):
            for b in BATCHES_QUICK:
                for ic, cname in enumerate(calculator_classes(b)):
                    c = {"kind": "run", "model": n, "NK": list(NK), "NKFFT": list(FFT), "batch": b, "calc": cname}
                    if ic == 0 and ig == 0 and b != "tab":
                        c["nosym"] = True       # one class per (model, batch): + a run with symmetrize=False passed explicitly
                    yield c
    if tier == "thorough":
        for n in TETRA_MODELS:
            NK, FFT = MODELS[n]["grids"][0]
            for cname in calculator_classes("tetra"):
                yield {"kind": "tetra", "model": n, "NK": list(NK), "NKFFT": list(FFT), "batch": "tetra", "calc": cname}


def mean_norm(store, q=None):
    vals = [(s[q] if q is not None else s) for s in store]
    return float(np.mean(vals)) if vals else 0.0


def compare_energy(a, b):
    if a.data.shape != b.data.shape:
        return None, "shape"
    for x, y in zip(a.Energies, b.Energies):
        if np.abs(np.asarray(x) - np.asarray(y)).max() > 1e-12:
            return None, "energies"
    d = np.abs(a.data - b.data)
    i = np.unravel_index(np.argmax(d), d.shape)
    return float(d.max()), (list(map(int, i)), complex(a.data[i]), complex(b.data[i]))


def run_case(case, seed):
    from wbmc.engine import quiet
    s, sib, meta = build_model(case["model"], seed)
    if case["kind"] == "premise":
        if not meta["ok"]:
            return {"ok": False, "key": f"premise:{case['model']}",
                    "detail": f"model is not symmetric / group mismatch: {meta}"}
        return {"ok": True, "nontrivial": ("premise", case["model"]), "obs": {"premise_worst": meta["worst"], "group_size": meta["group_size"]}}
    if not meta["ok"]:
        return {"ok": True, "nontrivial": False, "obs": "premise failed (reported by the premise case)"}
    tmp = tempfile.mkdtemp(prefix="agK_c07_", dir="/tmp")
    try:
        with quiet():
            if case["kind"] == "tetra":
                return run_tetra(case, s, sib, meta, tmp)
            return run_batch(case, s, sib, meta, tmp)
    finally:
        shutil.rmtree(tmp, ignore_errors=True)


def attribute_to_degenerate_k(system, NK, make_calc, extract):
    """After a mismatch: evaluate the calculator k point by k point on the full grid and test the covariance
    v(g k) = T_g v(k) (the library's own Result.transform) for every group element.  The mismatch is attributed to
    gauge dependence at exactly degenerate k points (C04's subject, reported under its own key) only if
      (i)  the covariance holds at every k point without an exact degeneracy, and
      (ii) at every degenerate k point where it fails the calculator's value demonstrably changes when the
           eigenvectors of each degenerate group are mixed by a fixed unitary (zoo.unitary_alphabet).
    A wrong transformation law shows up at generic k points, or at degenerate ones for a gauge-invariant value, and
    keeps the plain key.  Returns (is_gauge, text)."""
    from wannierberri.grid import Grid
    from wannierberri.data_K import get_data_k_class_from_system
    from wbmc import zoo
    dcls = get_data_k_class_from_system(system)
    grid = Grid(system, NK=1, NKFFT=1)
    pg = system.pointgroup
    NKa = np.array(NK)
    ks = [np.array([i / NK[0], j / NK[1], l / NK[2]]) for i in range(NK[0]) for j in range(NK[1]) for l in range(NK[2])]

    def groups_of(E):
        g = [[0]]
        for i in range(1, len(E)):
            (g[-1].append(i) if E[i] - E[i - 1] < 1e-8 else g.append([i]))
        return [(x[0], x[-1] + 1) for x in g if len(x) > 1]

    def value(k, rotate=False):
        d = dcls(system, grid=grid, k_list=np.array([k]))
        gr = groups_of(d.E_K[0])
        if rotate:
            for a_, b_ in gr:
                alph = zoo.unitary_alphabet(b_ - a_)
                U = alph.get("su2", alph.get("generic"))
                d._UU[0][:, a_:b_] = d._UU[0][:, a_:b_] @ U
        return make_calc()(d), bool(gr)
    vals, degen = {}, {}
    for k in ks:
        vals[tuple(k)], degen[tuple(k)] = value(k)
    scale = max([1e-300] + [float(np.abs(extract(v)).max()) for v in vals.values()])
    worst = {False: 0.0, True: 0.0}
    bad_deg = set()
    for k in ks:
        for sym in pg.symmetries:
            k2 = sym.transform_reduced_vector(k, system.recip_lattice)
            k2 = tuple((np.round((k2 % 1) * NKa).astype(int) % NKa) / NKa)
            exp = extract(vals[tuple(k)].transform(sym))
            got = extract(vals[k2])
            err = float(np.abs(got - exp).max()) / scale
            dg = degen[tuple(k)] or degen[k2]
            worst[dg] = max(worst[dg], err)
            if dg and err > TOL:
                bad_deg.update(q for q in (tuple(k), k2) if degen[q])
    gauge_dep = {}
    for q in sorted(bad_deg):
        v2, _ = value(np.array(q), rotate=True)
        gauge_dep[q] = float(np.abs(extract(v2) - extract(vals[q])).max()) / scale
    ndeg = sum(degen.values())
    is_gauge = bool(ndeg > 0 and worst[False] <= TOL and bad_deg and all(v > TOL for v in gauge_dep.values()))
    text = (f"[per-k covariance v(gk)=T_g v(k): {ndeg}/{len(ks)} grid points with exactly degenerate bands; worst violation "
            f"{worst[False]:.1e} on the others, {worst[True]:.1e} on them; change of the value under a unitary mixing inside the "
            f"degenerate groups at the violating points: min {min(gauge_dep.values(), default=0):.1e} max {max(gauge_dep.values(), default=0):.1e}]")
    return is_gauge, text


def run_batch(case, s, sib, meta, tmp):
    from wannierberri.calculators import tabulate
    from wannierberri.result.tabresult import TABresult
    from wannierberri.result.result import VoidResult
    batch = case["batch"]
    emin, emax = band_range(s)
    specs = make_calculators(batch, emin, emax)
    if case.get("calc"):      # one calculator class per case (all its variants), so that one failure cannot mask another
        specs = {k: v for k, v in specs.items() if k.split(":")[0] == case["calc"]}
    good, bad = probe(s, specs)
    good_sib, _ = probe(sib, specs)
    good = [g for g in good if g in good_sib]
    if not good:
        return {"ok": True, "nontrivial": False, "obs": {"not_runnable": bad}}
    results, stores, nK = {}, {}, {}
    for tag, system, irred in (("irr", s, True), ("full", s, False), ("sib", sib, False)):
        calcs, st, _ = instantiate(specs, only=good)
        if batch == "tab":
            calcs_run = {"tabulate": recording(tabulate.TabulatorAll(dict(calcs), mode="grid"), st.setdefault("tabulate", []))}
        else:
            calcs_run = calcs
        results[tag] = do_run(system, case["NK"], case["NKFFT"], calcs_run, irred, tmp, tag)
        stores[tag] = st
        first = next(iter(st.values()))
        nK[tag] = len(first)
    reduced = nK["irr"] < nK["full"]
    nontrivial, failures, obs = [], [], {"nK": nK, "not_runnable": bad, "worst": {}}
    if case.get("nosym") and batch != "tab":
        # documented: "symmetrize ... always True if use_irred_kpt == True" -- irreducible K-points with symmetrize=False
        # passed explicitly must give the symmetrised result as well
        calcs, st, _ = instantiate(specs, only=good)
        r2 = do_run(s, case["NK"], case["NKFFT"], calcs, True, tmp, "irr_nosym", symmetrize=False)
        for nm in good:
            a, b = results["irr"].results[nm], r2.results[nm]
            if isinstance(a, VoidResult) or isinstance(b, VoidResult):
                continue
            scale = max(mean_norm(stores["full"][nm]), mean_norm(stores["sib"][nm]), 1e-300)
            d, where = compare_energy(a, b)
            if d is None or d / scale > TOL:
                failures.append((f"irr!=full:symmetrize_False_with_irreducible_kpoints:{nm.split(':')[0]}",
                                 f"{nm}: run(use_irred_kpt=True, symmetrize=False) differs from run(use_irred_kpt=True) "
                                 f"by {d if d is None else d / scale:.3g} of the scale"))
    if batch == "tab":
        ta, tb = results["irr"].results["tabulate"], results["full"].results["tabulate"]
        if not (isinstance(ta, TABresult) and isinstance(tb, TABresult)):
            return {"ok": False, "key": "tab:type", "detail": f"{type(ta)} {type(tb)}"}
        dk = np.abs(ta.kpoints - tb.kpoints)
        if ta.kpoints.shape != tb.kpoints.shape or np.abs(dk - np.round(dk)).max() > 1e-9:
            return {"ok": False, "key": "irr!=full:tab:kpoints", "detail": f"k-point lists differ {ta.kpoints.shape} {tb.kpoints.shape}"}
        for q in ["Energy"] + good:
            if q not in ta.results:
                continue
            A, B = ta.results[q].data, tb.results[q].data
            scale = max(mean_norm(stores["full"]["tabulate"], q), mean_norm(stores["sib"]["tabulate"], q), 1e-300)
            if A.shape != B.shape:
                failures.append((f"irr!=full:tab:{q.split(':')[0]}", f"{q}: shapes {A.shape} {B.shape}"))
                continue
            d = np.abs(A - B)
            i = np.unravel_index(np.argmax(d), d.shape)
            rel = float(d.max()) / scale
            obs["worst"][q] = rel
            if rel > TOL:
                gauge, note = False, ""
                if q in specs:
                    cls_, kw_ = specs[q]
                    gauge, note = attribute_to_degenerate_k(
                        s, case["NK"], lambda: tabulate.TabulatorAll({q: cls_(**kw_)}, mode="grid"),
                        lambda r: r.results[q].data)
                failures.append((("irr!=full:gauge_dependent_at_degenerate_k:tab:" if gauge else "irr!=full:tab:") + q.split(':')[0],
                                 note + f"{q}: per-k value differs at k={ta.kpoints[i[0]].tolist()} band={int(i[1])} comp={list(map(int, i[2:]))}: "
                                 f"irr={A[i]:.8g} full={B[i]:.8g} |diff|/scale={rel:.2e} scale={scale:.3g}"))
            if reduced and float(np.abs(B).max()) > 1e-6 * scale:
                nontrivial.append((case["model"], "tab:" + q))
    else:
        for nm in good:
            a, b = results["irr"].results[nm], results["full"].results[nm]
            if isinstance(a, VoidResult) or isinstance(b, VoidResult):
                continue
            scale = max(mean_norm(stores["full"][nm]), mean_norm(stores["sib"][nm]), 1e-300)
            d, where = compare_energy(a, b)
            if d is None:
                failures.append((f"irr!=full:{nm.split(':')[0]}", f"{nm}: {where} differ"))
                continue
            rel = d / scale
            obs["worst"][nm] = rel
            if rel > TOL:
                cls_, kw_ = specs[nm]
                gauge, note = attribute_to_degenerate_k(s, case["NK"], lambda: cls_(**kw_), lambda r: r.data)
                failures.append((("irr!=full:gauge_dependent_at_degenerate_k:" if gauge else "irr!=full:") + nm.split(':')[0],
                                 f"{nm}: at index(Ef[,omega],comp)={where[0]} irr={where[1]:.8g} full={where[2]:.8g} "
                                 f"|diff|/scale={rel:.2e} scale={scale:.3g} " + note))
            if reduced and float(np.abs(b.data).max()) > 1e-6 * scale:
                nontrivial.append((case["model"], nm))
    if failures:
        # elementary calculators before the multi-term sums that contain them (SDCT = sum of its *_sea_* / *_surf_* terms)
        failures.sort(key=lambda f: (1 if "gauge_dependent" in f[0] else 0,
                                     0 if ("_sea_" in f[0] or "_surf_" in f[0]) else 1 if "SDCT" not in f[0] else 2))
        keys = sorted({k for k, _ in failures})
        return {"ok": False, "key": failures[0][0], "nontrivial": nontrivial, "obs": obs,
                "detail": f"model={case['model']} group={meta['group_size']} NK={case['NK']} NKFFT={case['NKFFT']} "
                          f"K-points irr/full={nK['irr']}/{nK['full']}: " + " || ".join(t for _, t in failures[:4]) +
                          (f" (all failing keys in this case: {keys})" if len(keys) > 1 else "")}
    return {"ok": True, "nontrivial": nontrivial, "obs": obs}


def run_tetra(case, s, sib, meta, tmp):
    """two-grid criterion for tetra=True (see ASSUMPTIONS)"""
    from wannierberri.result.result import VoidResult
    emin, emax = band_range(s)
    specs = make_calculators("tetra", emin, emax)
    specs_probe = make_calculators("static", emin, emax)     # evaluate_k cannot provide tetrahedron weights
    if case.get("calc"):
        specs = {k: v for k, v in specs.items() if k.split(":")[0] == case["calc"]}
        specs_probe = {k: v for k, v in specs_probe.items() if k.split(":")[0] == case["calc"]}
    good, bad = probe(s, specs_probe)
    if not good:
        return {"ok": True, "nontrivial": False, "obs": {"not_runnable": bad}}
    diffs, fder = {}, {}
    for mult in (1, 2):
        NK = [n * mult if n > 1 else 1 for n in case["NK"]]
        res, st = {}, {}
        for tag, system, irred in (("irr", s, True), ("full", s, False)):
            calcs, st[tag], _ = instantiate(specs, only=good)
            fder.update({nm: int(getattr(c, "fder", 0)) for nm, c in calcs.items()})
            res[tag] = do_run(system, NK, case["NKFFT"], calcs, irred, tmp, f"{tag}{mult}")
        for nm in good:
            a, b = res["irr"].results[nm], res["full"].results[nm]
            if isinstance(a, VoidResult):
                continue
            scale = max(mean_norm(st["full"][nm]), 1e-300)
            d, where = compare_energy(a, b)
            diffs.setdefault(nm, []).append((d / scale, where))
    failures, nontrivial = [], []
    for nm, (d1, d2) in diffs.items():
        nontrivial.append((case["model"], "tetra:" + nm))
        if d2[0] > {0: 0.05, 1: 0.15}.get(fder.get(nm, 0), 0.3):
            failures.append((f"irr!=full:tetra:{nm.split(':')[0]}",
                             f"{nm}: |diff|/scale N={d1[0]:.3e} 2N={d2[0]:.3e} at {d2[1]}"))
    if failures:
        return {"ok": False, "key": failures[0][0], "nontrivial": nontrivial,
                "detail": f"model={case['model']} NK={case['NK']}: " + " || ".join(t for _, t in failures[:4])}
    return {"ok": True, "nontrivial": nontrivial, "obs": {"diffs": {k: [v[0][0], v[1][0]] for k, v in diffs.items()}, "not_runnable": bad}}


def finish(tier, cases_, results):
    ran, notrun, worst = set(), {}, 0.0
    for c, r in zip(cases_, results):
        obs = r.get("obs")
        if isinstance(obs, dict):
            for k, v in (obs.get("worst") or {}).items():
                ran.add(k)
                if v <= TOL:
                    worst = max(worst, v)
            for k, v in (obs.get("not_runnable") or {}).items():
                notrun.setdefault(k, set()).add(v.split(":")[0])
    never = sorted(k for k in notrun if k not in ran)
    return {"calculators_compared": sorted(ran), "never_runnable_on_any_model": {k: sorted(notrun[k]) for k in never},
            "worst_relative_difference_among_passing": worst,
            "axes": {"models": len({c["model"] for c in cases_}), "batches": list(BATCHES_QUICK) + (["tetra"] if tier == "thorough" else []),
                     "runs": 3 * sum(1 for c in cases_ if c["kind"] == "run")}}
