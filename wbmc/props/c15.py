"""C15 — degenerate multiplets are never split.

Exhaustive product: every sorted energy array of n bands whose consecutive gaps come from the gap
alphabet {0, t/2, t(1-1e-6), t(1+1e-6), 2t, 10t} (all 6^(n-1) patterns) x thresholds x every pair of
window edges from {below all, each band -+ t/4, each gap midpoint, above all} x include_degen x
return_indices, against a chain-linked reference partition written here.
Plus: get_borders / get_bands_in_range / find_degen on the same arrays (x Kramers), and Tabulators on
systems with exact multiplets of size 2 and 3.
"""
import itertools

import numpy as np

ID = "C15"
LEVEL = "exploration"
RULE = ("cases = (n bands, gap pattern over the 6-letter gap alphabet, threshold); each case runs every "
        "(win_min, win_max) pair from the edge alphabet x include_degen x return_indices through "
        "select_window_degen and every (thresh, Kramers) through get_borders/get_bands_in_range/find_degen; "
        "non-trivial = gap pattern contains a multiplet of size>=2 that some window edge cuts (counted per distinct "
        "(pattern,threshold)); tabulator cases: non-trivial = system has an exact multiplet")
ASSUMPTIONS = ["gap alphabet avoids gaps exactly equal to the threshold (select_window_degen uses '<', get_borders '>')",
               "n <= 5 (quick) / 6 (thorough) bands; multiplets larger than n are not reached"]

GAPS = ("0", "half", "below", "above", "2t", "10t")


def gapval(g, t):
    return {"0": 0.0, "half": t / 2, "below": t * (1 - 1e-6), "above": t * (1 + 1e-6), "2t": 2 * t, "10t": 10 * t}[g]


def cases(tier, seed):
    nmax = 5 if tier == "quick" else 6
    ts = (1e-2,) if tier == "quick" else (1e-2, 1e-4, 0.3)
    for t in ts:
        for n in range(1, nmax + 1):
            for pat in itertools.product(range(len(GAPS)), repeat=n - 1):
                yield {"kind": "window", "t": t, "pat": list(pat)}
    # Tabulator on exact multiplets
    for mult in (1, 2, 3):
        for base in ("chiral", "zoo2"):
            for thr in (1e-4, 1e-2):
                for kram in (False, True):
                    yield {"kind": "tab", "mult": mult, "base": base, "thr": thr, "kramers": kram}


def energies(case):
    t = case["t"]
    E = [-1.0]
    for g in case["pat"]:
        E.append(E[-1] + gapval(GAPS[g], t))
    return np.array(E)


def ref_blocks(E, t, strict):
    """chain-linked blocks. strict=True: degenerate iff gap < t ; False: iff gap <= t"""
    blocks = [[0]]
    for i in range(1, len(E)):
        gap = E[i] - E[i - 1]
        deg = (gap < t) if strict else (gap <= t)
        if deg:
            blocks[-1].append(i)
        else:
            blocks.append([i])
    return blocks


def ref_window(E, t, wmin, wmax, include):
    plain = [(wmin <= e <= wmax) for e in E]
    if not any(plain):
        return [False] * len(E)
    out = [False] * len(E)
    for b in ref_blocks(E, t, strict=True):
        ins = [plain[i] for i in b]
        if all(ins) or (include and any(ins)):
            for i in b:
                out[i] = True
    return out


def run_window(case):
    from wannierberri.utility import select_window_degen, find_degen
    from wannierberri.grid.tetrahedron import get_borders, get_bands_in_range
    E = energies(case)
    t = case["t"]
    n = len(E)
    edges = [E[0] - 1.0, E[-1] + 1.0]
    for e in E:
        edges += [e - t / 4, e + t / 4]
    for a, b in zip(E[:-1], E[1:]):
        if b > a:
            edges.append((a + b) / 2)
    edges = sorted(set(edges))
    blocks = ref_blocks(E, t, strict=True)
    cut = False
    for wmin in edges:
        for wmax in edges:
            plain = [(wmin <= e <= wmax) for e in E]
            if any(plain):
                for b in blocks:
                    ins = [plain[i] for i in b]
                    if any(ins) and not all(ins):
                        cut = True
            for include in (False, True):
                ref = ref_window(E, t, wmin, wmax, include)
                got = select_window_degen(E.copy(), thresh=t, win_min=wmin, win_max=wmax, include_degen=include)
                got = [bool(x) for x in got]
                gi = select_window_degen(E.copy(), thresh=t, win_min=wmin, win_max=wmax, include_degen=include,
                                         return_indices=True)
                gi = [int(i) for i in gi]
                if gi != [i for i in range(n) if got[i]]:
                    return {"ok": False, "key": "select_window_degen:indices_vs_mask",
                            "detail": f"E={E.tolist()} win=({wmin},{wmax}) include={include} mask={got} idx={gi}"}
                if got != ref:
                    # classify: is a multiplet split?
                    split = any(len({got[i] for i in b}) > 1 for b in blocks)
                    big = max(len(b) for b in blocks)
                    key = ("select_window_degen:split_multiplet" if split else "select_window_degen:wrong_selection")
                    key += f":include={include}"
                    return {"ok": False, "key": key, "nontrivial": cut,
                            "detail": f"E={E.tolist()} thresh={t} win=({wmin},{wmax}) include_degen={include} "
                                      f"got={got} expected={ref} (largest multiplet {big})"}
    # band grouping
    for thr in (t, -1):
        refb = ref_blocks(E, thr, strict=False)
        for kram in (False, True):
            got = get_borders(E, thr, degen_Kramers=kram)
            got = [[int(a), int(b)] for a, b in got]
            # partition into contiguous blocks covering 0..n
            flat = [i for a, b in got for i in range(a, b)]
            if kram and n % 2 == 1:
                # the statement is about Kramers-degenerate (even) band counts; only require no crash
                continue
            if flat != list(range(n)):
                return {"ok": False, "key": "get_borders:not_a_partition",
                        "detail": f"E={E.tolist()} thr={thr} kramers={kram} got={got}"}
            for a, b in got:
                for i in range(a + 1, b):
                    if not kram and not (E[i] - E[i - 1] <= thr):
                        return {"ok": False, "key": "get_borders:internal_gap", "detail": f"E={E.tolist()} thr={thr} got={got}"}
                if a > 0:
                    if not (E[a] - E[a - 1] > thr):
                        return {"ok": False, "key": "get_borders:boundary_gap", "detail": f"E={E.tolist()} thr={thr} kram={kram} got={got}"}
                    if kram and a % 2:
                        return {"ok": False, "key": "get_borders:odd_boundary", "detail": f"E={E.tolist()} thr={thr} got={got}"}
            if not kram:
                if got != [[b[0], b[-1] + 1] for b in refb]:
                    return {"ok": False, "key": "get_borders:differs_from_reference",
                            "detail": f"E={E.tolist()} thr={thr} got={got} ref={refb}"}
                fd = [[int(a), int(b)] for a, b in find_degen(E, thr)]
                if fd != got:
                    return {"ok": False, "key": "find_degen:differs", "detail": f"E={E.tolist()} thr={thr} {fd} vs {got}"}
            else:
                # every reference boundary on an even index must be kept
                want = [0] + [b[0] for b in refb[1:] if b[0] % 2 == 0] + [n]
                have = [a for a, b in got] + [n]
                if want != have:
                    return {"ok": False, "key": "get_borders:kramers_boundaries",
                            "detail": f"E={E.tolist()} thr={thr} got={got} want starts {want}"}
            # get_bands_in_range returns whole blocks whose energies intersect the range
            for emin, emax in ((edges[0], edges[-1]), (edges[len(edges) // 2], edges[-1]), (edges[0], edges[len(edges) // 3])):
                br = get_bands_in_range(emin, emax, E, degen_thresh=thr, degen_Kramers=kram)
                br = [[int(a), int(b)] for a, b in br]
                exp = [[a, b] for a, b in got if E[a:b].max() >= emin and E[a:b].min() <= emax]
                if br != exp:
                    return {"ok": False, "key": "get_bands_in_range:differs",
                            "detail": f"E={E.tolist()} thr={thr} range=({emin},{emax}) {br} vs {exp}"}
    return {"ok": True, "nontrivial": (("cut", case["t"], tuple(case["pat"])) if cut else False)}


def make_multiplet_system(base, mult, seed):
    import wannierberri as wb
    from wbmc import zoo
    if base == "chiral":
        from wannierberri import models
        s0 = models.Chiral()
        s0 = wb.system.System_R.from_pythtb(s0, silent=True)
    else:
        s0 = zoo.make_system(2, "tric", "shell1", "generic", seed=seed, matrices=("Ham", "AA"))
    if mult == 1:
        return s0
    # H (x) 1_mult : every band becomes an exact multiplet of size `mult`
    from wannierberri.system.system_R import System_R
    from wannierberri.fourier.rvectors import Rvectors
    nw = s0.num_wann
    s = System_R(silent=True, name="mult")
    s.set_real_lattice(s0.real_lattice)
    s.num_wann = nw * mult
    s.wannier_centers_cart = np.repeat(s0.wannier_centers_cart, mult, axis=0)
    s.rvec = Rvectors(lattice=s.real_lattice, iRvec=s0.rvec.iRvec, shifts_left_red=s.wannier_centers_red)
    for key, X in s0._XX_R.items():
        Y = np.zeros((X.shape[0], nw * mult, nw * mult) + X.shape[3:], dtype=complex)
        for m in range(mult):
            Y[:, m::mult, m::mult] = X
        s.set_R_mat(key, Y)
    s.set_pointgroup()
    return s


def run_tab(case, seed):
    import wannierberri as wb
    from wannierberri.calculators import tabulate
    mult = case["mult"]
    s = make_multiplet_system(case["base"], mult, seed)
    if case["kramers"] and (s.num_wann % 2):
        return {"ok": True, "nontrivial": False}
    kw = dict(degen_thresh=case["thr"], degen_Kramers=case["kramers"], print_comment=False)
    calcs = {"E": tabulate.Energy(print_comment=False),
             "V": tabulate.Velocity(**kw),
             "O": tabulate.BerryCurvature(kwargs_formula={"external_terms": s.has_R_mat("AA")}, **kw),
             "M": tabulate.InvMass(**kw)}
    for k in ((0.11, 0.23, 0.37), (0.5, 0.2, 0.0), (0.0, 0.0, 0.0)):
        res = wb.evaluate_k(s, k=k, calculators=calcs)
        res = {k_: np.array(v.data[0]) for k_, v in res.items()}
        E = np.array(res["E"]).reshape(-1)
        blocks = ref_blocks(E, case["thr"], strict=False)
        if case["kramers"]:
            # merge blocks so that boundaries are even
            merged = [[]]
            for b in blocks:
                if b[0] % 2 == 0 and merged[-1]:
                    merged.append([])
                merged[-1] += b
            blocks = merged
        for name in ("V", "O", "M"):
            X = np.array(res[name])
            X = X.reshape((len(E), -1))
            scale = max(1.0, np.abs(X).max())
            for b in blocks:
                d = np.abs(X[b] - X[b[0]]).max()
                if d > 1e-9 * scale:
                    return {"ok": False, "key": f"Tabulator:{name}:varies_inside_block",
                            "detail": f"k={k} block={b} spread={d} E={E.tolist()}"}
    return {"ok": True, "nontrivial": (("tab", case["base"], mult) if mult > 1 else False)}


def run_case(case, seed):
    if case["kind"] == "window":
        return run_window(case)
    return run_tab(case, seed)
