"""C30 — grid tabulation covers every grid point exactly once, in C order, with its own values;
component extraction equals the algebraic operation on the stored tensor.

Seam: run(system, Grid(NKdiv, NKFFT), {"tab": TabulatorAll({...}, ibands, mode="grid")}, parallel=False)
-> TABresult.get_data / K__Result.get_component / get_component / get_component_list / fermiSurfer and the
npz file run() writes.

One case = (system, variant, N, ibands).  variant "plain": trivial point group, use_irred_kpt=False, every
factorisation NKdiv x NKFFT = N; variant "irred": the model's own point group declared (C3z, C3z+T),
use_irred_kpt=True, every factorisation whose NKdiv and NKFFT are both symmetric.  Inside a case every
factorisation is run through the real run() and judged against one oracle computed once per case:

* oracle(q)[slot (i,j,l)] = evaluate_k(system, k=(i/N1, j/N2, l/N3), calculators={q: Tabulator(ibands)})
  (that point evaluated alone); for System_R the band energies are additionally recomputed in the harness
  by diagonalising sum_R exp(2 pi i k.R) H(R);
* tab.grid == N, tab.kpoints == the C-ordered mesh, nk == prod(N); the k-points collected *before* gridding
  (seen by a spy on TABresult.to_grid) hit every slot exactly once ("plain") / at least once ("irred");
* get_data(q) == oracle(q) slot by slot (a mismatch is classified: right values in wrong slots / wrong values);
* get_data(q, iband=int | list) == the corresponding slice of get_data(q);
* every component specification of the alphabet (x, y, z, upper case, norm, sq, all index strings, trace,
  explicit tuples) == the numpy operation on get_data(q), through TABresult.get_data, K__Result.get_component
  and the module-level get_component; invalid specifications (wrong length, unknown letter, trace/norm on the
  wrong rank, out-of-range tuple, non-string) must raise; get_component_list lists exactly the valid strings;
* the npz file written by run() and the FermiSurfer text (fermiSurfer) contain get_data in C order.
"""
import itertools
import os

import numpy as np

ID = "C30"
LEVEL = "exploration"
RULE = ("cases = (system, variant plain|irred, N, ibands); each case runs the real run(TabulatorAll(mode='grid')) for "
        "every admissible factorisation NKdiv x NKFFT = N and checks every slot of every tabulated quantity against "
        "evaluate_k at that grid point, every iband selection and every component specification of the alphabet; "
        "non-trivial = one key per (system,variant,N,ibands,NKFFT,fftlib) run whose grid has >=2 points in at least "
        "two directions or >=3 in one (so that a stride / ordering error is visible)")
ASSUMPTIONS = [
    "systems: Chiral (3D, spin), Haldane (2D), zoo System_R with external terms (triclinic, 3 bands), thorough: "
    "KaneMele (2D, spinful, Kramers-degenerate at TRIMs); point groups C3z / C3z+TimeReversal only",
    "grid sizes from a fixed alphabet (<= 6 points per direction, <= 36 k-points)",
    "tabulators Energy, Velocity, BerryCurvature, InvMass, DerBerryCurvature (non-symmetric rank 2), Der3E (rank 3), "
    "Spin (+ OrbitalMoment, DerSpin in thorough); degen_thresh default",
    "a *partial* component string on a higher-rank tensor ('x' on a rank-2 tensor) is neither required to raise "
    "nor to return anything specific (the statement lists full components only); 'trace' of a rank-3 tensor is "
    "taken as sum_i T_iii (the code's documented meaning)",
    "the oracle evaluate_k is the library's own single-point entry (NKFFT=1); for System_R the energies are also "
    "recomputed independently in the harness",
]

RTOL = 1e-9

N_3D = {"quick": [(2, 2, 2), (3, 2, 1), (4, 4, 1)], "thorough": [(2, 2, 2), (3, 2, 1), (4, 4, 1), (2, 3, 4), (3, 3, 2), (4, 4, 2)]}
N_2D = {"quick": [(2, 2, 1), (3, 2, 1), (4, 4, 1)], "thorough": [(2, 2, 1), (3, 2, 1), (4, 4, 1), (6, 2, 1), (3, 3, 1), (6, 6, 1)]}
SYS_2D = ("haldane", "kanemele")
NB = {"chiral": 2, "haldane": 2, "kanemele": 4, "zoo": 3}
HAS_SS = {"chiral": True, "haldane": False, "kanemele": True, "zoo": True}
SYMMETRIC = ("chiral", "haldane", "kanemele")


def _tab_names(sysname, tier):
    # DerBerryCurvature: the rank-2 tensor that is *not* symmetric (InvMass and Der3E are), so that a transposed
    # index order is visible
    names = ["Energy", "Velocity", "BerryCurvature", "InvMass", "DerBerryCurvature", "Der3E"]
    if HAS_SS[sysname]:
        names.append("Spin")
    if tier == "thorough":
        names += ["OrbitalMoment", "DerSpin"] if HAS_SS[sysname] else ["OrbitalMoment"]
    return names


def cases(tier, seed):
    systems = ("haldane", "chiral", "zoo") if tier == "quick" else ("haldane", "chiral", "zoo", "kanemele")
    if tier == "quick":
        # a group with an operation that reverses k (time reversal): the symmetry copies of an irreducible point land on -Rk
        N = (4, 4, 1)          # (on a 2x2 mesh every k equals -k)
        yield {"sys": "kanemele", "variant": "irred", "N": list(N), "ibands": None, "tabs": _tab_names("kanemele", tier), "libs": ["fftw"]}
    for sysname in systems:
        nb = NB[sysname]
        ibs = [None, [0], [nb - 1, 0]]
        if tier == "thorough":
            ibs.append([1])
            if nb > 2:
                ibs.append([2, 0, 1])
        Ns = (N_2D if sysname in SYS_2D else N_3D)[tier]
        for variant in ("plain", "irred"):
            if variant == "irred" and sysname not in SYMMETRIC:
                continue
            for N in Ns:
                if variant == "irred" and N[0] != N[1]:
                    continue  # C3z needs N1 == N2 (Grid refuses anything else)
                for ib in ibs:
                    yield {"sys": sysname, "variant": variant, "N": list(N), "ibands": ib,
                           "tabs": _tab_names(sysname, tier),
                           "libs": ["fftw"] if tier == "quick" else ["fftw", "numpy"]}


# ----------------------------------------------------------------------------------------------
#  reference operations
# ----------------------------------------------------------------------------------------------

XYZ = "xyz"


def component_alphabet(rank):
    """-> (valid: list of (spec, function on full tensor with the 3^rank axes last), invalid: list of spec)"""
    valid, invalid = [], []
    if rank == 0:
        return valid, invalid
    for idx in itertools.product(range(3), repeat=rank):
        s = "".join(XYZ[i] for i in idx)
        valid.append((s, (lambda T, idx=idx: T[(Ellipsis,) + idx])))
        valid.append((tuple(idx), (lambda T, idx=idx: T[(Ellipsis,) + idx])))
    first = "".join(XYZ[i] for i in (1, 0, 2)[:rank])
    valid.append((first.upper(), (lambda T, idx=tuple((1, 0, 2)[:rank]): T[(Ellipsis,) + idx])))
    if rank == 1:
        valid.append(("norm", lambda T: np.sqrt((T ** 2).sum(axis=-1))))
        valid.append(("sq", lambda T: (T ** 2).sum(axis=-1)))
        invalid += [("too_long", "xx"), ("too_long", (0, 1)), ("wrong_keyword", "trace"), ("unknown_letter", "w"),
                    ("not_str_or_tuple", 5), ("tuple_out_of_range", (3,))]
    else:
        valid.append(("trace", lambda T, r=rank: sum(T[(Ellipsis,) + (i,) * r] for i in range(3))))
        valid.append(("TRACE", lambda T, r=rank: sum(T[(Ellipsis,) + (i,) * r] for i in range(3))))
        invalid += [("too_long", "x" * (rank + 1)), ("too_long", "xy" + "z" * (rank - 1)), ("too_long", (0,) * (rank + 1)),
                    ("wrong_keyword", "norm"), ("unknown_letter", "x" * (rank - 1) + "w"),
                    ("tuple_out_of_range", (0,) * (rank - 1) + (3,)), ("not_str_or_tuple", 7)]
    return valid, invalid


def expected_component_list(rank):
    if rank == 0:
        return [None]
    out = ["".join(s) for s in itertools.product(XYZ, repeat=rank)]
    if rank >= 2:
        out.append("trace")
    return out


def mesh_C(N):
    return np.array([[i / N[0], j / N[1], l / N[2]] for i in range(N[0]) for j in range(N[1]) for l in range(N[2])])


def direct_energies(system, k):
    iR = np.array(system.rvec.iRvec)
    H = np.einsum("r,rab->ab", np.exp(2j * np.pi * iR.dot(k)), system.get_R_mat("Ham"))
    return np.linalg.eigvalsh(0.5 * (H + H.conj().T))


def parse_frmsf(txt):
    lines = txt.split("\n")
    grid = [int(x) for x in lines[0].split()]
    nband = int(lines[2].split()[0])
    vals = np.array([float(x) for x in lines[6:] if x.strip() != ""])
    nk = int(np.prod(grid))
    return grid, nband, vals.reshape((-1, nband, nk)) if vals.size % (nband * nk) == 0 else vals


# ----------------------------------------------------------------------------------------------

def _fail(key, detail, keys):
    return {"ok": False, "key": key, "detail": detail, "nontrivial": keys}


def run_case(case, seed):
    """library exceptions become keyed findings that keep the non-trivial tags collected so far"""
    import traceback
    keys = []
    try:
        return _run_case(case, seed, keys)
    except Exception as e:
        tb = traceback.format_exc()
        site = [ln.strip() for ln in tb.splitlines() if "wannierberri/" in ln]
        where = site[-1].split("wannierberri/")[-1].split(",")[0].strip('"') if site else "harness"
        return {"ok": False, "key": f"exception:{type(e).__name__}:{where}", "detail": f"{case}: {type(e).__name__}: {e}",
                "traceback": tb[-2000:], "nontrivial": keys or [("raised", canon_case(case))]}


def canon_case(case):
    return (case["sys"], case["variant"], tuple(case["N"]), str(case["ibands"]))


def _run_case(case, seed, keys):
    import wannierberri as wb
    from wannierberri.calculators import TabulatorAll
    from wannierberri.result import tabresult as TR
    from wannierberri.result.kbandresult import get_component as wb_get_component
    from wbmc import gridrun as G
    sysname, variant, N, ib = case["sys"], case["variant"], tuple(case["N"]), case["ibands"]
    irred = variant == "irred"
    system = G.build_system(sysname, seed, symmetric=irred)
    if system.num_wann != NB[sysname] or bool(system.has_R_mat("SS")) != HAS_SS[sysname]:
        return {"ok": False, "key": "harness:system_table", "detail": sysname}
    names = case["tabs"]
    nsel = len(ib) if ib is not None else system.num_wann
    kmesh = mesh_C(N)
    nk = len(kmesh)

    def fresh_tabs():
        return {q: G.make_tabulator(q, ib) for q in names}

    # ---- oracle: every grid point evaluated alone
    oracle = {q: [] for q in names}
    for k in kmesh:
        o = wb.evaluate_k(system, k=tuple(k), calculators=fresh_tabs(), return_single_as_dict=True)
        for q in names:
            oracle[q].append(np.array(o[q].data[0]))
        Ed = direct_energies(system, k)
        Ed = Ed[list(ib)] if ib is not None else Ed
        if np.abs(Ed - oracle["Energy"][-1]).max() > RTOL * max(1, np.abs(Ed).max()):
            return {"ok": False, "key": "evaluate_k:Energy_differs_from_direct_diagonalisation",
                    "detail": f"{sysname} k={k.tolist()} ibands={ib}: {oracle['Energy'][-1]} vs {Ed}"}
    oracle = {q: np.array(v) for q, v in oracle.items()}
    rank = {q: oracle[q].ndim - 2 for q in names}

    facts = G.factorisations(N)
    if irred:
        pg = system.pointgroup
        facts = [(d, f) for (d, f) in facts if pg.symmetric_grid(np.array(d)) and pg.symmetric_grid(np.array(f))]
    libs = tuple(case["libs"])
    visible = sum(1 for n in N if n >= 2) >= 2 or max(N) >= 3
    spy = []
    orig_to_grid = TR.TABresult.to_grid

    def to_grid_spy(self, grid, order='C'):
        spy.append(np.array(self.kpoints, dtype=float))
        return orig_to_grid(self, grid, order=order)

    nchecks = 0
    pending = None
    observed_too_long = [0]      # over-long component specs accepted by the library (observation only)
    TR.TABresult.to_grid = to_grid_spy
    try:
        with G.case_tmpdir() as tmp:
            for (div, fft) in facts:
                for lib in libs:
                    what = f"{sysname} {variant} N={N} NKdiv={div} NKFFT={fft} ibands={ib} fftlib={lib}"
                    del spy[:]
                    grid = G.make_grid(system, div=div, fft=fft)
                    res = G.run_on_grid(system, grid, {"tab": TabulatorAll(fresh_tabs(), ibands=ib, mode="grid")},
                                        tmp, fftlib=lib, use_irred=irred)
                    tab = res.results["tab"]
                    if visible:  # the run exercised the mechanism, whatever the verdict below
                        keys.append((sysname, variant, N, tuple(ib) if ib is not None else None, fft, lib))
                    # ---- 1. shape of the grid, C-ordered k-points
                    if tab.grid is None or tuple(int(x) for x in tab.grid) != N:
                        return _fail("tab:grid_size", f"{what}: tab.grid={tab.grid}", keys)
                    if np.array(tab.kpoints).shape != kmesh.shape or np.abs(np.array(tab.kpoints) - kmesh).max() > 1e-12:
                        return _fail("tab:kpoints_not_C_ordered_mesh", f"{what}: kpoints={np.array(tab.kpoints)[:6].tolist()}", keys)
                    if tab.nband != nsel:
                        return _fail("tab:nband", f"{what}: nband={tab.nband} expected {nsel}", keys)
                    # ---- 2. raw k-points cover every slot (exactly once without symmetry)
                    if not spy:
                        return _fail("harness:no_to_grid_call", what, keys)
                    raw = spy[0]
                    slot = np.rint(raw * np.array(N)[None, :]).astype(int)
                    if np.abs(slot / np.array(N)[None, :] - raw).max() > 1e-9:
                        return _fail("tab:raw_kpoint_off_grid", f"{what}: {raw[np.argmax(np.abs(slot / np.array(N) - raw).max(axis=1))]}", keys)
                    slot %= np.array(N)[None, :]
                    flat = slot[:, 2] + N[2] * (slot[:, 1] + N[1] * slot[:, 0])
                    cnt = np.bincount(flat, minlength=nk)
                    if (not irred and (len(raw) != nk or np.any(cnt != 1))) or (irred and np.any(cnt < 1)):
                        return _fail("tab:slot_multiplicity",
                                     f"{what}: {len(raw)} raw k-points, per-slot counts {cnt.tolist()}", keys)
                    # ---- 3. values slot by slot
                    full = {}
                    for q in names:
                        X = np.array(tab.get_data(q))
                        want_shape = N + (nsel,) + (3,) * rank[q]
                        if X.shape != want_shape:
                            return _fail(f"get_data:shape:{q}", f"{what}: {X.shape} expected {want_shape}", keys)
                        full[q] = X
                        ref = oracle[q].reshape(want_shape)
                        tol = RTOL * max(1.0, float(np.abs(ref).max()))
                        bad = ~np.isfinite(X) | (np.abs(X - ref) > tol)
                        if np.any(bad):
                            Xr = X.reshape((nk, -1))
                            Rr = ref.reshape((nk, -1))
                            # is it a permutation of the slots ?
                            perm = all(np.any(np.all(np.abs(Rr - row[None, :]) <= tol, axis=1)) for row in Xr) \
                                and bool(np.all(np.isfinite(Xr)))
                            islot = np.argwhere(bad)[0]
                            kind = "values_in_wrong_slot" if perm else "wrong_value"
                            return _fail(f"tab:{kind}:{q}",
                                         f"{what}: first bad index {islot.tolist()} got {X[tuple(islot)]} "
                                         f"expected {ref[tuple(islot)]} ({int(bad.sum())} bad entries)", keys)
                        nchecks += 1
                    # ---- 4. files
                    npz = os.path.join(tmp, "r-tab-v.npz")
                    if not os.path.exists(npz):
                        return _fail("tab:npz_not_written", f"{what}: {os.listdir(tmp)}", keys)
                    with np.load(npz) as f:
                        for q in names:
                            if f[q].shape != full[q].shape or np.abs(f[q] - full[q]).max() > 0:
                                return _fail(f"tab:npz_differs:{q}", what, keys)
                    os.remove(npz)
                    # ---- 5. iband selections of get_data
                    for q in names:
                        for sel in (0, nsel - 1, [0], list(range(nsel))[::-1], np.arange(nsel)):
                            Y = np.array(tab.get_data(q, iband=sel))
                            exp = full[q][:, :, :, sel]
                            if Y.shape != exp.shape or np.abs(Y - exp).max() > 0:
                                return _fail(f"get_data:iband:{'int' if isinstance(sel, int) else 'list'}",
                                             f"{what}: quantity {q} iband={sel} shape {Y.shape} vs {exp.shape}", keys)
                            nchecks += 1
                    # ---- 6. components
                    for q in names:
                        r = rank[q]
                        kres = tab.results[q]
                        cl = kres.get_component_list()
                        if list(cl) != expected_component_list(r):
                            return _fail(f"get_component_list:rank{r}", f"{what}: {q}: {cl}", keys)
                        if r == 0:
                            try:
                                kres.get_component("x")
                                return _fail("get_component:invalid_accepted:rank0", f"{what}: {q}", keys)
                            except Exception:
                                pass
                            continue
                        valid, invalid = component_alphabet(r)
                        T = full[q]
                        flatT = np.array(kres.data)
                        for spec, fun in valid:
                            exp = fun(T)
                            tol = 1e-13 * max(1.0, float(np.abs(exp).max()))
                            if not isinstance(spec, str):
                                cls = "tuple"
                            elif spec.lower() in ("norm", "sq", "trace"):
                                cls = spec.lower()
                            else:
                                cls = "letters"
                            try:
                                got = [np.array(tab.get_data(q, component=spec)),
                                       np.array(kres.get_component(spec)).reshape(exp.shape),
                                       np.array(wb_get_component(flatT, ndim=r, component=spec)).reshape(exp.shape)]
                            except Exception as e:
                                return _fail(f"component:valid_rejected:rank{r}:{cls}",
                                             f"{what}: {q} component={spec!r}: {type(e).__name__}: {e}", keys)
                            for via, Y in zip(("get_data", "K__Result.get_component", "get_component"), got):
                                if Y.shape != exp.shape or not np.all(np.abs(Y - exp) <= tol):
                                    return _fail(f"component:rank{r}:{cls}",
                                                 f"{what}: {q} component={spec!r} via {via}: differs from the numpy "
                                                 f"operation by {np.abs(Y - exp).max() if Y.shape == exp.shape else Y.shape}", keys)
                            # component and band selection together
                            for sel in (nsel - 1, list(range(nsel))[::-1]):
                                Yb = np.array(tab.get_data(q, iband=sel, component=spec))
                                eb = exp[:, :, :, sel]
                                if Yb.shape != eb.shape or not np.all(np.abs(Yb - eb) <= tol):
                                    return _fail("get_data:iband_with_component",
                                                 f"{what}: {q} component={spec!r} iband={sel}: shape {Yb.shape} vs "
                                                 f"{eb.shape}, max diff "
                                                 f"{np.abs(Yb - eb).max() if Yb.shape == eb.shape else 'n/a'}", keys)
                            nchecks += 1
                        for kind, spec in invalid:
                            for via, call in (("TABresult.get_data", lambda: tab.get_data(q, component=spec)),
                                              ("K__Result.get_component", lambda: kres.get_component(spec)),
                                              ("get_component", lambda: wb_get_component(flatT, ndim=r, component=spec))):
                                try:
                                    val = call()
                                except Exception:
                                    continue
                                # An over-long specification ('xyz' on a rank-2 tensor) is not a component at all, and the
                                # statement only speaks about valid components: that the library returns some array
                                # for it instead of raising is recorded as an observation, not judged (DESIGN.md §11).
                                if kind == "too_long":
                                    observed_too_long[0] += 1
                                    continue
                                # not fatal for the rest of the case: remembered, reported at the end unless a
                                # different failure (wrong slot / wrong value ...) shows up first
                                if pending is None:
                                    pending = _fail(f"get_component:invalid_accepted:{kind}",
                                                    f"{what}: {q} (rank {r}, stored shape {flatT.shape}) component="
                                                    f"{spec!r} via {via} did not raise but returned an array of shape "
                                                    f"{np.shape(val)}", keys)
                            nchecks += 1
                    # ---- 7. FermiSurfer text is C ordered, band-major
                    qf = "Velocity"
                    txt = tab.fermiSurfer(quantity=qf, component="y", efermi=0.0, npar=0)
                    g, nbf, vals = parse_frmsf(txt)
                    expE = np.moveaxis(full["Energy"].reshape((nk, nsel)), 1, 0)
                    expV = np.moveaxis(full[qf][..., 1].reshape((nk, nsel)), 1, 0)
                    if tuple(g) != N or nbf != nsel or getattr(vals, "shape", None) != (2, nsel, nk) or \
                            np.abs(vals[0] - expE).max() > 2e-8 or np.abs(vals[1] - expV).max() > 2e-8:
                        return _fail("fermiSurfer:order", f"{what}: header {g} {nbf}", keys)
    finally:
        TR.TABresult.to_grid = orig_to_grid
    obs = {"runs": len(facts) * len(libs), "checks": nchecks, "nk": nk, "quantities": len(names)}
    if pending is not None:
        pending["obs"] = obs  # every other check of the case was completed and held
        return pending
    return {"ok": True, "nontrivial": keys, "obs": obs}


def finish(tier, cases, results):
    return {"run_calls": sum(int((r.get("obs") or {}).get("runs", 0)) for r in results),
            "elementary_comparisons": sum(int((r.get("obs") or {}).get("checks", 0)) for r in results),
            "systems": sorted({c["sys"] for c in cases}),
            "grid_sizes": sorted({tuple(c["N"]) for c in cases}),
            "ibands": sorted({str(c["ibands"]) for c in cases}),
            "tabulators": sorted({t for c in cases for t in c["tabs"]}),
            "component_specs_per_rank": {str(r): len(component_alphabet(r)[0]) + len(component_alphabet(r)[1])
                                         for r in (1, 2, 3)}}
