"""C20 — real-space symmetrisation yields a symmetric, Hermitian model.

Exhaustive product: structures x projection sets x soc x magnetic order x R-set x centre mode
({on the projection sites, displaced generically}) x data {one generic Hermitian element, the impulse basis}.
Every case runs the real `System_R.symmetrize` (or `SymWann.symmetrize` for the impulse cases) and is judged by

  * Hermiticity X(-R) = X(R)^+ of Ham, AA, SS,
  * k-space covariance, as in the statement, through the real evaluation path (`evaluate_k`): energies at g k
    equal those at k; total Berry curvature and spin at g k equal the transformed values (summed over
    degenerate multiplets), at 3 k-points, for every operation g of the resulting group,
  * an independent R-space reference (`wbmc/symwann_oracle.py`): g.X = X for Ham, SS and for the position
    operator  AA + diag(centres - sites),
  * the point group declared on the system (`system.pointgroup`, what `check_symmetry` and the grids use) is the
    group the model was symmetrised with,
  * the Wannier centres map onto each other: every g t_n coincides (mod lattice) with a centre of the image shell,
  * symmetrising again changes nothing (matrices on common R-vectors, zeros on the others, centres).

Failure keys are `<observable>:<centre mode>:<shell class>:<structure>:<projections>:soc=..:mag=..` where the
shell class says whether every orbital representation matrix (including the spin part) is a generalised
permutation ("monomial") or not.  The one expected defect (centres displaced + an operation that mixes orbitals
with different starting centres + only position-related observables failing) gets the key
`displaced_nonmonomial_centres:<structure>:<projections>:soc=..:mag=..[:hamonly][:subgroup]`; a failure with
centres on the sites, for monomial shells, or of any other observable keeps its own key.
"""
import copy

import numpy as np

ID = "C20"
LEVEL = "exploration"
RULE = ("cases = (structure, projection set, soc, magnetic order, R-set, centre mode, data); 'sys' cases symmetrise one "
        "generic Hermitian model (Ham, AA, SS if soc; or Ham alone) with System_R.symmetrize and check Hermiticity, k-space covariance of "
        "energies / total Berry curvature / spin for every group operation at 2 (quick) / 3 (thorough) k-points, R-space invariance against an "
        "independent reference, mapping of the centres, and idempotence; 'lin' cases push every impulse e(R,m,n[,c]) of the "
        "starting R-set through SymWann.symmetrize and check g.Px=Px, P(x^+)=(Px)^+ and (thorough) P^2=P. non-trivial = the group has an "
        "operation other than E/TR and the symmetrisation changed the model (counted per distinct "
        "(structure, projections, soc, mag, centre mode, shell class))")
ASSUMPTIONS = [
    "structures: sc 1 atom, bcc 1 atom, hexagonal 2 species, hcp (2 equal atoms, non-symmorphic), zinc-blende, monoclinic "
    "2 species (group m), bcc ferromagnet (m || z), CsCl-type antiferromagnet, zinc-blende with a moment || [111] on one "
    "species (non-centrosymmetric magnetic group), trigonal Te (P3_121); other space groups are not reached",
    "atoms of one name always form a single Wyckoff orbit (symmetrize() warns that the other case is 'not much tested')",
    "';'-joined projections form one shell per atom (what System_R.symmetrize builds with do_not_split_projections=True)",
    "the orbital representation matrices rot_orb of the library are trusted in the R-space reference (they are the "
    "subject of C21); the k-space covariance oracle does not use them",
    "generic model = one seeded random Hermitian element per case; displaced centres = site + fixed generic offsets "
    "(|offset| <= 0.06 in reduced coordinates), every orbital displaced differently",
    "System_R only (SystemSOC.symmetrize2 is not reached); matrices Ham, AA, SS",
]

# name -> (zoo lattice, [(atom name, reduced position)], magnetic moments or None)
STRUCTS = {
    "sc1": ("sc", [("X", (0, 0, 0))], None),
    "bcc1": ("bcc", [("X", (0, 0, 0))], None),
    "hex2": ("hex", [("A", (1 / 3, 2 / 3, 0.0)), ("B", (2 / 3, 1 / 3, 0.5))], None),
    "hcp": ("hex", [("A", (1 / 3, 2 / 3, 0.25)), ("A", (2 / 3, 1 / 3, 0.75))], None),
    "zb": ("fcc", [("Ga", (0, 0, 0)), ("As", (0.25, 0.25, 0.25))], None),
    "mono2": ("mono", [("X", (0.1, 0.0, 0.2)), ("Y", (0.4, 0.5, 0.7))], None),
    "bccFM": ("bcc", [("X", (0, 0, 0))], [(0, 0, 1)]),
    "afm": ("sc", [("X", (0, 0, 0)), ("X", (0.5, 0.5, 0.5))], [(0, 0, 1), (0, 0, -1)]),
    "zbFM": ("fcc", [("Ga", (0, 0, 0)), ("As", (0.25, 0.25, 0.25))], [(1, 1, 1), (0, 0, 0)]),
    # triclinic cell doubled by the magnetic order: the magnetic group is {E, T*(E|1/2,0,0)} -- the two sublattices are
    # related ONLY by an operation that contains time reversal
    # related ONLY by an operation that contains time reversal (the non-magnetic Y atoms remove the inversion centres)
    "triAFM": ("tric", [("X", (0.11, 0.17, 0.23)), ("X", (0.61, 0.17, 0.23)), ("Y", (0.31, 0.62, 0.71)), ("Y", (0.81, 0.62, 0.71))],
               [(0.3, 0.4, 1.5), (-0.3, -0.4, -1.5), (0, 0, 0), (0, 0, 0)]),
    # trigonal tellurium (P3_121: screw axis, C2 sites) -- the structure of the repository's own Te_sparse fixture
    "te": ("hex", [("Te", (0.269, 0.0, 1 / 3)), ("Te", (0.731, 0.731, 0.0)), ("Te", (0.0, 0.269, 2 / 3))], None),
}

PROJS = {
    "sc1": [["X:s"], ["X:p"], ["X:eg"], ["X:t2g"], ["X:d"], ["X:sp3d2"], ["X:s", "X:p"], ["X:s;p"]],
    "bcc1": [["X:s"], ["X:p"], ["X:eg"], ["X:t2g"], ["X:d"], ["X:s", "X:t2g"]],
    "hex2": [["A:s", "B:s"], ["A:s", "B:p"], ["A:pz", "B:pz"], ["A:p", "B:p"], ["A:sp2", "B:pz"], ["A:s", "B:d"]],
    "hcp": [["A:s"], ["A:p"], ["A:s", "A:p"], ["A:s;p"], ["A:sp2"]],
    "zb": [["Ga:s", "As:s"], ["Ga:s", "As:p"], ["Ga:sp3", "As:sp3"], ["Ga:p", "As:p"], ["Ga:eg", "As:t2g"]],
    "mono2": [["X:s", "Y:s"], ["X:s", "Y:p"], ["X:p", "Y:d"]],
    "bccFM": [["X:s"], ["X:p"], ["X:t2g"], ["X:eg"]],
    "afm": [["X:s"], ["X:p"]],
    "zbFM": [["Ga:s", "As:s"], ["Ga:s", "As:p"], ["Ga:sp3", "As:sp3"]],
    "triAFM": [["X:s"], ["X:s", "Y:s"], ["X:p"], ["X:s", "Y:p"]],
    "te": [["Te:s"], ["Te:p"], ["Te:s", "Te:p"]],
}

QUICK_PROJS = {
    "sc1": [["X:s"], ["X:p"], ["X:eg"], ["X:sp3d2"], ["X:s;p"]],
    "bcc1": [["X:p"], ["X:t2g"]],
    "hex2": [["A:s", "B:p"], ["A:pz", "B:pz"], ["A:sp2", "B:pz"]],
    "hcp": [["A:s"], ["A:p"], ["A:s;p"]],
    "zb": [["Ga:s", "As:p"], ["Ga:sp3", "As:sp3"]],
    "mono2": [["X:s", "Y:p"]],
    "bccFM": [["X:p"], ["X:eg"]],
    "afm": [["X:s"], ["X:p"]],
    "zbFM": [["Ga:s", "As:s"]],
    "triAFM": [["X:s"], ["X:s", "Y:s"]],
    "te": [["Te:p"]],
}

KPOINTS = [(0.123, -0.271, 0.389), (0.31, 0.47, -0.09), (0.5, 0.2, 0.0)]


def magname(case):
    return {"bccFM": "ferro", "zbFM": "ferro", "afm": "afm", "triAFM": "afm_T_tau_only"}.get(case["struct"], "none")


def projkey(proj):
    return "+".join(p.replace(":", ".") for p in proj)


def setup(tier, seed):
    """warm-up in the parent (imports, JIT, einsum path caches) so that the forked workers do not repeat it"""
    case = {"kind": "sys", "struct": "zb", "proj": ["Ga:s", "As:s"], "soc": True, "rs": "R0", "cen": "sites", "nk": 1}
    run_sys(case, seed)


def sawf_cases(tier):
    for st, orbs in (("P4mmm_2f", ("p", "d")), ("honeycomb", ("p", "sp2")), ("diamond", ("p", "sp3"))):
        for orb in orbs:
            for rb in (False, True):
                yield {"kind": "sawf", "struct": st, "orb": orb, "rotate_basis": rb}


def cases(tier, seed):
    yield from _cases(tier, seed)
    yield from sawf_cases(tier)


def _cases(tier, seed):
    quick = tier == "quick"
    table = QUICK_PROJS if quick else PROJS
    out = []
    for st, (lat, atoms, mag) in STRUCTS.items():
        for proj in table[st]:
            for soc in (False, True):
                if mag is not None and not soc and quick and st not in ("afm", "triAFM"):
                    continue  # scalar Wannier functions in a magnetic group: quick tier only the antiferromagnet (T combined
                    #           with a translation is a symmetry, the translation alone is not); thorough: every magnetic structure
                for rs in (("shell1",) if quick else ("shell1", "lopsided")):
                    for cen in ("sites", "displaced"):
                        out.append({"kind": "sys", "struct": st, "proj": proj, "soc": soc, "rs": rs, "cen": cen,
                                    "nk": 2 if quick else 3})
    # starting models without AA (position operator = the centres alone), spinless
    ham_table = ({"hex2": [["A:s", "B:p"]], "zb": [["Ga:sp3", "As:sp3"]], "sc1": [["X:eg"]]} if quick else
                 {st: [p for p in projs] for st, projs in PROJS.items() if STRUCTS[st][2] is None})
    for st, projs in ham_table.items():
        for proj in projs:
            for cen in ("sites", "displaced"):
                out.append({"kind": "sys", "struct": st, "proj": proj, "soc": False, "rs": "shell1", "cen": cen,
                            "nk": 2 if quick else 3, "data": "ham"})
    # symmetrisation with a subset of the operations (the unitary ones): symmetrize2(use_symmetries_index=...)
    sub_table = ({"hex2": [["A:s", "B:p"]], "zb": [["Ga:sp3", "As:sp3"]]} if quick else
                 {st: projs[:3] for st, projs in PROJS.items() if STRUCTS[st][2] is None})
    for st, projs in sub_table.items():
        for proj in projs:
            for soc in ((False,) if quick else (False, True)):
                for cen in ("sites", "displaced"):
                    out.append({"kind": "sys", "struct": st, "proj": proj, "soc": soc, "rs": "shell1", "cen": cen,
                                "nk": 2 if quick else 3, "sub": "unitary"})
    # simplest first: by number of Wannier functions
    out.sort(key=lambda c: (layout(c)["nw"], c["struct"], projkey(c["proj"]), c["soc"], c["rs"], c["cen"], c.get("data", ""), c.get("sub", "")))
    lin = []
    # (structure, projections, soc, matrices, R-sets)
    if quick:
        lin_table = [("sc1", ["X:s"], False, ("Ham", "AA"), ("shell1",)), ("sc1", ["X:p"], False, ("Ham", "AA"), ("shell1",)),
                     ("hcp", ["A:s"], False, ("Ham", "AA"), ("shell1",)), ("hex2", ["A:s", "B:p"], False, ("Ham",), ("shell1",)),
                     ("afm", ["X:s"], True, ("SS",), ("shell1",))]
    else:
        lin_table = []
        for st, proj in (("sc1", ["X:s"]), ("sc1", ["X:p"]), ("sc1", ["X:eg"]), ("sc1", ["X:s;p"]), ("hcp", ["A:s"]),
                         ("hex2", ["A:s", "B:p"]), ("zb", ["Ga:s", "As:p"]), ("mono2", ["X:s", "Y:p"]), ("te", ["Te:s"])):
            lin_table.append((st, proj, False, ("Ham", "AA"), ("shell1", "lopsided")))
        for st, proj in (("sc1", ["X:s"]), ("afm", ["X:s"]), ("bccFM", ["X:s"]), ("zbFM", ["Ga:s", "As:s"]), ("hcp", ["A:s"])):
            lin_table.append((st, proj, True, ("Ham", "AA", "SS"), ("shell1",)))
    for st, proj, soc, mats, rsets in lin_table:
        nw = layout({"struct": st, "proj": proj, "soc": soc})["nw"]
        for rs in rsets:
            for mat in mats:
                # one case per (matrix, unordered pair of functions): all R, both orders, cartesian components, phases 1 and i
                for m in range(nw):
                    for n in range(m, nw):
                        lin.append({"kind": "lin", "struct": st, "proj": proj, "soc": soc, "rs": rs, "mat": mat,
                                    "m": m, "n": n, "p2": (not quick)})
    return out + lin


# ------------------------------------------------------------------------------------------------
# bookkeeping
# ------------------------------------------------------------------------------------------------

def layout(case):
    """blocks in the order System_R.symmetrize builds them: one block per projection string (a ';' list stays one
    shell per atom because symmetrize() uses do_not_split_projections=True)"""
    from wannierberri.symmetry.orbitals import num_orbitals
    lat, atoms, mag = STRUCTS[case["struct"]]
    nspin = 2 if case["soc"] else 1
    blocks, positions = [], []
    for p in case["proj"]:
        name, orb = [x.strip() for x in p.split(":")]
        pos = [np.array(r, dtype=float) for a, r in atoms if a == name]
        blocks.append((len(pos), num_orbitals(orb) * nspin))
        positions.append(pos)
    nw = sum(n * k for n, k in blocks)
    return {"blocks": blocks, "positions": positions, "nw": nw}


def displacement(nw):
    """fixed generic offsets (reduced coordinates), different for every Wannier function"""
    i = np.arange(nw)
    return 0.06 * np.stack([np.sin(1.0 + 2.3 * i), np.cos(0.7 + 1.9 * i), np.sin(2.1 + 3.1 * i * i)], axis=1)


def make_start(case, seed, matrices):
    from wbmc import zoo
    from wbmc.symwann_oracle import Shells
    lay = layout(case)
    shells = Shells(lay["blocks"], lay["positions"])
    cen = shells.site_of_wf()
    if case["cen"] == "displaced":
        cen = cen + displacement(shells.num_wann)
    lat = STRUCTS[case["struct"]][0]
    s = zoo.make_system(shells.num_wann, lat, case["rs"], cen, seed=seed, matrices=matrices,
                        tag="c20" + case["struct"] + projkey(case["proj"]) + str(case["soc"]))
    return s, shells


def sym_args(case):
    lat, atoms, mag = STRUCTS[case["struct"]]
    return dict(proj=list(case["proj"]), positions=np.array([r for a, r in atoms], dtype=float),
                atom_name=[a for a, r in atoms], soc=bool(case["soc"]),
                magmom=(None if mag is None else np.array(mag, dtype=float)))


def group_ops(symmetrizer):
    ops = []
    for so in symmetrizer.spacegroup.symmetries:
        ops.append({"W": np.array(so.rotation, dtype=int), "w": np.array(so.translation, dtype=float),
                    "Wc": np.array(so.rotation_cart, dtype=float), "TR": bool(so.time_reversal)})
    return ops


def rot_orb_per_shell(symmetrizer, shells, isym):
    return [np.array(symmetrizer.rot_orb_list[shells.block[s]][shells.atom[s], isym]) for s in range(shells.nshell)]


def check_layout(symmetrizer, shells):
    """my bookkeeping must agree with the blocks the library built"""
    bi = np.array(symmetrizer.D_wann_block_indices)
    got = [(int(symmetrizer.atommap_list[b].shape[0]), int(symmetrizer.rot_orb_list[b].shape[-1])) for b in range(len(bi))]
    mine = []
    for b in sorted(set(shells.block)):
        ss = [s for s in range(shells.nshell) if shells.block[s] == b]
        mine.append((len(ss), shells.norb[ss[0]]))
    if not (got == mine and int(bi[-1][1]) == shells.num_wann):
        return False
    # the site maps recomputed here from the positions must be the library's (same ordering of the atoms)
    from wbmc.symwann_oracle import shell_map
    for isym, op in enumerate(group_ops(symmetrizer)):
        sm = shell_map(shells, op["W"], op["w"])
        for sh in range(shells.nshell):
            b, a = shells.block[sh], shells.atom[sh]
            if int(symmetrizer.atommap_list[b][a, isym]) != shells.atom[sm[sh][0]]:
                return False
            if not np.array_equal(np.rint(symmetrizer.T_list[b][a, isym]).astype(int), -sm[sh][1]):
                return False
    return True


def shell_class(symmetrizer):
    from wbmc.symwann_oracle import is_monomial
    for ro in symmetrizer.rot_orb_list:
        ro = np.array(ro)
        for a in range(ro.shape[0]):
            for isym in range(ro.shape[1]):
                if not is_monomial(ro[a, isym]):
                    return "nonmonomial"
    return "monomial"


def mixed_centres_differ(symmetrizer, shells, wcc_red, tol=1e-7):
    """True iff some operation mixes (non-monomially) orbitals whose starting centres differ"""
    for s in range(shells.nshell):
        ro = np.array(symmetrizer.rot_orb_list[shells.block[s]][shells.atom[s]])
        c = wcc_red[shells.start[s]:shells.start[s] + shells.norb[s]]
        for isym in range(ro.shape[0]):
            A = np.abs(ro[isym]) > 1e-8
            for j in range(A.shape[1]):
                rows = np.where(A[:, j])[0]
                if len(rows) > 1:  # column j spreads over several functions: their partners must share centres
                    cols = np.where(A[rows].any(axis=0))[0]
                    if np.abs(c[cols] - c[cols[0]]).max() > tol:
                        return True
    return False


# ------------------------------------------------------------------------------------------------
# oracles
# ------------------------------------------------------------------------------------------------

def multiplets(E, thr):
    blocks = [[0]]
    for i in range(1, len(E)):
        if E[i] - E[i - 1] < thr:
            blocks[-1].append(i)
        else:
            blocks.append([i])
    return blocks


def kspace_covariance(s, ops, quantities, nk=3):
    """returns {quantity: (max deviation, scale)} over all operations and k-points; own transformation rules:
       k' = (+-) Wc k,  E(k') = E(k),  V(k') = (+-) det(Wc) Wc V(k)  for the axial vectors Berry curvature and spin"""
    from wannierberri.evaluate_k import evaluate_k
    rec = s.recip_lattice
    rec_inv = np.linalg.inv(rec)
    # operations that act identically on k-space quantities are evaluated once
    uniq = {}
    for op in ops:
        uniq.setdefault((tuple(np.round(op["Wc"], 8).ravel()), op["TR"]), op)
    out = {q: [0.0, 0.0] for q in quantities}
    eig_scale = 1.0
    for k in KPOINTS[:nk]:
        r0 = evaluate_k(s, k=k, quantities=quantities, return_single_as_dict=True)
        E0 = np.array(r0["energy"]).real
        eig_scale = max(1.0, np.abs(E0).max())
        blocks = multiplets(E0, 1e-6 * eig_scale)
        kc = np.array(k) @ rec
        for op in uniq.values():
            sg = -1.0 if op["TR"] else 1.0
            k2 = (sg * (op["Wc"] @ kc)) @ rec_inv
            r1 = evaluate_k(s, k=k2, quantities=quantities, return_single_as_dict=True)
            for q in quantities:
                if q == "energy":
                    ref, got = E0, np.array(r1[q]).real
                    dev, scale = np.abs(ref - got).max(), eig_scale
                else:
                    V0 = np.array(r0[q]).real
                    V1 = np.array(r1[q]).real
                    ref = sg * np.linalg.det(op["Wc"]) * (V0 @ op["Wc"].T)
                    dev = max(np.abs(ref[b].sum(axis=0) - V1[b].sum(axis=0)).max() for b in blocks)
                    scale = max(1.0, np.abs(V0).max(), np.abs(V1).max())
                out[q][0] = max(out[q][0], float(dev) / scale)
                out[q][1] = max(out[q][1], float(scale))
    return out


def centres_map(wcc_red, shells, ops, tol=1e-7):
    """max over g, n of the distance (mod lattice, reduced coords) from g t_n to the nearest centre of the image shell"""
    from wbmc.symwann_oracle import shell_map
    worst = 0.0
    for op in ops:
        sm = shell_map(shells, op["W"], op["w"])
        for s in range(shells.nshell):
            s2, L = sm[s]
            img = wcc_red[shells.start[s]:shells.start[s] + shells.norb[s]] @ op["W"].T + op["w"]
            tgt = wcc_red[shells.start[s2]:shells.start[s2] + shells.norb[s2]]
            d = img[:, None, :] - tgt[None, :, :]
            d = np.abs(d - np.rint(d)).max(axis=2)
            worst = max(worst, float(d.min(axis=1).max()))
    return worst


def compare_models(XA, iRA, XB, iRB):
    """max |A-B| on common R, and max |.| on R present on one side only"""
    ia = {tuple(int(x) for x in R): i for i, R in enumerate(iRA)}
    ib = {tuple(int(x) for x in R): i for i, R in enumerate(iRB)}
    common = 0.0
    extra = 0.0
    for R, i in ia.items():
        if R in ib:
            common = max(common, float(np.abs(XA[i] - XB[ib[R]]).max()))
        else:
            extra = max(extra, float(np.abs(XA[i]).max()))
    for R, j in ib.items():
        if R not in ia:
            extra = max(extra, float(np.abs(XB[j]).max()))
    return common, extra


TOL = 1e-9


def run_sys(case, seed):
    from wbmc import symwann_oracle as so
    hamonly = case.get("data") == "ham"
    mats = ("Ham",) if hamonly else ("Ham", "AA") + (("SS",) if case["soc"] else ())
    s, shells = make_start(case, seed, mats)
    start = {k: s.get_R_mat(k).copy() for k in mats}
    start_iR = np.array(s.rvec.iRvec).copy()
    start_wcc = s.wannier_centers_red.copy()
    args = sym_args(case)
    subset = None
    if case.get("sub") == "unitary":
        # System_R.symmetrize2 with the operations without time reversal (always a subgroup)
        symmetrizer = get_symmetrizer(case)
        subset = [i for i, o in enumerate(group_ops(symmetrizer)) if not o["TR"]]

        def do_symmetrize(system):
            system.symmetrize2(symmetrizer, use_symmetries_index=list(subset))
    else:
        def do_symmetrize(system):
            return system.symmetrize(**args)
    res = do_symmetrize(s)
    if subset is None:
        symmetrizer = res
    if symmetrizer is None or not check_layout(symmetrizer, shells):
        return {"ok": False, "key": "layout_or_atommap_differs:" + case["struct"] + ":" + projkey(case["proj"]),
                "detail": f"{case}: block layout / atom maps of the library differ from the ones recomputed from the positions",
                "nontrivial": False}
    ops = group_ops(symmetrizer)
    isyms = list(range(len(ops))) if subset is None else list(subset)
    ops_used = [ops[i] for i in isyms]
    cls = shell_class(symmetrizer)
    mixes = mixed_centres_differ(symmetrizer, shells, start_wcc)
    mag = magname(case)
    tail = f"{case['cen']}:{cls}:{case['struct']}:{projkey(case['proj'])}:soc={int(case['soc'])}:mag={mag}" + (":hamonly" if hamonly else "") + (
        ":subgroup" if subset is not None else "")
    desc = (f"structure={case['struct']} lattice={STRUCTS[case['struct']][0]} atoms={STRUCTS[case['struct']][1]} "
            f"proj={case['proj']} soc={case['soc']} magmom={STRUCTS[case['struct']][2]} R-set={case['rs']} "
            f"centres={case['cen']} matrices={list(mats)} nsym={len(ops)} used={'all' if subset is None else subset} seed={seed}")
    iR = np.array(s.rvec.iRvec)
    wcc = s.wannier_centers_red.copy()
    obs = {"nsym": len(ops_used), "nR": int(len(iR)), "class": cls, "mixed_centres_differ": bool(mixes)}
    fails = []

    def fail(what, val, extra=""):
        fails.append((what, val, extra))

    # 1. Hermiticity
    for k in mats:
        X = s.get_R_mat(k)
        r = so.hermiticity_residual(X, iR) / max(1.0, np.abs(X).max())
        obs["herm_" + k] = r
        if r > TOL:
            fail(f"hermiticity:{k}", r)
    # 2. k-space covariance through the real evaluation path
    quantities = ["energy", "berry_curvature_internal_terms" if hamonly else "berry_curvature"] + (
        ["spin"] if case["soc"] else [])
    cov = kspace_covariance(s, ops_used, quantities, nk=case.get("nk", 3))
    for q, (dev, scale) in cov.items():
        obs["cov_" + q] = dev
        if dev > 1e-7:
            fail(f"kspace:{q.replace('_internal_terms', '')}", dev, f"(relative to scale {scale:.3g})")
    # 2b. the point group declared on the system is the group the model was symmetrised with
    def canon_ops(lst):
        return {(tuple(np.round(W, 5).ravel() + 0.0), bool(t)) for W, t in lst}
    declared = canon_ops([(np.array(g.R) * (-1 if g.Inv else 1), g.TR) for g in s.pointgroup.symmetries])
    used = canon_ops([(o["Wc"], o["TR"]) for o in ops_used])
    obs["pointgroup_size"] = len(declared)
    if declared != used:
        fail("pointgroup_declared", float(len(declared ^ used)),
             f"(declared {len(declared)} point operations, symmetrised with {len(used)}; symmetric difference counted)")
    # 3. R-space invariance, independent reference
    pos = np.zeros((len(iR), s.num_wann, s.num_wann, 3), dtype=complex) if hamonly else s.get_R_mat("AA").copy()
    i0 = [tuple(int(x) for x in R) for R in iR].index((0, 0, 0))
    disp_cart = (wcc - shells.site_of_wf()) @ s.real_lattice
    pos[i0, np.arange(s.num_wann), np.arange(s.num_wann)] += disp_cart
    targets = [("Ham", s.get_R_mat("Ham"), "Ham"), ("pos", pos, "AA+centres")] + (
        [("SS", s.get_R_mat("SS"), "SS")] if case["soc"] else [])
    for typ, X, label in targets:
        worst = 0.0
        for isym in isyms:
            ro = rot_orb_per_shell(symmetrizer, shells, isym)
            worst = max(worst, so.invariance_residual(X, iR, shells, ops[isym], ro, typ))
        worst /= max(1.0, np.abs(X).max())
        obs["rspace_" + label] = worst
        if worst > TOL:
            fail(f"rspace:{label}", worst)
    # 4. centres map onto each other
    cm = centres_map(wcc, shells, ops_used)
    obs["centres_map"] = cm
    if cm > 1e-7:
        fail("centres_map", cm, f"centres(red)={np.round(wcc, 6).tolist()}")
    # 5. symmetrising again changes nothing
    s2 = copy.deepcopy(s)
    do_symmetrize(s2)
    iR2 = np.array(s2.rvec.iRvec)
    for k in mats:
        common, extra = compare_models(s.get_R_mat(k), iR, s2.get_R_mat(k), iR2)
        sc = max(1.0, np.abs(s.get_R_mat(k)).max())
        obs["idem_" + k] = max(common, extra) / sc
        if max(common, extra) / sc > TOL:
            fail(f"idempotence:{k}", max(common, extra) / sc, f"(common R: {common:.3g}, R on one side only: {extra:.3g})")
    dw = float(np.abs(s2.wannier_centers_red - wcc).max())
    obs["idem_centres"] = dw
    if dw > 1e-9:
        fail("idempotence:centres", dw, f"first={np.round(wcc, 6).tolist()} second={np.round(s2.wannier_centers_red, 6).tolist()}")

    # did the symmetrisation do anything?
    changed = 0.0
    for k in mats:
        c, e = compare_models(start[k], start_iR, s.get_R_mat(k), iR)
        changed = max(changed, c, e)
    nontrivial = False
    if len({(tuple(np.round(o["Wc"], 6).ravel())) for o in ops_used}) > 1 and changed > 1e-3:
        nontrivial = ("sys", case["struct"], projkey(case["proj"]), case["soc"], mag, case["cen"], cls, hamonly, subset is not None)
    if fails:
        what, val, extra = fails[0]
        allw = ", ".join(f"{w}={v:.3g}" for w, v, _ in fails)
        key = f"{what}:{tail}"
        # one defect, one key: the centre symmetriser keeps only the diagonal |U_ij|^2 part of the symmetrised position
        # operator.  Its signature: centres displaced, some operation mixes orbitals whose starting centres differ, and
        # nothing but the position-related observables fails (Ham, SS, Hermiticity and the matrices' idempotence hold).
        if (case["cen"] == "displaced" and mixes and
                {w for w, _, _ in fails} <= {"kspace:berry_curvature", "rspace:AA+centres", "centres_map", "idempotence:centres"}):
            key = "displaced_nonmonomial_centres:" + tail.split(":", 2)[2]
        return {"ok": False, "key": key, "nontrivial": nontrivial, "obs": obs,
                "detail": f"{what} = {val:.3g} {extra}; all failing observables: [{allw}]; {desc}; "
                          f"start centres(red)={np.round(start_wcc, 4).tolist()}"}
    return {"ok": True, "nontrivial": nontrivial, "obs": obs}


# ------------------------------------------------------------------------------------------------
# linear laws of SymWann.symmetrize on the impulse basis
# ------------------------------------------------------------------------------------------------

_SYMM_CACHE = {}


def get_symmetrizer(case):
    """SymmetrizerSAWF built the way System_R.symmetrize builds it"""
    key = (case["struct"], projkey(case["proj"]), case["soc"])
    if key in _SYMM_CACHE:
        return _SYMM_CACHE[key]
    from irrep.spacegroup import SpaceGroup
    from wannierberri.symmetry.sawf import SymmetrizerSAWF
    from wannierberri.symmetry.projections import Projection
    from wbmc import zoo
    lat, atoms, mag = STRUCTS[case["struct"]]
    names = sorted(set(a for a, r in atoms))
    sg = SpaceGroup.from_cell(real_lattice=zoo.lattice(lat), positions=np.array([r for a, r in atoms], dtype=float),
                              typat=[names.index(a) for a, r in atoms],
                              magmom=(None if mag is None else np.array(mag, dtype=float)),
                              include_TR=True, spinor=bool(case["soc"]))
    plist = []
    for p in case["proj"]:
        name, orb = [x.strip() for x in p.split(":")]
        pos = np.array([r for a, r in atoms if a == name], dtype=float)
        plist.append(Projection(position_num=pos, orbital=orb, spacegroup=sg, do_not_split_projections=True,
                                rotate_basis=False))
    sym = SymmetrizerSAWF.from_spacegroup_and_projections(spacegroup=sg, projections=plist)
    _SYMM_CACHE[key] = sym
    return sym


def run_lin(case, seed):
    from wannierberri.symmetry.sym_wann_2 import SymWann
    from wbmc import zoo
    from wbmc import symwann_oracle as so
    lay = layout(case)
    shells = so.Shells(lay["blocks"], lay["positions"])
    sym = get_symmetrizer(case)
    if not check_layout(sym, shells):
        return {"ok": False, "key": "harness:layout_mismatch", "detail": str(case), "nontrivial": False}
    ops = group_ops(sym)
    ros = [rot_orb_per_shell(sym, shells, isym) for isym in range(len(ops))]
    iR = np.array(zoo.rset(case["rs"]), dtype=int)
    index = {tuple(int(x) for x in R): i for i, R in enumerate(iR)}
    nw, mat = shells.num_wann, case["mat"]
    ncart = so.OPERATOR_TYPE[mat][0]
    carts = [()] if ncart == 0 else [(c,) for c in range(3)]
    tail = f"{mat}:{case['struct']}:{projkey(case['proj'])}:soc={int(case['soc'])}:mag={magname(case)}"
    sw = SymWann(symmetrizer=sym, iRvec=iR, silent=True)
    pairs = [(case["m"], case["n"])] + ([(case["n"], case["m"])] if case["m"] != case["n"] else [])
    done = {}
    moved = False
    for (m, n) in pairs:
        for ir, R in enumerate(iR):
            for c in carts:
                for phase in (1.0, 1j):
                    X = np.zeros((len(iR), nw, nw) + (3,) * ncart, dtype=complex)
                    X[(ir, m, n) + c] = phase
                    res, iRY = sw.symmetrize(XX_R={mat: X.copy()})
                    Y, iRY = res[mat], np.array(iRY, dtype=int)
                    done[(tuple(int(x) for x in R), m, n, c, phase)] = (Y, iRY)
                    where = f"impulse {mat}[R={R.tolist()},m={m},n={n},c={list(c)}]={phase} R-set={case['rs']}"
                    if np.abs(Y).max() > 1e-12 and len(iRY) > 1:
                        moved = True
                    # g.Px = Px for every operation, independent reference
                    for isym, op in enumerate(ops):
                        r = so.invariance_residual(Y, iRY, shells, op, ros[isym], mat)
                        if r > TOL:
                            return {"ok": False, "key": f"lin:not_invariant:{tail}", "nontrivial": True,
                                    "detail": f"{where}: |g.Px - Px| = {r:.3g} for operation {isym} "
                                              f"(W={op['W'].tolist()}, w={op['w'].tolist()}, TR={op['TR']})"}
                    # P^2 = P
                    if case.get("p2"):
                        sw2 = SymWann(symmetrizer=sym, iRvec=iRY, silent=True)
                        res2, iRZ = sw2.symmetrize(XX_R={mat: Y.copy()})
                        common, extra = compare_models(Y, iRY, res2[mat], np.array(iRZ, dtype=int))
                        if max(common, extra) > TOL:
                            return {"ok": False, "key": f"lin:not_idempotent:{tail}", "nontrivial": True,
                                    "detail": f"{where}: |PPx - Px| = {common:.3g} on common R, {extra:.3g} on R present on one side"}
    # P(x^+) = (Px)^+ : the adjoint of the impulse (R,m,n,c,phase) is the impulse (-R,n,m,c,conj(phase))
    for (R, m, n, c, phase), (Y, iRY) in done.items():
        Rm = tuple(-x for x in R)
        if Rm not in index:
            continue
        if phase == 1.0:
            Yd, iRYd = done[(Rm, n, m, c, 1.0)]
        else:
            Yd, iRYd = done[(Rm, n, m, c, 1j)]
            Yd = -Yd  # P is real-linear: P(-i e) = -P(i e)
        Ydag = np.swapaxes(Y, 1, 2).conj()
        common, extra = compare_models(Ydag, -iRY, Yd, iRYd)
        if max(common, extra) > TOL:
            return {"ok": False, "key": f"lin:dagger:{tail}", "nontrivial": True,
                    "detail": f"impulse {mat}[R={list(R)},m={m},n={n},c={list(c)}]={phase} R-set={case['rs']}: "
                              f"|P(x^+) - (Px)^+| = {common:.3g} on common R / {extra:.3g} on R present on one side"}
    nontrivial = ("lin", case["struct"], projkey(case["proj"]), case["soc"], mat, case["rs"]) if moved else False
    return {"ok": True, "nontrivial": nontrivial, "obs": {"impulses": len(done), "nsym": len(ops)}}


SAWF_STRUCTS = {
    # name: (lattice, positions, typat, indices of the orbit that carries the projection)
    "P4mmm_2f": (np.diag([2.0, 2.0, 3.0]), [[0.5, 0, 0], [0, 0.5, 0], [0, 0, 0]], [1, 1, 2], [0, 1]),
    "honeycomb": (np.array([[1.0, 0, 0], [-0.5, np.sqrt(3) / 2, 0], [0, 0, 1.7]]), [[1 / 3, 2 / 3, 0], [2 / 3, 1 / 3, 0]], [1, 1], [0, 1]),
    "diamond": (np.array([[0, 0.5, 0.5], [0.5, 0, 0.5], [0.5, 0.5, 0]]) * 2.0, [[0, 0, 0], [0.25, 0.25, 0.25]], [1, 1], [0, 1]),
}


def run_sawf(case, seed):
    """System_R.symmetrize2 with a symmetrizer built from Projection objects (local axes rotated with the sites or not):
    the path used by from_wannierdata / SystemSOC, not reachable through System_R.symmetrize"""
    from irrep.spacegroup import SpaceGroup
    from wannierberri.symmetry.projections import Projection
    from wannierberri.symmetry.sawf import SymmetrizerSAWF
    from wbmc import zoo
    lat, pos, typat, orbit = SAWF_STRUCTS[case["struct"]]
    pos = np.array(pos, dtype=float)
    sg = SpaceGroup.from_cell(real_lattice=lat, positions=pos, typat=typat, spinor=False, include_TR=True)
    proj = Projection(position_num=pos[orbit], orbital=case["orb"], spacegroup=sg, rotate_basis=bool(case["rotate_basis"]))
    symmetrizer = SymmetrizerSAWF.from_spacegroup_and_projections(spacegroup=sg, projections=[proj])
    nw = symmetrizer.num_wann
    s = zoo.make_system(nw, lat, "shell1", np.array(proj.wannier_centers_red, dtype=float), seed=seed,
                        matrices=("Ham", "AA"), tag="c20sawf" + case["struct"] + case["orb"])
    s.symmetrize2(symmetrizer, silent=True)
    ops = group_ops(symmetrizer)
    dev = kspace_covariance(s, ops, ["energy", "berry_curvature"], nk=2)
    tag = f"sawf:{case['struct']}:{case['orb']}:rotate_basis={int(bool(case['rotate_basis']))}"
    for q, (d, sc) in dev.items():
        if not d <= 1e-7:
            return {"ok": False, "key": f"kspace:{q}:{tag}", "nontrivial": tag,
                    "detail": f"symmetrize2 with a Projection-based symmetrizer ({case}), centres on the sites, nsym={len(ops)}: "
                              f"{q} at g k deviates from the transformed value at k by {d:.3g} (relative)"}
    from wbmc import symwann_oracle as so
    for key in ("Ham", "AA"):
        h = so.hermiticity_residual(s.get_R_mat(key), np.array(s.rvec.iRvec))
        if not h <= 1e-10:
            return {"ok": False, "key": f"hermiticity:{key}:{tag}", "nontrivial": tag, "detail": f"{case}: {key} not Hermitian ({h:.3g})"}
    return {"ok": True, "nontrivial": tag, "obs": {"nsym": len(ops), "num_wann": int(nw)}}


def run_case(case, seed):
    if case.get("kind") == "sawf":
        return run_sawf(case, seed)
    if case["kind"] == "sys":
        return run_sys(case, seed)
    return run_lin(case, seed)


def finish(tier, cases, results):
    sysc = [c for c in cases if c["kind"] == "sys"]
    linc = [c for c in cases if c["kind"] == "lin"]
    return {"axes": {"structures": len({c["struct"] for c in sysc}),
                     "structure_projection_pairs": len({(c["struct"], projkey(c["proj"])) for c in sysc}),
                     "soc": 2, "rsets": len({c["rs"] for c in sysc}), "centre_modes": 2},
            "sys_cases": len(sysc), "lin_cases": len(linc),
            "impulses": int(sum((r.get("obs") or {}).get("impulses", 0) for c, r in zip(cases, results) if c["kind"] == "lin")),
            "symmetrisations_sys": 2 * len(sysc)}
