"""C06 — K-point weights partition the Brillouin zone for every grid, group and refinement history.

Explicit-state BFS over refinement histories on the REAL K-point objects (Grid.get_K_list,
KpointBZparallel.divide, exclude_equiv_points, PointGroup.star; GridTetra/KpointBZtetra.divide).
Initial states: (crystallographic point group x variant {plain, grey, black-white} x compatible lattice x
NKdiv).  Events: "refine point j" for EVERY point j of the list (live or dead), followed by
exclude_equiv_points exactly as run() does.  States are canonicalised as the sorted multiset of
(level, K mod 1, dK, factor, evaluated) -- later events depend only on it.  Invariants (reference model in
exact rational arithmetic, group elements from wbmc.groups.reference_elements, independent of the library):
  I1 all factors >= 0 and sum == 1 in every state;
  I2 (initial state) the distinct symmetry images of the retained points cover every grid point exactly once
     and factor = |orbit| / N;
  I3 the raw children of divide() tile the parent box: disjoint, union = parent, weight = parent x volume
     ratio; with symmetry merging inside divide() the children's total weight is still the parent's;
  I4 exclude_equiv_points conserves the weight of every (level, orbit) class, removes only points that the
     reference model finds equivalent to a surviving point of the same level;
  I6 without symmetry (group C1) the live cells tile the whole zone exactly (factor == volume, disjoint);
tetrahedra: starting sets tile the cell (volumes sum to 1, sample points in exactly one tetrahedron,
factor proportional to volume), divide() children tile the parent and keep weight.
"""
import copy
import itertools
from fractions import Fraction as Fr

import numpy as np

from wbmc import groups, zoo

ID = "C06"
LEVEL = "model_checking"
RULE = ("case = (point group, variant, lattice, NKdiv, adpt_mesh) or a tetrahedral grid configuration; below each case a BFS "
        "explores every sequence of 'refine point j' events (every j, live or dead) up to the depth bound on real K-point objects, "
        "deduplicating states by the canonical multiset of (level, K mod 1, dK, factor, evaluated); invariants I1-I4 (I6 for C1) are "
        "evaluated in every state / on every transition against an exact rational reference model; non-trivial = state reached "
        "by >= 1 refinement in which a symmetry merge happened or (no symmetry) any refined state (distinct canonical states counted)")
ASSUMPTIONS = ["depth <= 2 (quick) refinement events; thorough: depth 3 for grids with <= 8 initial cells and meshes with <= 8 children, depth 2 otherwise; NKdiv <= 4 per direction",
               "groups: the 32 crystallographic point groups + grey + black-white variants on the compatible zoo lattices (quick: a subset containing every generator type)",
               "coverage of the zone by symmetry images after refinement (I6) is only asserted without symmetry: on hexagonal lattices the image of a sub-cell is not a sub-cell, and a merge into a dead point makes the list a valid quadrature but not a tiling",
               "tetrahedral grids: default 5-tetrahedra cell, GridTrigonal, split thresholds length in {1,2,4,8}"]

PREC = 10 ** 9
HORIZON_CPU_S = 20


def fr(x, maxden=10 ** 6):
    return Fr(float(x)).limit_denominator(maxden)


def frv(v):
    return tuple(fr(x) for x in v)


def mod1(v):
    return tuple(x - (x.numerator // x.denominator) for x in v)


QUICK_GROUPS = ["C1", "Ci", "C2", "Cs", "C2h", "D2", "C2v", "D2h", "C4", "S4", "D4", "D4h", "C3", "D3", "C3v", "D3d", "C6", "D6h", "T", "Td", "Oh"]


def configs(tier):
    out = []
    names = groups.names() if tier == "thorough" else [n for n in groups.names() if n in QUICK_GROUPS]
    divs_all = [(1, 1, 1), (2, 2, 2), (3, 3, 3), (2, 2, 1), (4, 4, 2), (3, 3, 1), (2, 4, 2), (3, 2, 1)]
    for name in names:
        for setting in range(len(groups.GROUPS[name]["settings"])):
            lats = groups.lattices(name, setting)
            if tier == "quick":
                lats = lats[:2]
            for variant, specs in groups.variants(name, setting):
                if tier == "quick" and variant not in ("plain", "grey", "bw0"):
                    continue
                for lat in lats:
                    for div in divs_all:
                        if tier == "quick" and div in ((4, 4, 2), (2, 4, 2), (3, 3, 3)):
                            continue
                        for mesh in ((2, 2, 2), (3, 3, 3), (2, 2, 1), (3, 1, 2)) if tier == "thorough" else ((2, 2, 2), (2, 2, 1), (3, 3, 3), (3, 3, 1)):
                            # quick: the cubic mesh everywhere; a non-cubic and two odd meshes (the centre child of an odd
                            # mesh coincides with its dead parent) on the small grids only
                            if tier == "quick" and not (mesh == (2, 2, 2) or (mesh == (2, 2, 1) and div in ((2, 2, 2), (2, 2, 1)))
                                                        or (mesh == (3, 3, 3) and div == (1, 1, 1)) or (mesh == (3, 3, 1) and div == (2, 2, 1))):
                                continue
                            cfg = {"kind": "grid", "group": name, "setting": setting, "variant": variant, "lat": lat,
                                   "div": list(div), "mesh": list(mesh)}
                            if tier == "thorough":
                                # depth 3 where the state space stays small (<= 8 initial cells, mesh with <= 8 children)
                                cfg["depth"] = 3 if (int(np.prod(div)) <= 8 and int(np.prod(mesh)) <= 8) else 2
                            out.append(cfg)
    for lat in ("sc", "tric", "hex", "fcc"):
        for length in (1, 2, 4, 8):
            for by_vol, by_size in ((True, True), (True, False), (False, True)):
                out.append({"kind": "tetra", "lat": lat, "length": length, "by_vol": by_vol, "by_size": by_size, "grid": "GridTetra"})
    for length in (1, 4):
        out.append({"kind": "tetra", "lat": "hex", "length": length, "by_vol": True, "by_size": True, "grid": "GridTrigonal"})
    return out


def cases(tier, seed):
    return configs(tier)


_SYS = {}


def get_system(lat):
    if lat not in _SYS:
        _SYS[lat] = zoo.make_system(1, lat, "R0", "zero", seed=0, tag="c06")
    return _SYS[lat]


class Dummy:
    max = np.array([1.0])


def reduced_ops(specs, lat):
    """group elements as exact integer matrices acting on reduced k (row vectors) with sign for TR"""
    L = zoo.lattice(lat)
    B = 2 * np.pi * np.linalg.inv(L).T
    ops = []
    for R, TR in groups.reference_elements(specs):
        M = B @ R.T @ np.linalg.inv(B)
        Mi = np.rint(M)
        assert np.abs(M - Mi).max() < 1e-6, "lattice not invariant under the reference group element"
        s = -1 if TR else 1
        ops.append(tuple(tuple(int(s * x) for x in row) for row in Mi))
    return sorted(set(ops))


def apply(op, k):
    return tuple(sum(k[i] * op[i][j] for i in range(3)) for j in range(3))


def orbit(ops, k):
    return {mod1(apply(op, k)) for op in ops}


# exact integer coordinates: every K and dK of a case is a multiple of 1/DEN[0] (DEN = 2*lcm(div*mesh^depth))
DEN = [1]


def ik(v):
    x = np.asarray(v, dtype=float) * DEN[0]
    r = np.rint(x)
    assert np.abs(x - r).max() < 1e-6, f"coordinate {v} is not a multiple of 1/{DEN[0]}"
    return tuple(int(t) for t in r)


def imod(v):
    return tuple(t % DEN[0] for t in v)


def iorbit(ops, k):
    return {imod(apply(op, k)) for op in ops}


def canon_state(K_list):
    return tuple(sorted((int(K.refinement_level), imod(ik(K.K)), ik(K.dK), round(float(K.factor), 12), bool(K.was_evaluated_flag)) for K in K_list))


def check_I1(K_list, where):
    fs = [fr(K.factor, 10 ** 12) for K in K_list]
    if min(fs) < 0:
        return ("I1:negative_weight", f"{where}: factor {float(min(fs))}")
    if abs(float(sum(K.factor for K in K_list)) - 1) > 1e-10:
        return ("I1:weights_do_not_sum_to_one", f"{where}: sum={sum(K.factor for K in K_list)!r}")
    return None


def check_initial(K_list, ops, div):
    N = div[0] * div[1] * div[2]
    seen = {}
    for K in K_list:
        k = mod1(frv(K.K))
        orb = orbit(ops, k)
        for img in orb:
            g = tuple(img[i] * div[i] for i in range(3))
            if any(x.denominator != 1 for x in g):
                return ("I2:image_off_grid", f"K={k} image {img}")
            if img in seen:
                return ("I2:grid_point_covered_twice", f"grid point {img} is an image of {seen[img]} and {k}")
            seen[img] = k
        if abs(float(K.factor) - len(orb) / N) > 1e-12:
            return ("I2:weight_is_not_orbit_size", f"K={k} factor={K.factor} orbit={len(orb)} N={N}")
        # the library's own star must list each distinct image exactly once
        st = {mod1(frv(s)) for s in K.star}
        if len(K.star) != len(orb) or st != orb:
            return ("I2:star_differs_from_reference_orbit", f"K={k} star has {len(K.star)} entries, reference orbit {len(orb)}")
    if len(seen) != N:
        return ("I2:grid_point_not_covered", f"{N - len(seen)} of {N} grid points are not images of a retained point")
    return None


def ibox(K):
    return (ik(K.K), ik(K.dK))


def boxes_tile(parent, children):
    """exact: children boxes (centre, size) are disjoint, inside the parent and their volumes add up"""
    (pc, pd) = parent          # integer coordinates in units of 1/(2*DEN): doubled so that halves are exact
    plo = [2 * pc[i] - pd[i] for i in range(3)]
    phi = [2 * pc[i] + pd[i] for i in range(3)]
    vol = 0
    bx = []
    for (c, d) in children:
        lo = [2 * c[i] - d[i] for i in range(3)]
        hi = [2 * c[i] + d[i] for i in range(3)]
        if any(lo[i] < plo[i] or hi[i] > phi[i] for i in range(3)):
            return "child outside parent"
        vol += d[0] * d[1] * d[2]
        bx.append((lo, hi))
    if vol != pd[0] * pd[1] * pd[2]:
        return f"volumes {vol} != parent {pd[0] * pd[1] * pd[2]}"
    for (l1, h1), (l2, h2) in itertools.combinations(bx, 2):
        if all(l1[i] < h2[i] and l2[i] < h1[i] for i in range(3)):
            return "children overlap"
    return None


def class_weights(K_list, ops):
    """weight per (level, orbit) class, orbit identified by its smallest image"""
    w = {}
    for K in K_list:
        key = (int(K.refinement_level), min(iorbit(ops, ik(K.K))))
        w[key] = w.get(key, 0.0) + float(K.factor)
    return w


def mark_evaluated(K_list):
    for K in K_list:
        if not K.was_evaluated_flag:
            K.set_result(Dummy())


def run_grid_case(case):
    import wannierberri as wb
    from wannierberri.grid.Kpoint import exclude_equiv_points
    tier_depth = case.get("depth", _DEPTH[0])
    specs = dict(groups.variants(case["group"], case["setting"]))[case["variant"]]
    system = get_system(case["lat"])
    pg = groups.pointgroup(case["group"], case["lat"], variant=case["variant"], setting=case["setting"])
    if not pg.symmetric_grid(case["div"]) or not pg.symmetric_grid(np.array(case["div"]) * np.array(case["mesh"])):
        return {"ok": True, "nontrivial": False, "states": 0, "transitions": 0, "obs": "grid not compatible with the group"}
    system.pointgroup = pg
    ops = reduced_ops(specs, case["lat"])
    DEN[0] = 2 * int(np.lcm.reduce([int(d) * int(m) ** tier_depth for d, m in zip(case["div"], case["mesh"])]))
    nref = len(groups.reference_elements(specs))     # `ops` is deduplicated by the action on k (I and T act alike)
    if nref != pg.size:
        return {"ok": False, "key": "group:size_differs_from_reference", "detail": f"{case}: library {pg.size} reference {nref}"}
    use_sym = True
    grid = wb.Grid(system, NKdiv=case["div"], NKFFT=1)
    K0 = grid.get_K_list(use_symmetry=use_sym)
    tag = f"{case['group']}/{case['variant']}/{case['lat']}/div{case['div']}/mesh{case['mesh']}"

    def fail(kd, hist):
        return {"ok": False, "key": kd[0], "detail": f"{tag} history={hist}: {kd[1]}",
                "replay_case": dict(case, history=hist, depth=tier_depth)}

    bad = check_I1(K0, "initial") or check_initial(K0, ops, case["div"])
    if bad:
        return fail(bad, [])
    mark_evaluated(K0)
    memo_pg = {id(pg): pg}
    seen = {canon_state(K0)}
    frontier = [(K0, [])]
    nstates, ntrans, merges = 1, 0, set()
    mesh = np.array(case["mesh"])
    only_history = case.get("history")
    while frontier:
        K_list, hist = frontier.pop(0)
        if len(hist) >= tier_depth:
            continue
        for j in range(len(K_list)):
            if only_history is not None and (len(hist) >= len(only_history) or only_history[len(hist)] != j):
                continue
            KL = copy.deepcopy(K_list, dict(memo_pg))
            h2 = hist + [j]
            parent = KL[j]
            pbox = ibox(parent)
            pfac = float(parent.factor)
            # I3 on the raw children (no symmetry merging) of an independent copy
            raw = copy.deepcopy(parent, dict(memo_pg)).divide(ndiv=mesh.copy(), periodic=system.periodic, use_symmetry=False)
            t = boxes_tile(pbox, [ibox(c) for c in raw])
            if t:
                return fail(("I3:children_do_not_tile_parent", f"parent K={pbox[0]} dK={pbox[1]}: {t}"), h2)
            for c in raw:
                ratio = float(np.prod(c.dK) / np.prod(parent.dK))
                if abs(c.factor - pfac * ratio) > 1e-14 or c.refinement_level != parent.refinement_level + 1:
                    return fail(("I3:child_weight_or_level", f"child factor {c.factor} parent {pfac} ratio {ratio} level {c.refinement_level}"), h2)
            # the real step of run()
            l1 = len(KL)
            before_total = sum(K.factor for K in KL)
            children = parent.divide(ndiv=mesh.copy(), periodic=system.periodic, use_symmetry=use_sym)
            if abs(sum(c.factor for c in children) - pfac) > 1e-14 or parent.factor != 0:
                return fail(("I3:divide_loses_weight", f"children sum {sum(c.factor for c in children)} parent had {pfac}, parent now {parent.factor}"), h2)
            KL += children
            cw_before = class_weights(KL, ops)
            ids_before = {id(K): K for K in KL}
            exclude_equiv_points(KL, new_points=len(KL) - l1)
            cw_after = class_weights(KL, ops)
            ntrans += 1
            if abs(sum(K.factor for K in KL) - before_total) > 1e-13:
                return fail(("I4:merge_changes_total_weight", f"{before_total!r} -> {sum(K.factor for K in KL)!r}"), h2)
            for key in set(cw_before) | set(cw_after):
                if abs(cw_before.get(key, 0.0) - cw_after.get(key, 0.0)) > 1e-13:
                    return fail(("I4:merge_moves_weight_between_classes",
                                 f"class (level {key[0]}, orbit of {key[1]}) had {cw_before.get(key, 0.0)} now {cw_after.get(key, 0.0)}"), h2)
            removed = [K for i, K in ids_before.items() if i not in {id(x) for x in KL}]
            if removed:
                merges.add(len(removed))
            # every removed point must be equivalent (reference model) to a surviving point of its level
            surv = {}
            for K in KL:
                surv.setdefault((int(K.refinement_level), min(iorbit(ops, ik(K.K)))), []).append(K)
            for K in removed:
                if (int(K.refinement_level), min(iorbit(ops, ik(K.K)))) not in surv:
                    return fail(("I4:removed_point_has_no_equivalent_survivor", f"removed K={K.K} level {K.refinement_level}"), h2)
            bad = check_I1(KL, "after refinement")
            if bad:
                return fail(bad, h2)
            if len(ops) == 1:
                live = [K for K in KL if K.factor > 0]
                for K in live:
                    if abs(K.factor - float(np.prod(K.dK))) > 1e-14:
                        return fail(("I6:weight_is_not_cell_volume", f"K={K.K} factor {K.factor} volume {np.prod(K.dK)}"), h2)
                D2 = 2 * DEN[0]
                bx = [([2 * x - d for x, d in zip(ik(K.K), ik(K.dK))], [2 * d for d in ik(K.dK)]) for K in live]
                for (l1, d1), (l2, d2) in itertools.combinations(bx, 2):
                    if all(((l2[i] - l1[i]) % D2) < d1[i] or ((l1[i] - l2[i]) % D2) < d2[i] for i in range(3)):
                        return fail(("I6:live_cells_overlap", f"cells at {l1} size {d1} and {l2} size {d2}"), h2)
            mark_evaluated(KL)
            cs = canon_state(KL)
            if cs not in seen:
                seen.add(cs)
                nstates += 1
                frontier.append((KL, h2))
    return {"ok": True, "nontrivial": ([repr((tag, "merges", sorted(merges)))] if merges or len(ops) == 1 else False) if nstates > 1 else False,
            "states": nstates, "transitions": ntrans, "traces": ntrans,
            "outcome": (len(ops), nstates > 1, bool(merges)), "obs": {"group_order": len(ops), "initial_points": len(K0), "states": nstates}}


def vol_np(verts):
    """volumes of an array of tetrahedra (n,4,3); vertices are dyadic rationals in reduced coordinates, so
    double precision is exact up to rounding of O(1e-16)"""
    v = np.asarray(verts, dtype=float)
    return np.abs(np.linalg.det(v[:, 1:, :] - v[:, :1, :])) / 6.0


def bary_np(verts, p):
    """barycentric coordinates of point p in each tetrahedron (n,4)"""
    v = np.asarray(verts, dtype=float)
    T = np.transpose(v[:, 1:, :] - v[:, :1, :], (0, 2, 1))
    lam = np.linalg.solve(T, np.broadcast_to((np.asarray(p) - v[:, 0, :])[:, :, None], (len(v), 3, 1)))[:, :, 0]
    return np.concatenate([1 - lam.sum(axis=1, keepdims=True), lam], axis=1)


def run_tetra_case(case):
    import wannierberri as wb
    from wannierberri.grid.grid_tetra import GridTetra, GridTrigonal
    system = get_system(case["lat"])
    system.set_pointgroup()
    cls = GridTetra if case["grid"] == "GridTetra" else GridTrigonal
    tag = f"{case['grid']}/{case['lat']}/length{case['length']}/vol{case['by_vol']}/size{case['by_size']}"
    # horizon: the splitting loops at least halve the largest tetrahedron per pass, so a construction that
    # burns more than HORIZON_CPU_S seconds of *CPU time* (ITIMER_VIRTUAL: independent of machine load) with
    # fewer than 20000 tetrahedra is a livelock, not a big grid
    import signal

    class Horizon(Exception):
        pass

    def on_alarm(*a):
        raise Horizon()
    old = signal.signal(signal.SIGVTALRM, on_alarm)
    signal.setitimer(signal.ITIMER_VIRTUAL, HORIZON_CPU_S)
    try:
        grid = cls(system, length=case["length"], NKFFT=1, refine_by_volume=case["by_vol"], refine_by_size=case["by_size"])
    except Horizon:
        return {"ok": False, "key": "tetra:grid_construction_does_not_terminate",
                "detail": f"{tag}: GridTetra.__init__ still splitting after {HORIZON_CPU_S} s of CPU time"}
    finally:
        signal.setitimer(signal.ITIMER_VIRTUAL, 0)
        signal.signal(signal.SIGVTALRM, old)
    K_list = grid.get_K_list()
    if len(K_list) > 20000:
        return {"ok": True, "nontrivial": False, "obs": f"{len(K_list)} tetrahedra: above the cap, skipped", "states": 0, "transitions": 0}
    verts = np.array([K.vertices + K.K[None, :] for K in K_list])
    vols = vol_np(verts)
    tot = vols.sum()
    full = case["grid"] == "GridTetra"
    if vols.min() <= 0:
        return {"ok": False, "key": "tetra:degenerate_tetrahedron", "detail": f"{tag}: volume {vols.min()}"}
    if full and abs(tot - 1) > 1e-12:
        return {"ok": False, "key": "tetra:volumes_do_not_fill_cell", "detail": f"{tag}: total volume {tot!r}"}
    fac = np.array([K.factor for K in K_list])
    if abs(fac.sum() - 1) > 1e-12 or fac.min() < 0:
        return {"ok": False, "key": "tetra:weights_do_not_sum_to_one", "detail": f"{tag}: {fac.sum()!r}"}
    if np.abs(fac - vols / tot).max() > 1e-13:
        i = int(np.argmax(np.abs(fac - vols / tot)))
        return {"ok": False, "key": "tetra:weight_not_proportional_to_volume", "detail": f"{tag}: factor {fac[i]} volume share {vols[i] / tot}"}
    # generic sample points of the cell are strictly inside exactly one tetrahedron
    if full:
        n = 7 if len(K_list) < 2000 else 5
        for a in range(n):
            for b in range(n):
                for c in range(n):
                    p = np.array([a / n - 0.5 + 1 / 1009., b / n - 0.5 + 1 / 2003., c / n - 0.5 + 1 / 3001.])
                    lam = bary_np(verts, p)
                    inside = np.all(lam > 1e-11, axis=1).sum()
                    onb = (np.all(lam > -1e-11, axis=1) & ~np.all(lam > 1e-11, axis=1)).sum()
                    if inside != 1 or onb != 0:
                        return {"ok": False, "key": "tetra:point_not_in_exactly_one_tetrahedron",
                                "detail": f"{tag}: sample {p.tolist()} is inside {inside} tetrahedra (on the boundary of {onb})"}
    # one divide() on every tetrahedron: children tile the parent and keep weight
    ntrans = 0
    for K, v, vol in list(zip(K_list, verts, vols))[:300]:
        # scalars (grid construction) and the 3-number refinement meshes run() passes as adpt_mesh (cubic or not)
        for ndiv in (2, 3, np.array([2, 2, 2]), np.array([2, 3, 2]), np.array([3, 1, 2]), np.array([2, 2, 1])):
            P = K.copy()
            ch = P.divide(ndiv=ndiv, refine=True)
            ntrans += 1
            cverts = np.array([c.vertices + c.K[None, :] for c in ch])
            cv = vol_np(cverts)
            if abs(cv.sum() - vol) > 1e-14 * max(1, vol) or (np.ndim(ndiv) == 0 and len(ch) != ndiv) or len(ch) < 1:
                return {"ok": False, "key": "tetra:divide_changes_volume", "detail": f"{tag}: parent {vol} children {cv.tolist()}"}
            if abs(sum(c.factor for c in ch) - K.factor) > 1e-15 or P.factor != 0:
                return {"ok": False, "key": "tetra:divide_changes_weight", "detail": f"{tag}: parent {K.factor} children {[c.factor for c in ch]}"}
            for c, cvv in zip(ch, cv):
                if abs(c.factor - K.factor * cvv / vol) > 1e-15:
                    return {"ok": False, "key": "tetra:child_weight_not_volume_share", "detail": f"{tag}"}
            cents = cverts.mean(axis=1)
            for i, cen in enumerate(cents):
                if not np.all(bary_np(v[None], cen) > 1e-12):
                    return {"ok": False, "key": "tetra:child_outside_parent", "detail": f"{tag}: child centre {cen.tolist()}"}
                lam = bary_np(cverts, cen)
                if np.all(lam > 1e-12, axis=1).sum() != 1:
                    return {"ok": False, "key": "tetra:children_overlap", "detail": tag}
    return {"ok": True, "nontrivial": (tag if len(K_list) > 5 else False), "states": len(K_list), "transitions": ntrans,
            "traces": ntrans, "outcome": ("tetra", len(K_list) > 5), "obs": {"tetrahedra": len(K_list)}}


def run_case(case, seed):
    if case["kind"] == "grid":
        return run_grid_case(case)
    return run_tetra_case(case)


_DEPTH = [2]


def setup(tier, seed):
    _DEPTH[0] = 2 if tier == "quick" else 3
