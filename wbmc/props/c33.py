"""C33 — tetrahedron / parallelepiped corner energies are the band energies at the corners.

Exhaustive product: system kinds {System_R (electron / phonon flag; Hermitian-paired H(R), and NOT Hermitian-paired
H(-R) != H(R)^+ on R-sets closed / not closed under R -> -R), SystemSOC (nspin 1/2, with and
without a spin-orbit term, spin-down R-vector list equal / permuted / longer / shorter / different
w.r.t. spin-up), SystemKP} x grids (NKdiv x NKFFT for parallelepipeds, length x NKFFT for GridTetra)
x every K-point of the grid x cell type x band selection (Emin) on/off.

Oracle (a) independent: plain numpy Fourier sum / the k.p function evaluated in the harness at every
corner k-point, diagonalised with eigvalsh;  (b) differential: the library's own
`E_K_corners_*_test` (a fresh Data_K shifted to the corner) when no band selection is active;
(c) for the systems whose H(R) is not Hermitian-paired (get_system_random without symmetrisation, from_sparse with a
partial hopping set) the judge is the property's own: E_K of a fresh Data_K object of the same class created by the
harness at every corner (dK = Kp_fullBZ + corner offset, no band selection) - the library's convention for such
systems is that H(k) is hermitised, and the harness does not impose a model of its own there.
"""
import itertools

import numpy as np

ID = "C33"
LEVEL = "exploration"
RULE = ("cases = (system kind & configuration, cell type, grid, band selection); each case evaluates "
        "E_K_corners_parallel / E_K_corners_tetra on every K-point of the grid (production call: "
        "dK=Kpoint.Kp_fullBZ, E_K first as tetraWeights does) and compares every corner of every FFT point with a "
        "plain diagonalisation at that corner (for real-space systems whose H(R) is not Hermitian-paired: with E_K of a "
        "fresh Data_K object of the same class evaluated directly at the corner); non-trivial key = (kind, configuration class, cell, grid) — for "
        "SystemSOC the configuration class is the relation between the spin-down and spin-up R-vector lists")
ASSUMPTIONS = [
    "systems are the in-memory zoo (num_wann 1-3 per spin (4 in thorough), lattices tric/hex/fcc (+bcc/mono in thorough), R-sets shell1/shell2/lopsided); "
    "SOC data are synthetic (generic smooth in k) passed through the real set_soc_R on a 2x2x2 mesh",
    "not-Hermitian-paired real-space systems: generic complex Ham_R without pairing on shell1/lopsided(/shell2) (closed under R -> -R) and "
    "through System_R.from_sparse on two 7-vector lists that are not closed under R -> -R (no partner at all / one pair only); num_wann 1-3 (4 in thorough; "
    "num_wann=1 cannot distinguish a hermitised from a non-hermitised 1x1 block), one phonon-flag system; the pairing defect max_R|H(-R)-H(R)^+| > 0.1 is "
    "verified per case; SOC and k.p systems have no such flavour (set_soc_R data are Hermitian at every k by construction)",
    "grids: NKdiv in {1,2} x NKFFT in {1,2,(2,3,1)}; GridTetra with 5 (unsplit) and split tetrahedra; no adaptive refinement history",
    "k.p corner points exactly on the +-1/2 box boundary (where SystemKP's wrap is discontinuous) accept either side",
    "SystemSOC without a spin-orbit term has rvec=None, so its grid is built from the spin-up system",
]

TOL = 1e-10

R_SYSTEMS = [  # (nw, lat, rs)
    (1, "tric", "shell1"), (2, "tric", "shell1"), (3, "tric", "lopsided"), (2, "hex", "shell2"),
    (2, "fcc", "shell1"), (3, "hex", "lopsided"),
]
# relation of the spin-down R list to the spin-up one: (label, rs_up, rs_down, order of the down list)
SOC_REL = [
    ("nspin1", "shell1", None, None),
    ("equal", "shell1", "shell1", "id"),
    ("permuted_rot1", "shell1", "shell1", "rot1"),
    ("permuted_rev", "shell1", "shell1", "rev"),
    ("down_longer", "shell1", "shell2", "id"),
    ("down_shorter", "shell2", "shell1", "id"),
    ("different", "shell1", "lopsided", "id"),
]
SOC_BASE = [(1, "tric"), (2, "tric"), (2, "hex")]
R_SYSTEMS_T = R_SYSTEMS + [(2, "bcc", "shell2"), (3, "mono", "shell2"), (4, "tric", "shell1")]
SOC_BASE_T = SOC_BASE + [(3, "tric"), (1, "hex"), (2, "fcc")]
KP_MODELS = ["mass1", "dirac2", "dirac2_orth"]
# real-space Hamiltonians that are NOT Hermitian-paired, H(-R) != H(R)^+ (the library hermitises H(k) = sum_R H(R) e^{ikR}
# wherever it evaluates bands): (nw, lat, R-list, route, phonon flag)
#   route "raw"    : System_R with a generic complex Ham_R on a zoo R-set closed under R -> -R (what get_system_random makes)
#   route "sparse" : System_R.from_sparse given only part of the hoppings; R-list not closed under R -> -R
OPEN_RSETS = {
    "half_open": [(0, 0, 0), (1, 0, 0), (0, 1, 0), (0, 0, 1), (1, 1, 0), (-1, 0, 1), (2, -1, 0)],    # no R != 0 has its partner
    "mixed_open": [(0, 0, 0), (1, 0, 0), (-1, 0, 0), (0, 1, 0), (0, 0, -1), (1, -1, 1), (0, 1, 3)],  # one pair, the rest single
}
UNPAIRED = [
    (2, "tric", "shell1", "raw", False), (3, "hex", "lopsided", "raw", False),
    (2, "tric", "half_open", "sparse", False), (3, "fcc", "mixed_open", "sparse", False),
    (1, "tric", "half_open", "sparse", False), (2, "hex", "mixed_open", "sparse", True),
]
UNPAIRED_T = UNPAIRED + [(4, "tric", "mixed_open", "sparse", False), (2, "bcc", "half_open", "sparse", True),
                         (3, "mono", "shell2", "raw", True), (2, "fcc", "lopsided", "raw", False)]

PAR_GRIDS = [(1, 1), (1, 2), (2, 1), (2, 2), (1, (2, 3, 1)), (2, (2, 3, 1))]
# lengths chosen off the exact ties size==dkmax at which GridTetra.split_tetra_size never terminates (e.g. fcc, length=1.0)
TET_GRIDS_Q = [(1.1, 1), (1.1, 2), (1.1, (2, 3, 1)), (3.3, 1)]
TET_GRIDS_T = TET_GRIDS_Q + [(3.3, 2), (5.3, 1), (3.3, (2, 3, 1)), (5.3, 2)]


def cases(tier, seed):
    tet = TET_GRIDS_Q if tier == "quick" else TET_GRIDS_T
    grids = [("parallel", g) for g in PAR_GRIDS] + [("tetra", g) for g in tet]
    out = []
    for cell, g in grids:
        for sel in (False, True):
            for nw, lat, rs in (R_SYSTEMS if tier == "quick" else R_SYSTEMS_T):
                for ph in (False, True):
                    if ph and (tier == "quick") and nw == 3:
                        continue
                    out.append({"kind": "R", "nw": nw, "lat": lat, "rs": rs, "phonon": ph,
                                "cell": cell, "grid": list(g), "select": sel})
            for nw, lat, rs, route, ph in (UNPAIRED if tier == "quick" else UNPAIRED_T):
                out.append({"kind": "R", "nw": nw, "lat": lat, "rs": rs, "phonon": ph, "pairing": route,
                            "cell": cell, "grid": list(g), "select": sel})
            for rel in SOC_REL:
                for nw, lat in (SOC_BASE if tier == "quick" else SOC_BASE_T):
                    for with_soc in (False, True):
                        if tier == "quick" and (nw, lat) == (2, "hex") and not with_soc:
                            continue
                        out.append({"kind": "soc", "nw": nw, "lat": lat, "rel": rel[0], "with_soc": with_soc,
                                    "cell": cell, "grid": list(g), "select": sel})
            for m in KP_MODELS:
                out.append({"kind": "kp", "model": m, "cell": cell, "grid": list(g), "select": sel})
    # simplest first
    def size(c):
        g = c["grid"]
        return (float(g[0]), int(np.prod(g[1])), str(g))
    out.sort(key=lambda c: (c["select"], c["cell"] == "tetra", size(c), c["kind"]))
    return out


# ---------------------------------------------------------------------------- systems

def kp_functions(model):
    """(Ham(k_cart), kwargs for SystemKP)"""
    from wbmc import zoo
    sx, sy, sz = (np.array(m, dtype=complex) for m in ([[0, 1], [1, 0]], [[0, -1j], [1j, 0]], [[1, 0], [0, -1]]))
    M = np.array([[1.0, 0.2, 0.1], [0.2, 0.7, -0.3], [0.1, -0.3, 1.4]])
    b = np.array([0.3, -0.2, 0.5])
    if model == "mass1":
        def ham(k):
            k = np.asarray(k, dtype=float)
            return np.array([[k @ M @ k + b @ k]], dtype=complex)
        kw = dict(kmax=1.0)
    else:
        def ham(k):
            k = np.asarray(k, dtype=float)
            return (0.3 * (k @ M @ k) + 0.1 * (b @ k)) * np.eye(2) + k[0] * sx + 0.8 * k[1] * sy + (0.4 + 1.1 * k[2]) * sz
        kw = dict(kmax=0.8) if model == "dirac2" else dict(kmax=None, recip_lattice=np.diag([2.0, 2.4, 3.0]))
    return ham, kw


def build(case, seed):
    """returns (system, grid_system, reference function k_red -> list of candidate spectra, config-class)"""
    from wbmc import zoo, socsynth as ss
    kind = case["kind"]
    if kind == "R" and case.get("pairing"):
        s, defect = build_unpaired(case, seed)
        # no harness model here: the judge is the system itself evaluated directly at the corner (see run_case)
        return s, s, None, ("R", "phonon" if case["phonon"] else "electron", "H(-R)!=H(R)^+", case["pairing"],
                            "R_set_open" if case["rs"] in OPEN_RSETS else "R_set_closed") if defect > 0.1 else None
    if kind == "R":
        s = zoo.make_system(case["nw"], case["lat"], case["rs"], "generic", seed=seed, tag="c33")
        if case["phonon"]:
            s.is_phonon = True

        def ref(k):
            E = np.linalg.eigvalsh(ss.H_plain(s, k))
            return [ss.phonon_freq(E) if case["phonon"] else E]
        return s, s, ref, ("R", "phonon" if case["phonon"] else "electron")
    if kind == "soc":
        rel = {r[0]: r for r in SOC_REL}[case["rel"]]
        up = zoo.make_system(case["nw"], case["lat"], rel[1], "generic", seed=seed, tag="c33up")
        if rel[2] is None:
            down = None
        else:
            down = zoo.make_system(case["nw"], case["lat"], rel[2], "generic", seed=seed, tag="c33dn")
            if rel[3] != "id":
                down = ss.reordered_copy(down, ss.order_of(rel[3], down.rvec.nRvec))
        s = ss.make_soc_system(up, down, with_soc=case["with_soc"], theta=0.7, phi=1.9, alpha_soc=0.8,
                               seed=seed, tag="c33")

        def ref(k):
            return [np.linalg.eigvalsh(ss.H_soc_plain(s, k))]
        return s, (s if case["with_soc"] else up), ref, ("soc", case["rel"], "with_soc" if case["with_soc"] else "no_soc")
    if kind == "kp":
        from wannierberri.system.system_kp import SystemKP
        ham, kw = kp_functions(case["model"])
        s = SystemKP(Ham=ham, silent=True, **kw)
        recip = np.array(s.recip_lattice)

        def ref(k):
            k = np.asarray(k, dtype=float)
            w = (k + 0.5) % 1 - 0.5           # box [-1/2, 1/2)
            tie = [i for i in range(3) if abs(abs(w[i]) - 0.5) < 1e-9]
            cands = []
            for signs in itertools.product((-1, 1), repeat=len(tie)):
                ww = w.copy()
                for i, sg in zip(tie, signs):
                    ww[i] = 0.5 * sg
                cands.append(np.linalg.eigvalsh(ham(ww @ recip)))
            return cands
        return s, s, ref, ("kp", case["model"])
    raise KeyError(kind)


def build_unpaired(case, seed):
    """(System_R whose Ham_R is not Hermitian-paired, max_R |H(-R) - H(R)^+|)"""
    from wbmc import zoo
    from wannierberri.system.system_R import System_R
    from wannierberri.fourier.rvectors import Rvectors
    nw, lat, rs = case["nw"], case["lat"], case["rs"]
    L = zoo.lattice(lat)
    iR = OPEN_RSETS[rs] if rs in OPEN_RSETS else zoo.rset(rs)
    cen = zoo.centres("generic", nw)
    rng = zoo.rng_for(seed, "c33-unpaired", nw, lat, rs)
    X = zoo.random_R_matrix(rng, iR, nw, 0, L)          # generic complex, no pairing imposed
    X[iR.index((0, 0, 0))] += np.diag(1.0 * np.arange(nw))
    if case["pairing"] == "sparse":
        ham = {R: {(i, j): X[n, i, j] for i in range(nw) for j in range(nw)} for n, R in enumerate(iR)}
        s = System_R.from_sparse(real_lattice=L, wannier_centers_red=cen, matrices={"Ham": ham})
    else:
        s = System_R(silent=True, name="c33raw")
        s.set_real_lattice(L)
        s.num_wann = nw
        s.wannier_centers_cart = cen @ L
        s.rvec = Rvectors(lattice=s.real_lattice, iRvec=iR, shifts_left_red=s.wannier_centers_red)
        s.set_R_mat("Ham", X)
        s.set_pointgroup()
        s.check_periodic()
    if case["phonon"]:
        s.is_phonon = True
    H = {tuple(int(x) for x in R): s.get_R_mat("Ham")[n] for n, R in enumerate(s.rvec.iRvec)}
    zero = np.zeros((nw, nw))
    defect = max(float(np.abs(H.get(tuple(-x for x in R), zero) - h.conj().T).max()) for R, h in H.items())
    return s, defect


def make_grid(case, gsys):
    from wannierberri.grid import Grid, GridTetra
    g = case["grid"]
    if case["cell"] == "parallel":
        return Grid(gsys, NKdiv=g[0], NKFFT=g[1], use_symmetry=False)
    # GridTetra's splitting loop does not terminate when a tetrahedron size ties with the target exactly
    # (outside this property); guard so that such a grid is reported as skipped instead of hanging the check
    import signal

    def _alarm(*a):
        raise GridTimeout()
    old = signal.signal(signal.SIGALRM, _alarm)
    signal.alarm(60)
    try:
        return GridTetra(gsys, length=g[0], NKFFT=g[1])
    finally:
        signal.alarm(0)
        signal.signal(signal.SIGALRM, old)


class GridTimeout(Exception):
    pass


def corner_offsets(case, K):
    if case["cell"] == "parallel":
        dK = K.dK_fullBZ
        return [((ix, iy, iz), (np.array([ix, iy, iz]) - 0.5) * dK) for ix in (0, 1) for iy in (0, 1) for iz in (0, 1)]
    return [((iv,), v) for iv, v in enumerate(K.vertices_fullBZ)]


def fail_key(case, clsname, method, symptom):
    if case["kind"] == "soc" and case["rel"] not in ("nspin1", "equal"):
        return f"{clsname}.{method}:updown_Rsets_differ:{symptom}"
    if case.get("pairing"):
        return f"{clsname}.{method}:H_R_not_hermitian_paired:{symptom}"
    return f"{clsname}.{method}:{symptom}"


def run_case(case, seed):
    from wannierberri.data_K import get_data_k_class_from_system
    system, gsys, ref, cfg = build(case, seed)
    try:
        grid = make_grid(case, gsys)
    except GridTimeout:
        return {"ok": True, "nontrivial": False, "obs": {"skipped": "GridTetra construction did not terminate in 60 s"}}
    if cfg is None:
        return {"ok": True, "nontrivial": False, "obs": {"skipped": "the generic Ham_R came out Hermitian-paired"}}
    cls = get_data_k_class_from_system(system)
    method = "E_K_corners_parallel" if case["cell"] == "parallel" else "E_K_corners_tetra"
    Klist = grid.get_K_list(use_symmetry=False)
    params = {}
    if case["select"]:
        # a window that keeps a strict subset of bands at the first K-point: Emin = median centre energy
        d0 = cls(system, dK=Klist[0].Kp_fullBZ, grid=grid, Kpoint=Klist[0])
        E0 = np.sort(np.array(d0.E_K).ravel())
        mid = len(E0) // 2
        params = {"Emin": 0.5 * (E0[mid - 1] + E0[mid]) if len(E0) > 1 else E0[0] - 1.0}
    nK = 0
    dropped = False
    worst = 0.0
    for iK, K in enumerate(Klist):
        d = cls(system, dK=K.Kp_fullBZ, grid=grid, Kpoint=K, **params)
        EK = np.array(d.E_K)         # tetraWeights evaluates the centre energies first
        try:
            got = np.array(getattr(d, method)())
        except Exception as e:      # the corner evaluation itself must not raise on a valid system
            return {"ok": False, "key": fail_key(case, cls.__name__, method, "raises_" + type(e).__name__),
                    "nontrivial": [cfg + (case["cell"],)],
                    "detail": f"{case} K#{iK}={K.K.tolist()} -> {type(e).__name__}: {e}"}
        selK = np.array(d.select_K, dtype=bool)
        selB = np.array(d.select_B, dtype=bool)
        if not (selK.all() and selB.all()):
            dropped = True
        kpts = np.array(d.kpoints_all)
        offs = corner_offsets(case, K)
        nb = system.num_wann
        cshape = (2, 2, 2) if case["cell"] == "parallel" else (4,)
        if got.shape != (selK.sum(),) + cshape + (selB.sum(),) or got.shape[0] != EK.shape[0] or got.shape[-1] != EK.shape[1]:
            return {"ok": False, "key": fail_key(case, cls.__name__, method, "shape"),
                    "detail": f"{case} K#{iK}: corners {got.shape}, centre {EK.shape}, selected k {selK.sum()} bands {selB.sum()}"}
        scale = max(1.0, float(np.abs(got).max()) if got.size else 1.0)
        ik_sel = np.where(selK)[0]
        if ref is None:
            # the system evaluated directly at the corner k-points: a fresh object of the same class (no band
            # selection, not attached to the K-point) shifted to the corner; its kpoints_all are kpts + v (mod 1) in the same order
            direct = {}
            for idx, v in offs:
                dc = cls(system, dK=np.array(K.Kp_fullBZ) + v, grid=grid)
                if np.abs((np.array(dc.kpoints_all) - (kpts + v[None, :]) + 0.5) % 1 - 0.5).max() > 1e-12:   # same point of the BZ
                    raise RuntimeError("harness: the directly evaluated object is not at the corner k-points")
                direct[idx] = np.array(dc.E_K)
        for jk, ik in enumerate(ik_sel):
            for idx, v in offs:
                cands = ref(kpts[ik] + v) if ref is not None else [direct[idx][ik]]
                g = got[(jk,) + idx]
                err = min(float(np.abs(g - c[selB]).max()) if selB.any() else 0.0 for c in cands)
                worst = max(worst, err)
                if err > TOL * scale:
                    return {"ok": False, "key": fail_key(case, cls.__name__, method, "wrong_energies"),
                            "nontrivial": [cfg + (case["cell"],)],
                            "detail": f"{case} K#{iK}={K.K.tolist()} FFT point {kpts[ik].tolist()} corner {idx} "
                                      f"(k={np.round(kpts[ik] + v, 6).tolist()}): got {g.tolist()} direct {cands[0][selB].tolist()} "
                                      f"|diff|={err:.3e}"}
        # differential oracle: the library's own reference (fresh object: band selection is cached per object)
        if not case["select"]:
            d2 = cls(system, dK=K.Kp_fullBZ, grid=grid, Kpoint=K)
            tst = np.array(getattr(d2, method + "_test")())
            if case["kind"] != "kp":   # k.p: the shifted-grid reference wraps differently on the box boundary (ties)
                e2 = float(np.abs(tst - got).max())
                if e2 > TOL * scale:
                    return {"ok": False, "key": fail_key(case, cls.__name__, method, "differs_from_" + method + "_test"),
                            "detail": f"{case} K#{iK}: |corners - corners_test| = {e2:.3e}"}
        nK += 1
    nt = [cfg + (case["cell"], str(case["grid"]))]
    if case["select"]:
        nt = [cfg + (case["cell"], str(case["grid"]), "select")] if dropped else False
    return {"ok": True, "nontrivial": nt, "obs": {"K_points": nK, "max_err": worst, "bands_dropped": dropped}}


def finish(tier, cases, results):
    kinds = {}
    for c in cases:
        k = c["kind"] + (":" + c["rel"] if c["kind"] == "soc" else "")
        kinds[k] = kinds.get(k, 0) + 1
    return {"axes": {"cases_per_kind": kinds,
                     "parallel_grids(NKdiv,NKFFT)": PAR_GRIDS,
                     "tetra_grids(length,NKFFT)": TET_GRIDS_Q if tier == "quick" else TET_GRIDS_T,
                     "select": [False, True]},
            "K_points_evaluated": int(sum((r.get("obs") or {}).get("K_points", 0) for r in results)),
            "max_abs_error_seen_in_passing_cases": max([(r.get("obs") or {}).get("max_err", 0.0) for r in results] + [0.0])}
