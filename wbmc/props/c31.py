"""C31 — k.p models: numerically derived k-derivatives agree with the analytic ones.

Seam: the real `SystemKP(Ham[,derHam,der2Ham,der3Ham], kmax|real_lattice|recip_lattice, k_vector_cartesian,
finite_diff_dk)`, its `derHam/der2Ham/der3Ham(_cart)` members, `evaluate_k` tabulators and `run()`.

Exhaustive product
* impulse Hamiltonians: every monomial k_x^a k_y^b k_z^c (a+b+c <= 4, 35 of them) x matrix {1 band, sigma_x,
  sigma_y, sigma_z} — exactness classes are explicit: degree <= 2 must be reproduced to round-off by all three
  numerical derivatives, degree 3 leaves an O(dk^2) error in the first derivative only, degree 4 in the first two;
* composite models (isotropic / anisotropic mass, Rashba + cubic warping, tilted Weyl, BHZ-like + quartic, a quartic
  one-band model, a smooth cosine model);
* x lattices {cubic kmax=1, cubic kmax=2.123, tetragonal real lattice, hexagonal reciprocal lattice[, triclinic]}
  x k-vector convention {cartesian, reduced} x finite_diff_dk {1e-3, 1e-4[, 1e-2]} x number of analytic derivatives
  supplied {0,1,2} (the rest numerical, possibly compounded) x the k alphabet inside the box (+ one k+G).

Oracle: analytic derivatives written here (monomial calculus / cosine phases; chain rule for the reduced
convention).  |numerical - analytic| must stay below an explicit finite-difference bound built from the Taylor
remainder of the B1 scheme  (1/6) sum_b |w_b||b_a||b|_1^3 sup|d^3 f|  (compounded for 2nd and 3rd derivative) plus
the propagated round-off  eps * (sum_b |w_b||b_a|)^L * sup|f|.  The shells themselves are checked first
(sum_b w_b b_a b_c = delta_ac, +-b symmetry, b_red = integer*dk, b_cart = b_red.recip).  Hermiticity of every
derivative; tabulated Velocity / InvMass / Der3E and run() of CumDOS / DOS / Ohmic_FermiSea / Ohmic_FermiSurf with
numerical derivatives must equal the runs with all analytic derivatives within the bound that perturbation theory
gives for the derivative error (gaps measured in the harness).
"""
import itertools

import numpy as np

ID = "C31"
LEVEL = "exploration"
RULE = ("cases = (Hamiltonian from the impulse/composite alphabet, lattice, k-vector convention, finite_diff_dk); each "
        "case builds SystemKP with 0,1,2 analytic derivatives and compares der1/2/3Ham with the analytic tensors at "
        "every k of the alphabet (5 points), composite models additionally through evaluate_k tabulators; 'run' cases "
        "compare run() of 4 static calculators between numerical and analytic derivatives; non-trivial = at least one "
        "numerically obtained derivative is non-zero at some k (constant / vanishing impulses are trivial)")
ASSUMPTIONS = [
    "k alphabet stays >= 0.1 (reduced) away from the box boundary: SystemKP wraps k into [-1/2,1/2) and a finite "
    "difference across the wrap is outside the statement ('k-points inside the box')",
    "polynomials up to degree 4, one smooth (cosine) model, 1-2 bands",
    "finite-difference accuracy = explicit Taylor-remainder bound of the B1 scheme + propagated round-off "
    "(third numerical derivative with dk=1e-4: round-off ~1e-4 of sup|H|)",
    "evaluate_k is called with k as numpy array (a tuple k raises TypeError for k.p systems: outside this property)",
    "calculator comparison uses models whose gaps are measured on the points used; points with gaps in "
    "(1e-6,1e-2) are excluded from InvMass/Der3E comparisons",
    "run() comparisons use odd grids (3^3, 5^3): even grids contain k-points on the box boundary, where the "
    "numerical derivative straddles the wrap of SystemKP (k inside the box only, as the statement says)",
    "quick: matrices {1 band, sigma_y}, dk {1e-3,1e-4}, 4 lattices (+ triclinic for the composite models); thorough adds sigma_x, sigma_z, dk=1e-2, triclinic everywhere",
]

EPS = np.finfo(float).eps
PAULI = np.array([[[1, 0], [0, 1]], [[0, 1], [1, 0]], [[0, -1j], [1j, 0]], [[1, 0], [0, -1]]], dtype=complex)
SQ3 = np.sqrt(3.0)

LATTICES = {
    "cubic1": dict(kmax=1.0),
    "cubic2": dict(kmax=2.123),
    "tet": dict(kmax=None, real_lattice=[[2.5, 0, 0], [0, 2.5, 0], [0, 0, 3.1]]),
    "hex": dict(kmax=None, recip_lattice=[[2.0, 0, 0], [-1.0, SQ3, 0], [0, 0, 2.4]]),
    "tric": dict(kmax=None, real_lattice=[[3.0, 0.3, 0.6], [0.9, 2.7, -0.3], [-0.6, 0.75, 2.4]]),
    # lattices whose finite-difference shells have another structure: a tetragonal cell whose 4-vector in-plane shell is
    # not returned as adjacent (b,-b) pairs, a bcc real lattice (12-vector shell), and a triclinic cell
    # (a,b,c = 3.8,4.8,3.6; angles 114,83,94) whose B1 solution contains a shell with a NEGATIVE weight
    "tet14": dict(kmax=None, real_lattice=[[2.5, 0, 0], [0, 2.5, 0], [0, 0, 3.5]]),
    "bcc": dict(kmax=None, real_lattice=[[-1.5, 1.5, 1.5], [1.5, -1.5, 1.5], [1.5, 1.5, -1.5]]),
    "tric_neg": dict(kmax=None, real_lattice=[[3.8, 0.0, 0.0], [-0.334831, 4.788307, 0.0], [0.43873, -1.437149, 3.27141]]),
}
K_ALPHABET = [("G", (0.0, 0.0, 0.0)), ("g1", (0.1, 0.2, -0.15)), ("g2", (0.3, -0.35, 0.25)),
              ("g3", (-0.4, 0.05, 0.38)), ("g1+G", (1.1, -0.8, 1.85))]

# composite models: list of terms ("p", (a,b,c), mu, coef)  or ("c", (qx,qy,qz), phase, mu, coef)
MODELS = {
    "mass_iso": (1, [("p", (2, 0, 0), 0, 0.2615), ("p", (0, 2, 0), 0, 0.2615), ("p", (0, 0, 2), 0, 0.2615)]),
    "mass_aniso": (1, [("p", (2, 0, 0), 0, 0.86), ("p", (0, 2, 0), 0, 0.94), ("p", (0, 0, 2), 0, 0.88),
                       ("p", (1, 1, 0), 0, 0.34), ("p", (1, 0, 1), 0, 0.22), ("p", (0, 1, 1), 0, -0.17)]),
    "quartic": (1, [("p", (2, 0, 0), 0, 0.5), ("p", (0, 2, 0), 0, 0.5), ("p", (0, 0, 2), 0, 0.5),
                    ("p", (4, 0, 0), 0, 0.3), ("p", (2, 2, 0), 0, -0.2), ("p", (0, 1, 3), 0, 0.1),
                    ("p", (1, 1, 1), 0, 0.4), ("p", (1, 0, 0), 0, 0.15)]),
    "rashba_warp": (2, [("p", (2, 0, 0), 0, 0.5), ("p", (0, 2, 0), 0, 0.5), ("p", (0, 0, 2), 0, 0.5),
                        ("p", (1, 0, 0), 2, 0.7), ("p", (0, 1, 0), 1, -0.7),
                        ("p", (3, 0, 0), 3, 0.3), ("p", (1, 2, 0), 3, -0.9), ("p", (0, 0, 1), 3, 0.2),
                        ("p", (0, 0, 0), 3, 0.35)]),
    "weyl_tilt": (2, [("p", (1, 0, 0), 1, 0.8), ("p", (0, 1, 0), 2, 0.8), ("p", (0, 0, 1), 3, 0.6),
                      ("p", (0, 0, 1), 0, 0.25), ("p", (2, 0, 0), 3, 0.2), ("p", (0, 2, 0), 3, -0.2)]),
    "bhz4": (2, [("p", (0, 0, 0), 3, 0.5), ("p", (2, 0, 0), 3, 0.4), ("p", (0, 2, 0), 3, 0.4), ("p", (0, 0, 2), 3, 0.4),
                 ("p", (1, 0, 0), 1, 0.6), ("p", (0, 1, 0), 2, 0.6),
                 ("p", (2, 0, 0), 0, 0.15), ("p", (0, 2, 0), 0, 0.15), ("p", (0, 0, 4), 0, 0.1),
                 ("p", (1, 1, 2), 1, 0.12)]),
    "cosine": (2, [("c", (1.3, 0.0, 0.0), 0.2, 0, -0.8), ("c", (0.0, 0.7, -1.1), 0.4, 3, 0.5),
                   ("c", (0.9, 0.0, 0.5), 0.0, 1, 0.3), ("c", (0.0, 1.1, 0.0), 0.3, 2, 0.25),
                   ("p", (0, 0, 0), 3, 0.9)]),
}
RUN_MODELS = ("mass_iso", "mass_aniso", "quartic", "bhz4", "cosine")


# ----------------------------------------------------------------------------------------------
# analytic calculus
def _falling(a, n):
    out = 1
    for i in range(n):
        out *= (a - i)
    return out


def terms_of(case):
    if case["ham"][0] == "mono":
        _, p, mat = case["ham"]
        if mat == "s":
            return 1, [("p", tuple(p), 0, 1.0)]
        return 2, [("p", tuple(p), {"x": 1, "y": 2, "z": 3}[mat], 1.0)]
    return MODELS[case["ham"][1]]


class Model:
    """H(kappa) and all its derivatives w.r.t. kappa (the coordinates the user's Ham works in)"""

    def __init__(self, nw, terms):
        self.nw = nw
        self.terms = terms
        self.sig = [PAULI[t[-2]] if nw == 2 else np.array([[1.0 + 0j]]) for t in terms]
        self.nterms = len(terms)
        self.degree = max([sum(t[1]) for t in terms if t[0] == "p"] + [0])
        self.smooth = any(t[0] == "c" for t in terms)

    def ham(self, k):
        x, y, z = float(k[0]), float(k[1]), float(k[2])
        H = np.zeros((self.nw, self.nw), dtype=complex)
        for t, s in zip(self.terms, self.sig):
            if t[0] == "p":
                a, b, c = t[1]
                H += (t[3] * x ** a * y ** b * z ** c) * s
            else:
                q = t[1]
                H += (t[4] * np.cos(q[0] * x + q[1] * y + q[2] * z + t[2])) * s
        return H

    def deriv(self, k, n, absolute=False, radius=0.0):
        """n-th derivative tensor, shape (nw,nw)+(3,)*n.  absolute: entrywise upper bound over the cube |dk|<=radius"""
        k = np.array(k, dtype=float)
        kk = np.abs(k) + radius if absolute else k
        out = np.zeros((self.nw, self.nw) + (3,) * n, dtype=float if absolute else complex)
        for idx in itertools.product(range(3), repeat=n):
            cnt = [idx.count(0), idx.count(1), idx.count(2)]
            if tuple(sorted(idx)) != idx:
                continue
            val = np.zeros((self.nw, self.nw), dtype=out.dtype)
            for t, s in zip(self.terms, self.sig):
                if t[0] == "p":
                    p = t[1]
                    if any(cnt[i] > p[i] for i in range(3)):
                        continue
                    f = t[3]
                    for i in range(3):
                        f *= _falling(p[i], cnt[i]) * kk[i] ** (p[i] - cnt[i])
                    val += (abs(f) * np.abs(s)) if absolute else f * s
                else:
                    q = t[1]
                    f = t[4] * q[0] ** cnt[0] * q[1] ** cnt[1] * q[2] ** cnt[2]
                    if absolute:
                        val += abs(f) * np.abs(s)
                    else:
                        val += f * np.cos(np.dot(q, k) + t[2] + n * np.pi / 2) * s
            for perm in set(itertools.permutations(idx)):
                out[(slice(None), slice(None)) + perm] = val
        return out

    def sup(self, k, n, radius):
        return float(self.deriv(k, n, absolute=True, radius=radius).max())


def to_cart(T, J, n):
    """contract the n derivative indices (kappa) with J[a,i] = d kappa_i / d k_cart_a"""
    for ax in range(n):
        T = np.moveaxis(np.tensordot(T, J, axes=([2 + ax], [1])), -1, 2 + ax)
    return T


# ----------------------------------------------------------------------------------------------
def build_system(case, nsupplied, model=None):
    from wannierberri.system import SystemKP
    nw, terms = terms_of(case)
    model = model or Model(nw, terms)
    lat = {k: (np.array(v, dtype=float) if isinstance(v, list) else v) for k, v in LATTICES[case["lat"]].items()}
    cart = case["coords"] == "cart"
    # recip lattice known to the harness (for J) — computed here independently of the system
    if lat.get("kmax") is not None:
        recip = np.eye(3) * 2 * lat["kmax"]
    elif "recip_lattice" in lat:
        recip = lat["recip_lattice"]
    else:
        recip = 2 * np.pi * np.linalg.inv(lat["real_lattice"]).T
    J = np.eye(3) if cart else np.linalg.inv(recip)

    def mk(n):
        return lambda k: to_cart(model.deriv(k, n), J, n)
    kw = {}
    for n, name in ((1, "derHam"), (2, "der2Ham"), (3, "der3Ham")):
        if n <= nsupplied:
            kw[name] = mk(n)
    system = SystemKP(Ham=model.ham, k_vector_cartesian=cart, finite_diff_dk=case["dk"], silent=True, **lat, **kw)
    return system, model, recip, J


class Bounds:
    """explicit finite-difference error bounds for the B1 scheme of `system` (shells checked separately)"""

    def __init__(self, system, model, recip, J, cart, kred):
        w = np.abs(system.wk)
        bc = np.abs(system.bk_cart)
        beta = np.abs(system.bk_cart if cart else system.bk_red).sum(axis=1)     # |b|_1 in Ham coordinates
        self.nb = len(w)
        self.S1 = float((w[:, None] * bc * beta[:, None] ** 3).sum(axis=0).max() / 6)
        self.W1 = float((w[:, None] * bc).sum(axis=0).max())
        self.W2 = float((w[:, None] * bc * beta[:, None]).sum(axis=0).max())
        self.Jn = float(np.abs(J).sum(axis=1).max())
        kwrap = (np.array(kred) + 0.5) % 1 - 0.5
        self.kappa = kwrap @ recip if cart else kwrap
        self.radius = 3.0 * float(np.abs(system.bk_cart if cart else system.bk_red).max()) * 1.001
        self.M = [model.sup(self.kappa, n, self.radius) for n in range(7)]
        self.kabs = float(np.abs(self.kappa).max()) + self.radius
        self.cterm = 4.0 * (model.nterms + model.degree + 4)
        self.B1 = float(np.abs(np.einsum("b,ba,bc->ac", system.wk, system.bk_cart, system.bk_cart) - np.eye(3)).max())

    def G(self, n):          # sup of the n-th cartesian derivative entries
        return self.Jn ** n * self.M[n]

    def trunc(self, L, m):
        coef = {1: 1.0, 2: self.Jn + self.W2, 3: self.Jn ** 2 + self.Jn * self.W2 + self.W2 ** 2}[L]
        return 2.0 * coef * self.S1 * self.Jn ** m * self.M[m + L + 2]

    def round(self, L, m):
        # error of one evaluation of the base function (value round-off + argument round-off)
        err = self.cterm * EPS * (self.G(m) + 3 * max(1.0, self.kabs) * self.Jn ** m * self.M[m + 1])
        for j in range(L):
            err = self.W1 * err + (self.nb + 4) * EPS * self.W1 * self.G(m + j)
        return 4.0 * err

    def tol(self, L, m):
        n = m + L
        return self.trunc(L, m) + self.round(L, m) + 3 * self.B1 * L * self.G(n) + 1e-14 * max(self.G(n), 1e-300)


def check_shells(system, case, recip):
    wk, br, bc = system.wk, system.bk_red, system.bk_cart
    dk = case["dk"]
    scale = float(np.abs(bc).max())
    if differs_abs(bc, br @ recip, 1e-12 * scale):
        return "bk_cart_vs_bk_red"
    bi = br / dk
    if np.abs(bi - np.round(bi)).max() > 1e-9 or np.abs(bi).max() > 6.5:
        return "bk_red_not_integer_times_dk"
    B = np.einsum("b,ba,bc->ac", wk, bc, bc)
    if np.abs(B - np.eye(3)).max() > 1e-9:
        return "B1"
    if np.abs((wk[:, None] * bc).sum(axis=0)).max() > 1e-9 * (np.abs(wk[:, None] * bc).sum(axis=0).max()):
        return "sum_w_b_nonzero"
    # +-b symmetry with equal weights (makes the scheme second order)
    for w, b in zip(wk, np.round(bi).astype(int)):
        partner = [w2 for w2, b2 in zip(wk, np.round(bi).astype(int)) if tuple(b2) == tuple(-b)]
        if len(partner) != 1 or abs(partner[0] - w) > 1e-9 * abs(w):
            return "pm_b_symmetry"
    return None


def differs_abs(a, b, tol):
    a, b = np.asarray(a), np.asarray(b)
    return a.shape != b.shape or bool(np.abs(a - b).max() > tol)


def run_derivatives(case, with_tab):
    nw, terms = terms_of(case)
    cart = case["coords"] == "cart"
    nontrivial = set()
    worst = 0.0
    systems = {}
    model = None
    for m in (0, 1, 2, 3):
        if m == 3 and not with_tab:
            continue
        try:
            systems[m], model, recip, J = build_system(case, m, model)
        except Exception as e:
            import traceback
            where = ":find_shells" if "find_shells" in traceback.format_exc() else ""
            return {"ok": False, "key": f"SystemKP:raises:{type(e).__name__}{where}", "nontrivial": True,
                    "detail": f"{case} with {m} analytic derivatives: SystemKP(...) raises {type(e).__name__}: {e}"
                              + (" (no finite-difference shells found for recip_lattice*finite_diff_dk)" if where else "")}
    why = check_shells(systems[0], case, recip)
    if why:
        s = systems[0]
        return {"ok": False, "key": f"find_shells:{why}", "nontrivial": True,
                "detail": f"{case}: wk={s.wk.tolist()} bk_red={s.bk_red.tolist()}"}
    for kname, kred in K_ALPHABET:
        kred = np.array(kred)
        bnd = Bounds(systems[0], model, recip, J, cart, kred)
        exact = {n: to_cart(model.deriv(bnd.kappa, n), J, n) for n in (1, 2, 3)}
        for m, system in systems.items():
            funs = {1: system.derHam, 2: system.der2Ham, 3: system.der3Ham}
            got = {}
            for n in (1, 2, 3):
                X = np.array(funs[n](kred))
                got[n] = X
                L = n - m
                if L <= 0:
                    tol = 1e-12 * max(bnd.G(n), 1e-300) + 8 * bnd.cterm * EPS * max(1.0, bnd.kabs) * bnd.Jn ** n * bnd.M[n + 1]
                    what = "supplied_passthrough"
                else:
                    tol = bnd.tol(L, m)
                    what = f"numeric_vs_analytic:levels={L}"
                err = float(np.abs(X - exact[n]).max())
                if L > 0:
                    if np.abs(exact[n]).max() > 0 or np.abs(X).max() > 0:
                        nontrivial.add((n, L))
                    worst = max(worst, err / tol)
                if not err <= tol:
                    return {"ok": False, "key": f"der{n}Ham:{what}", "nontrivial": True,
                            "detail": f"{case} analytic_supplied={m} k_red={kred.tolist()} ({kname}): max|der{n}Ham - analytic|="
                                      f"{err:.3e} > bound {tol:.3e} (truncation {bnd.trunc(L, m) if L > 0 else 0:.2e}, round-off "
                                      f"{bnd.round(L, m) if L > 0 else 0:.2e}); analytic max {np.abs(exact[n]).max():.3e}"}
                herm = float(np.abs(X - np.conj(np.swapaxes(X, 0, 1))).max())
                if not herm <= max(tol, 1e-300) * (1.0 if L > 0 else 1.0):
                    return {"ok": False, "key": f"der{n}Ham:not_hermitian", "nontrivial": True,
                            "detail": f"{case} analytic_supplied={m} k_red={kred.tolist()}: |X-X^dagger|={herm:.3e} > {tol:.3e}"}
            # cartesian wrappers agree with the reduced ones
            kc = kred @ recip
            for n, f in ((0, system.Ham_cart), (1, system.derHam_cart), (2, system.der2Ham_cart), (3, system.der3Ham_cart)):
                Y = np.array(f(kc))
                ref = got[n] if n else np.array(system.Ham(kred))
                L = max(n - m, 0)
                # k_cart -> k_red round trip perturbs k by ~eps: allow the same finite-difference round-off
                tol = (bnd.tol(L, min(m, n)) if L else 1e-12 * max(bnd.G(n), 1e-300)
                       + 16 * bnd.cterm * EPS * max(1.0, bnd.kabs) * bnd.Jn ** n * bnd.M[n + 1])
                if differs_abs(Y, ref, tol):
                    return {"ok": False, "key": f"cart_wrapper:der{n}", "nontrivial": True,
                            "detail": f"{case} analytic_supplied={m} k_red={kred.tolist()}: *_cart(k.recip) differs from reduced "
                                      f"call by {np.abs(Y - ref).max():.3e} > {tol:.3e}"}
        if with_tab:
            res = compare_tabulated(case, systems, model, bnd, kred, kname)
            if res is not None:
                return res
    return {"ok": True, "nontrivial": bool(nontrivial),
            "obs": {"worst_error_over_bound": round(worst, 4), "numeric_derivatives_nonzero": sorted(nontrivial)}}


def compare_tabulated(case, systems, model, bnd, kred, kname):
    import wannierberri as wb
    from wannierberri.calculators import tabulate
    nw = model.nw
    E = np.linalg.eigvalsh(model.ham(bnd.kappa))
    gaps = np.diff(E)
    ambiguous = bool(np.any((gaps > 1e-6) & (gaps < 1e-2)))
    big = gaps[gaps >= 1e-2]
    gap = float(big.min()) if len(big) else np.inf
    calcs = {"E": tabulate.Energy(print_comment=False), "V": tabulate.Velocity(print_comment=False),
             "M": tabulate.InvMass(print_comment=False), "D3": tabulate.Der3E(print_comment=False)}
    out = {m: wb.evaluate_k(s, k=np.array(kred, dtype=float), calculators=calcs) for m, s in systems.items()}
    ref = {q: np.array(out[3][q].data[0]) for q in calcs}
    if differs_abs(np.sort(ref["E"]), E, 1e-12 * max(1.0, np.abs(E).max())):
        return {"ok": False, "key": "tabulate:Energy:vs_Ham", "nontrivial": True,
                "detail": f"{case} k_red={kred.tolist()}: {ref['E'].tolist()} vs eigvalsh(Ham) {E.tolist()}"}
    Vs = nw * bnd.G(1)
    Ms = nw * bnd.G(2)
    for m in (0, 1, 2):
        t = {n: (bnd.tol(n - m, m) if n > m else 1e-12 * max(bnd.G(n), 1e-300)) for n in (1, 2, 3)}
        ig = 0.0 if np.isinf(gap) else 1.0 / gap
        tolq = {"E": 1e-12 * max(1.0, np.abs(E).max()),
                "V": nw * t[1],
                "M": nw * t[2] + 4 * nw ** 2 * Vs * t[1] * ig,
                "D3": 20 * nw ** 3 * (t[3] + (Vs * t[2] + Ms * t[1]) * ig + Vs ** 2 * t[1] * ig ** 2)}
        for q in calcs:
            if ambiguous and q in ("M", "D3"):
                continue
            got = np.array(out[m][q].data[0])
            scale = max(np.abs(ref[q]).max(), 1e-300)
            tol = tolq[q] + 1e-11 * scale
            if differs_abs(got, ref[q], tol):
                return {"ok": False, "key": f"tabulate:{q}:numeric_vs_analytic", "nontrivial": True,
                        "detail": f"{case} analytic_supplied={m} k_red={kred.tolist()} ({kname}): |{q}(numeric)-{q}(analytic)|="
                                  f"{np.abs(got - ref[q]).max():.3e} > {tol:.3e} (gap {gap:.3g}, value scale {scale:.3e})"}
    return None


# ----------------------------------------------------------------------------------------------
def run_run(case):
    import wannierberri as wb
    from wannierberri.calculators import static
    from wannierberri import factors
    cart = case["coords"] == "cart"
    systems = {}
    model = None
    for m in sorted({case["nsup"], 3}):
        systems[m], model, recip, J = build_system(case, m, model)
    nw = model.nw
    NK, NKFFT = case["NK"], case["NKFFT"]
    # energies on the grid (harness side) -> Efermi alphabet and gaps
    pts = np.array(list(itertools.product(*[np.arange(NK) / NK] * 3)))
    kap = [(((p + 0.5) % 1 - 0.5) @ recip if cart else ((p + 0.5) % 1 - 0.5)) for p in pts]
    Eall = np.array([np.linalg.eigvalsh(model.ham(k)) for k in kap])
    Ef = np.linspace(Eall.min() - 0.05, Eall.max() + 0.05, 9)
    gaps = np.diff(Eall, axis=1)
    gap = float(gaps.min()) if nw > 1 else np.inf
    # global bounds: sup over the whole box
    bnd = Bounds(systems[3], model, recip, J, cart, np.zeros(3))
    half = np.abs(np.array(kap)).max(axis=0)
    bnd.radius = float(half.max()) + bnd.radius
    bnd.M = [model.sup(np.zeros(3), n, bnd.radius) for n in range(7)]
    bnd.kabs = bnd.radius
    m = case["nsup"]
    t1 = bnd.tol(1 - m, m) if m < 1 else 1e-12 * bnd.G(1)
    t2 = bnd.tol(2 - m, m) if m < 2 else 1e-12 * bnd.G(2)
    ig = 0.0 if np.isinf(gap) else 1.0 / max(gap, 1e-12)
    Vs = nw * bnd.G(1)
    dV = nw * t1
    dM = nw * t2 + 4 * nw ** 2 * Vs * t1 * ig
    dVV = 2 * Vs * dV + dV ** 2
    res = {}
    for mm, s in systems.items():
        kw = dict(Efermi=Ef, tetra=case["tetra"], save_mode="")
        cal = {"cumdos": static.CumDOS(**kw), "dos": static.DOS(**kw),
               "sea": static.Ohmic_FermiSea(**kw), "surf": static.Ohmic_FermiSurf(**kw)}
        grid = wb.Grid(s, NK=NK, NKFFT=NKFFT)
        r = wb.run(s, grid, cal, parallel=False, adpt_num_iter=0, restart=False, print_Kpoints=False,
                   dump_results=False, use_irred_kpt=False, symmetrize=False)
        res[mm] = {k: np.array(v.data) for k, v in r.results.items()}
    a, b = res[m], res[3]
    vol = systems[3].cell_volume
    for q in ("cumdos", "dos"):
        if differs_abs(a[q], b[q], 1e-12 * max(1.0, np.abs(b[q]).max())):
            return {"ok": False, "key": f"run:{q}:depends_on_derivatives", "nontrivial": True,
                    "detail": f"{case}: {q} differs by {np.abs(a[q] - b[q]).max():.3e}"}
    fo = abs(factors.factor_ohmic)
    tol_sea = fo * dM * np.abs(b["cumdos"]) / vol
    tol_surf = fo * dVV * np.abs(b["dos"]) / vol
    for q, tol in (("sea", tol_sea), ("surf", tol_surf)):
        scale = max(np.abs(b[q]).max(), 1e-300)
        d = np.abs(a[q] - b[q]).reshape(len(Ef), -1).max(axis=1)
        bad = d > 1.5 * tol + 1e-11 * scale
        if np.any(bad):
            i = int(np.argmax(bad))
            return {"ok": False, "key": f"run:Ohmic_{q}:numeric_vs_analytic", "nontrivial": True,
                    "detail": f"{case}: Efermi={Ef[i]:.4f}: |numeric-analytic|={d[i]:.3e} > {1.5 * tol[i]:.3e} "
                              f"(value scale {scale:.3e}, min gap {gap:.3g})"}
    moved = bool(np.abs(b["sea"]).max() > 0 or np.abs(b["surf"]).max() > 0)
    return {"ok": True, "nontrivial": moved,
            "obs": {"rel_diff_sea": float(np.abs(a["sea"] - b["sea"]).max() / max(np.abs(b["sea"]).max(), 1e-300)),
                    "rel_diff_surf": float(np.abs(a["surf"] - b["surf"]).max() / max(np.abs(b["surf"]).max(), 1e-300))}}


# ----------------------------------------------------------------------------------------------
def setup(tier, seed):
    # JIT warm-up (tetrahedron weights) in the parent, so that forked workers do not each compile
    run_run({"kind": "run", "ham": ("model", "mass_iso"), "lat": "cubic1", "coords": "cart", "dk": 1e-3,
             "nsup": 0, "tetra": True, "NK": 3, "NKFFT": 1})


def cases(tier, seed):
    quick = tier == "quick"
    mats = ("s", "y") if quick else ("s", "x", "y", "z")
    dks = (1e-3, 1e-4) if quick else (1e-3, 1e-4, 1e-2)
    lats = ("cubic1", "cubic2", "tet", "hex") if quick else ("cubic1", "cubic2", "tet", "hex", "tric", "tet14", "bcc", "tric_neg")
    monos = sorted([p for p in itertools.product(range(5), repeat=3) if sum(p) <= 4], key=lambda p: (sum(p), p))
    for p in monos:
        for mat in mats:
            for lat in lats:
                for coords in ("cart", "red"):
                    for dk in dks:
                        yield {"kind": "der", "ham": ["mono", list(p), mat], "lat": lat, "coords": coords, "dk": dk}
    for name in MODELS:
        # the triclinic and the 'other shell structure' lattices are in quick for the composite models
        for lat in ((lats + ("tric", "tet14", "bcc", "tric_neg")) if quick else lats):
            for coords in ("cart", "red"):
                for dk in dks:
                    yield {"kind": "tab", "ham": ["model", name], "lat": lat, "coords": coords, "dk": dk}
    for name in RUN_MODELS:
        for lat in (("cubic1", "hex") if quick else ("cubic1", "tet", "hex")):
            for coords in ("cart", "red"):
                for nsup in (0, 1, 2):
                    for tetra in (False, True):
                        # odd grids only: an even grid puts k-points on the box boundary, where SystemKP wraps k
                        for NK, NKFFT in (((3, 1),) if quick else ((3, 1), (5, 1), (3, 3))):
                            yield {"kind": "run", "ham": ["model", name], "lat": lat, "coords": coords, "dk": 1e-3,
                                   "nsup": nsup, "tetra": tetra, "NK": NK, "NKFFT": NKFFT}


def run_case(case, seed):
    if case["kind"] == "der":
        return run_derivatives(case, with_tab=False)
    if case["kind"] == "tab":
        return run_derivatives(case, with_tab=True)
    return run_run(case)


def finish(tier, cases, results):
    worst = max([r.get("obs", {}).get("worst_error_over_bound", 0) for r in results if r.get("obs")] + [0])
    kinds = {}
    for c in cases:
        kinds[c["kind"]] = kinds.get(c["kind"], 0) + 1
    return {"cases_per_kind": kinds, "worst_error_over_bound": worst, "k_alphabet": [k for k, _ in K_ALPHABET],
            "monomials": 35, "models": list(MODELS)}
