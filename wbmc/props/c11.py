"""C11 — restarting an interrupted refinement run reproduces the uninterrupted run.

Fault enumeration on the real run(): for a steered refinement of N iterations, EVERY stopping point
s in [0,N), EVERY composition of the remaining N-s iterations into restart segments, both storage
modes, and EVERY order in which the directory listing can return the factors_iter-*.npy files at
every restart (the listing seen by run_grid.glob is a choice point of the schedule explorer) is
executed; every result saved or returned after a restart must equal the uninterrupted run's result
of the same global iteration.
"""
import glob as _glob
import itertools
import os

import numpy as np

from wbmc import refine, sched
from wbmc.runharness import tmpdir
from wbmc.props import c10

ID = "C11"
LEVEL = "fault_enumeration"
RULE = ("case = (configuration, steering history, storage mode, stop s, composition of N-s); under each case the explorer "
        "enumerates every permutation of the factors_iter-* listing at every restart (n! for n files); each execution is a "
        "chain of real run() calls in one directory; oracle: every saved/returned result after a restart equals the "
        "uninterrupted run's result for the same global iteration (1e-10 relative); non-trivial = execution in which some "
        "restart saw a listing that is not in ascending order (distinct (case, listing orders) are counted)")
ASSUMPTIONS = ["N <= 3 (quick) / 4 (thorough) iterations; restarts happen at iteration boundaries (as in the statement); the quick tier adds the bcc "
               "configuration (run-level merges of sub-cells of different parents) with N=4 and the sorted listing only",
               "refinement is steered (no two K-points share a value of the criterion) except in the 'ties' configurations, where every K-point "
               "reports the same criterion and run() itself breaks the ties (>16 K-points, so that numpy's sort is not an insertion sort)",
               "restart_iteration=-1 (default) for the chains; explicit restart_iteration=k (every k < N, every length) after a finished run; the same calculators and grid are passed to every segment",
               "the directory listing is modelled as an arbitrary permutation of the existing files (glob.glob makes no order promise); "
               "file modification times are either untouched or follow the listing order (a copy/restore that does not preserve times)"]

TOL = 1e-10


def compositions(n):
    if n == 0:
        yield ()
        return
    for first in range(1, n + 1):
        for rest in compositions(n - first):
            yield (first,) + rest


def configs(tier):
    out = []
    base = [("chain", (2, 1, 1), 2, False, 1), ("planar", (2, 2, 1), 2, False, 1), ("cubic", (2, 2, 2), 2, True, 1),
            ("chain", (3, 1, 1), 3, False, 2)]
    if tier == "thorough":
        base += [("hexC3", (3, 3, 1), 2, True, 1), ("cubic", (2, 2, 2), 2, False, 2), ("bcc", (2, 2, 2), 2, True, 1)]
    Ns = (2, 3) if tier == "quick" else (2, 3, 4)
    if tier == "quick":
        base += [("bcc", (2, 2, 2), 2, True, 1)]   # sub-cells of different parents merge at run level (N=4, pick first only)
    for kind, div, mesh, sym, fac in base:
        for N in Ns:
            if tier == "quick" and kind == "bcc":
                if N == 3:
                    out.append({"sys": kind, "div": list(div), "mesh": mesh, "fac": fac, "irred": sym, "rank": 0, "N": 4, "pick": "first",
                                "listing_bound": 0})      # sorted listing only: the orders are explored on the other configurations
                continue
            for pick in ("first", "last"):
                out.append({"sys": kind, "div": list(div), "mesh": mesh, "fac": fac, "irred": sym, "rank": 0, "N": N, "pick": pick})
    # tied refinement criteria (what symmetric k-points of a real calculator give): every K-point reports the same
    # criterion, so that run()'s own tie-breaking decides; >16 K-points (numpy sorts shorter arrays by insertion)
    for kind, div, mesh, sym, fac in [("planar", (5, 4, 1), 2, False, 1)] + ([("cubic", (3, 3, 2), 2, True, 2)] if tier == "thorough" else []):
        out.append({"sys": kind, "div": list(div), "mesh": mesh, "fac": fac, "irred": sym, "rank": 0, "N": 3, "pick": "ties", "ties": True})
    return out


def steering_history(cfg, seed):
    """a deterministic history of depth N: at each iteration refine the first / last `fac` live points"""
    hist = []
    if cfg.get("ties"):
        return hist         # nothing is steered: every K-point reports the same criterion, run() breaks the ties itself
    for it in range(cfg["N"]):
        fail, snaps = None, None
        with tmpdir("wbmc_c11h_") as d:
            snaps, saved, returned, system = c10.run_history(cfg, seed, hist, "memory", d)
        live = [k for k, f, ev in snaps[-1][1] if f > 0]
        chosen = live[:cfg["fac"]] if cfg["pick"] == "first" else live[-cfg["fac"]:]
        hist.append(chosen)
    return hist


class GlobSeam:
    """stands in for the `glob` module inside wannierberri.run_grid: the listing order is a choice point"""

    def __init__(self, chooser, root=None):
        self.chooser = chooser
        self.orders = []
        self.root = os.path.abspath(root) if root else None

    def _permute(self, files, what):
        n = len(files)
        if n <= 4:
            perms = list(itertools.permutations(range(n)))
        else:       # a whole-directory listing (only reached if run() is refactored to list the directory itself)
            perms = [tuple(range(n)), tuple(reversed(range(n)))] + [tuple(np.roll(np.arange(n), -r)) for r in (1, n // 2)]
        costs = [sum(1 for i, p in enumerate(perm) if p != i) for perm in perms]   # 0 for the sorted order
        c = self.chooser.choose(len(perms), costs=costs, label=f"{what}({n} files)")
        self.orders.append([int(i) for i in perms[c]])
        return [files[i] for i in perms[c]]

    def glob(self, pattern, *a, **kw):
        files = sorted(_glob.glob(pattern, *a, **kw))
        n = len(files)
        listed = self._permute(files, "listing")
        # second environment answer: has the directory been copied / restored without preserving times?  Then the
        # modification times follow the order in which the copy created the files (= the listing order), not the
        # order in which run() wrote them.  (default: times untouched)
        if n > 1:
            t = self.chooser.choose(2, costs=[0, 1], label="mtimes(untouched|follow listing)")
            if t == 1:
                base = os.path.getmtime(files[0])
                for pos, f in enumerate(listed):
                    os.utime(f, (base + 10.0 * pos, base + 10.0 * pos))
                self.orders[-1] = self.orders[-1] + ["mtimes_follow_listing"]
        return listed

    def iglob(self, pattern, *a, **kw):
        return iter(self.glob(pattern, *a, **kw))

    def __getattr__(self, name):
        return getattr(_glob, name)


def run_segment(cfg, seed, hist, mode, d, adpt_num_iter, restart, chooser=None, restart_iteration=-1):
    import wannierberri as wb
    from wannierberri import run_grid
    system = c10.get_system(cfg["sys"], seed)
    grid = wb.Grid(system, NKdiv=cfg["div"], NKFFT=1)
    calc = refine.SteerCalc(prio_table=refine.prio_table(hist), salt=seed, rank=cfg["rank"],
                            default_prio=1.0 if cfg.get("ties") else 0.0)
    kw = dict(adpt_num_iter=adpt_num_iter, adpt_mesh=cfg["mesh"], adpt_fac=cfg["fac"], use_irred_kpt=cfg["irred"],
              symmetrize=cfg["irred"], parallel=False, fout_name=os.path.join(d, "res"),
              file_Klist_path=os.path.join(d, "klist"), restart=restart, restart_iteration=restart_iteration)
    kw["allow_restart" if mode == "allow_restart" else "dump_results"] = True
    seam = GlobSeam(chooser, root=os.path.join(d, "klist")) if chooser is not None else None
    saved_attrs = {}
    if seam is not None:
        # run_grid's own binding of the listing function: the module `glob` (current code) or a function imported from it
        for name in ("glob", "iglob"):
            cur = getattr(run_grid, name, None)
            if cur is _glob:
                saved_attrs[name] = cur
                setattr(run_grid, name, seam)
            elif callable(cur):
                saved_attrs[name] = cur
                setattr(run_grid, name, getattr(seam, name))
    del refine.SNAPSHOTS[:]
    try:
        res = wb.run(system, grid, {"scr": calc}, **kw)
    finally:
        for name, cur in saved_attrs.items():
            setattr(run_grid, name, cur)
    LAST_SNAPSHOTS[:] = list(refine.SNAPSHOTS)
    return np.array(res.results["scr"].data), (seam.orders if seam else [])


LAST_SNAPSHOTS = []


def snapshots_consistent(cfg, seed):
    """C10's oracle on the snapshots of the last segment: integral == sum_K factor_K * R(K) over run()'s live K-list"""
    system = c10.get_system(cfg["sys"], seed)
    for it, snap, data in LAST_SNAPSHOTS:
        if snap is None:
            continue
        exp, scale = c10.expected(cfg, seed, snap, system)
        err = np.abs(data - exp).max() / scale
        if not err <= 1e-10:
            return ("integral_inconsistent_with_K_list", f"iteration {it}: integral {np.ravel(data)} != sum_K factor*R(K) {np.ravel(exp)} "
                                                        f"(rel {err:.3g}, weights sum {sum(f for _, f, _ in snap)!r})")
    return None


_REF = {}


def reference(cfg, seed, mode):
    from wbmc.engine import canon
    k = canon(cfg) + mode + str(seed)
    if k not in _REF:
        hist = steering_history(cfg, seed)
        with tmpdir("wbmc_c11r_") as d:
            returned, _ = run_segment(cfg, seed, hist, mode, d, cfg["N"], restart=False)
            saved = refine.load_saved(d)
        _REF[k] = (hist, saved, returned)
    return _REF[k]


def cases(tier, seed):
    for cfg in configs(tier):
        for mode in ("allow_restart", "dump_results"):
            for s in range(cfg["N"]):
                for comp in compositions(cfg["N"] - s):
                    yield {"cfg": cfg, "mode": mode, "stop": s, "comp": list(comp)}
            # restart from an intermediate iteration k of a finished N-iteration run (restart_iteration=k)
            for k in range(cfg["N"]):
                for m in range(1, cfg["N"] - k + 1):
                    yield {"cfg": cfg, "mode": mode, "intermediate": k, "m": m}


def execute_intermediate(case, seed):
    cfg, mode, k, m = case["cfg"], case["mode"], case["intermediate"], case["m"]
    hist, ref_saved, ref_returned = reference(cfg, seed, mode)
    with tmpdir("wbmc_c11i_") as d:
        run_segment(cfg, seed, hist, mode, d, cfg["N"], restart=False)
        try:
            returned, _ = run_segment(cfg, seed, hist, mode, d, m, restart=True, restart_iteration=k)
        except Exception as e:
            return ("restart_raises:" + type(e).__name__, f"restart_iteration={k} raised {type(e).__name__}: {e}"), []
        saved = refine.load_saved(d)
    bad = snapshots_consistent(cfg, seed)
    if bad:
        return bad, []
    for it in range(k + 1, k + m + 1):
        sc = max(np.abs(ref_saved[it]).max(), 1e-300)
        err = np.abs(saved[it] - ref_saved[it]).max() / sc if it in saved else np.inf
        if not err <= TOL:
            return ("saved_result_differs", f"iteration {it} after restart_iteration={k}: {np.ravel(saved.get(it))} vs uninterrupted {np.ravel(ref_saved[it])} (rel {err:.3g})"), []
    sc = max(np.abs(ref_saved[k + m]).max(), 1e-300)
    err = np.abs(returned - ref_saved[k + m]).max() / sc
    if not err <= TOL:
        return ("returned_result_differs", f"returned after restart_iteration={k}, {m} iterations: {np.ravel(returned)} vs uninterrupted iteration {k + m} {np.ravel(ref_saved[k + m])} (rel {err:.3g})"), []
    return None, []


def execute(case, seed, chooser):
    if "intermediate" in case:
        return execute_intermediate(case, seed)
    cfg, mode, s, comp = case["cfg"], case["mode"], case["stop"], case["comp"]
    hist, ref_saved, ref_returned = reference(cfg, seed, mode)
    orders = []
    with tmpdir("wbmc_c11_") as d:
        run_segment(cfg, seed, hist, mode, d, s, restart=False)
        returned = None
        bad = None
        for m in comp:
            seam_orders = []
            try:
                returned, o = run_segment(cfg, seed, hist, mode, d, m, restart=True, chooser=chooser)
                orders += o
                bad = bad or snapshots_consistent(cfg, seed)
            except sched.Divergence:
                raise
            except Exception as e:     # a restart that crashes is an observation
                bad = ("restart_raises:" + type(e).__name__, f"restart raised {type(e).__name__}: {e}")
                # the listing order that led here is the last one the chooser took
                orders.append([t[3] for t in chooser.trace][-1:] + [chooser.choices[-1:]])
                break
        saved = refine.load_saved(d)
    if bad is not None:
        return bad, orders
    for it in range(cfg["N"] + 1):
        if it not in saved:
            bad = (f"missing_saved_iteration", f"iteration {it} was not saved (have {sorted(saved)})")
            break
        sc = max(np.abs(ref_saved[it]).max(), 1e-300)
        err = np.abs(saved[it] - ref_saved[it]).max() / sc
        if not err <= TOL:
            bad = ("saved_result_differs", f"iteration {it}: restarted {np.ravel(saved[it])} vs uninterrupted {np.ravel(ref_saved[it])} (rel {err:.3g})")
            break
    if bad is None:
        sc = max(np.abs(ref_returned).max(), 1e-300)
        err = np.abs(returned - ref_returned).max() / sc
        if not err <= TOL:
            bad = ("returned_result_differs", f"returned {np.ravel(returned)} vs uninterrupted {np.ravel(ref_returned)} (rel {err:.3g})")
    return bad, orders


def run_case(case, seed):
    nontrivial = []
    first_bad = None
    nexec = 0
    if "schedule" in case:
        ch = sched.Chooser(case["schedule"])
        gen = [(case["schedule"], 0, execute(case, seed, ch), None)]
    else:
        gen = sched.explore(lambda ch: execute(case, seed, ch), bound=case["cfg"].get("listing_bound"))
    for choices, cost, (bad, orders), trace in gen:
        nexec += 1
        unsorted = any(c != 0 for c in choices)
        if "intermediate" in case:
            unsorted = False
            nontrivial.append(repr((case["cfg"]["sys"], case["cfg"]["N"], case["cfg"]["pick"], case["mode"], "restart_iteration", case["intermediate"], case["m"])))
        elif unsorted:
            nontrivial.append(repr((case["cfg"]["sys"], case["cfg"]["N"], case["cfg"]["pick"], case["mode"], case["stop"], tuple(case["comp"]), orders)))
        if bad and first_bad is None:
            try:
                exc_key = bad[0]
            except Exception:
                exc_key = "unknown"
            where = (f"restart_iteration={case['intermediate']} for {case['m']} iterations after a finished run of {case['cfg']['N']}"
                     if "intermediate" in case else f"stop after {case['stop']} then segments {case['comp']}, listing orders at the restarts {orders}")
            kind = "intermediate_restart" if "intermediate" in case else ("listing_order" if unsorted else "sorted_listing")
            first_bad = {"ok": False, "key": f"restart:{exc_key}:{kind}",
                         "detail": f"cfg={case['cfg']} mode={case['mode']} {where}: {bad[1]}",
                         "replay_case": dict(case, schedule=list(choices))}
    res = first_bad or {"ok": True}
    res.update({"nontrivial": nontrivial, "obs": {"executions": nexec}, "outcome": "ok" if first_bad is None else first_bad["key"]})
    return res


def finish(tier, cases, results):
    return {"executions_total": int(sum(r.get("obs", {}).get("executions", 0) for r in results))}
