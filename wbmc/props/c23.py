"""C23 — Monkhorst-Pack mesh detection recovers the mesh.

Seam: `wannierberri.w90files.utility.get_mp_grid(kpoints)` and `grid_from_kpoints(kpoints, grid=None | mesh)`.

Exhaustive product  mesh alphabet x part, where the parts are
  orderings : every ordering of the ordering alphabet (identity, reversal, cyclic rotations, adjacent
              transpositions) of the exact points i/n  ->  all three calls
  variants  : coordinates +1e-9 / -1e-9 / + one integer vector / + a different integer vector per point, on the
              identity and the reversed list  ->  all three calls
  defects   : (coordinates in [0,1)) one point removed / along one axis all points removed whose coordinate is in
              lowest terms / one point duplicated (copy placed next to the original, at
              the end, at the beginning) / one point replaced by an off-mesh point / an off-mesh point added /
              a finer mesh (2x, 3x) given together with the coarse `grid`  ->  selection calls
Reference: the integer coordinates of every list entry are known by construction, so the expected dimensions, the
expected set of selected points and the expected rejection are computed exactly (integers / Fractions).
"""
import itertools
import warnings
from fractions import Fraction
from math import gcd

import numpy as np

ID = "C23"
LEVEL = "exploration"
RULE = ("cases = (mesh, part in {orderings, variants, defects}); a case runs every list of its part through "
        "get_mp_grid, grid_from_kpoints(k) and grid_from_kpoints(k, grid=mesh) and compares with the exact "
        "reference; non-trivial = mesh with more than one point (the (1,1,1) mesh is counted as trivial); "
        "'calls' in the evidence = number of judged calls of the real functions")
ASSUMPTIONS = [
    "mesh alphabet: every mesh with n_i in 1..6 (216), cubes 7,8,12 (thorough: also 16,20 and every mesh with n_i in 1..8), "
    "and the one-dimensional meshes (n,1,1),(1,n,1),(1,1,n) for every n up to the supported denominator 100 "
    "(exact coordinates only: the +-1e-9 perturbation is only applied up to n=20, since the accepted deviation of "
    "get_mp_grid shrinks as 5e-7/n)",
    "ordering alphabet is complete (all rotations and all adjacent transpositions) for meshes up to 36 points in the "
    "quick tier and up to 216 points in the thorough tier; larger meshes use identity, reversal, rotations by "
    "1, N/2, N-1 and transpositions at 0, N/2, N-2; the same rule limits the positions of the defect",
    "defective lists keep coordinates in [0,1) as in the statement (a duplicate shifted by a lattice vector is outside "
    "it); integer shifts are applied to complete meshes only",
    "off-mesh points are at least 0.007/n away from the mesh, far from the 1e-5 acceptance threshold of "
    "grid_from_kpoints; rejection of an incomplete mesh must be the documented ValueError",
    "get_mp_grid is judged on complete meshes only (its completeness assertion is commented out in the source and "
    "the statement asks for rejection only from the point selection)",
]


# ----------------------------------------------------------------------------------------------- alphabets

def mesh_alphabet(tier):
    """list of (mesh, klass)"""
    out = []
    for m in itertools.product(range(1, 7), repeat=3):
        out.append((m, "small"))
    cubes = (7, 8, 12) if tier == "quick" else (7, 8, 12, 16, 20)
    for n in cubes:
        out.append(((n, n, n), "cube"))
    if tier != "quick":
        for m in itertools.product(range(1, 9), repeat=3):
            if max(m) > 6:
                out.append((m, "upto8"))
    for n in range(7, 101):
        for ax in range(3):
            m = [1, 1, 1]
            m[ax] = n
            out.append((tuple(m), "line"))
    seen = set()
    res = []
    for m, k in out:
        if m not in seen:
            seen.add(m)
            res.append((m, k))
    return res


def cases(tier, seed):
    for m, klass in mesh_alphabet(tier):
        for part in ("orderings", "variants", "defects"):
            if klass == "line" and part == "variants" and max(m) > 20:
                part = "variants_shift_only"
            yield {"mesh": list(m), "klass": klass, "part": part, "tier": tier}


def full_limit(case):
    return 36 if case["tier"] == "quick" else 216


def positions(n, full):
    if n <= 0:
        return []
    if full:
        return list(range(n))
    return sorted({0, 1 % n, n // 2, n - 1})


def ordering_alphabet(N, full):
    ident = list(range(N))
    yield "id", ident
    if N == 1:
        return
    yield "rev", ident[::-1]
    rots = range(1, N) if full else sorted({1, N // 2, N - 1})
    for r in rots:
        yield f"rot{r}", ident[r:] + ident[:r]
    trs = range(N - 1) if full else sorted({0, N // 2, max(N - 2, 0)})
    for i in trs:
        if i + 1 < N:
            p = list(ident)
            p[i], p[i + 1] = p[i + 1], p[i]
            yield f"tr{i}", p


def mesh_points(mesh):
    return np.array(list(itertools.product(*(range(n) for n in mesh))), dtype=int)


# ----------------------------------------------------------------------------------------------- reference

def ref_detect(ints, mesh):
    """exact reference of 'the mesh that the list of points i/n defines': per axis lcm of the reduced denominators.
    returns (grid, complete)"""
    grid = []
    for ax in range(3):
        n = mesh[ax]
        den = 1
        for i in set(int(x) % n for x in ints[:, ax]):
            d = Fraction(i, n).denominator
            den = den * d // gcd(den, d)
        grid.append(den)
    pts = {tuple(int(x) % n for x, n in zip(row, mesh)) for row in ints}
    return tuple(grid), len(pts) == int(np.prod(grid))


class Fail(Exception):
    def __init__(self, key, detail):
        self.key, self.detail = key, detail


def call(f, *a, **k):
    """returns ('ok', value) or ('exc', exception)"""
    try:
        with warnings.catch_warnings():
            warnings.simplefilter("ignore")
            return "ok", f(*a, **k)
    except Exception as e:   # noqa
        return "exc", e


def as_tuple(g):
    return tuple(int(x) for x in g)


def short(k):
    k = np.asarray(k)
    if len(k) > 12:
        return f"{k[:6].tolist()} ... ({len(k)} points)"
    return f"{k.tolist()}"


class Judge:
    def __init__(self, mesh):
        from wannierberri.w90files.utility import get_mp_grid, grid_from_kpoints
        self.get_mp_grid = get_mp_grid
        self.grid_from_kpoints = grid_from_kpoints
        self.mesh = tuple(mesh)
        self.N = int(np.prod(mesh))
        self.calls = 0

    def detect(self, k, what, sfx=""):
        """both detection functions must return the mesh"""
        for name, f in (("get_mp_grid", self.get_mp_grid), ("grid_from_kpoints(grid=None)", self.grid_from_kpoints)):
            st, g = call(f, k.copy())
            self.calls += 1
            short_name = name.split("(")[0] + (":detect" if "None" in name else "")
            if st == "exc":
                raise Fail(f"{short_name}:raises_on_complete_mesh{sfx}",
                           f"{name} raised {type(g).__name__}: {str(g)[:150]} for mesh {self.mesh} {what}; kpoints={short(k)}")
            try:
                gt = as_tuple(g)
            except Exception:
                gt = None
            if gt != self.mesh:
                raise Fail(f"{short_name}:wrong_dimensions{sfx}",
                           f"{name} returned {g} for mesh {self.mesh} {what}; kpoints={short(k)}")

    def select(self, k, entry_pt, what, expect="all", sfx="", grid=None):
        """entry_pt[i] = tuple of mesh coordinates of list entry i (reduced into the mesh) or None if off the mesh.
        expect: 'all' -> every mesh point exactly once; 'reject' -> ValueError"""
        grid = self.mesh if grid is None else tuple(grid)
        ngrid = int(np.prod(grid))
        st, sel = call(self.grid_from_kpoints, k.copy(), grid=grid)
        self.calls += 1
        if expect == "reject":
            if st == "ok":
                raise Fail(f"selection:incomplete_mesh_accepted{sfx}",
                           f"grid_from_kpoints(grid={grid}) returned {str(sel)[:100]} for {what}; kpoints={short(k)}")
            if not isinstance(sel, ValueError):
                raise Fail(f"selection:incomplete_mesh_wrong_exception{sfx}",
                           f"{type(sel).__name__}: {str(sel)[:150]} for {what} grid={grid}")
            return
        if st == "exc":
            raise Fail(f"selection:complete_mesh_rejected{sfx}",
                       f"grid_from_kpoints(grid={grid}) raised {type(sel).__name__}: {str(sel)[:150]} for {what}; kpoints={short(k)}")
        try:
            sel = [int(i) for i in sel]
        except Exception:
            raise Fail(f"selection:not_a_list_of_indices{sfx}", f"{str(sel)[:100]} for {what}")
        if any(i < 0 or i >= len(k) for i in sel):
            raise Fail(f"selection:index_out_of_range{sfx}", f"{sel[:20]} for {what} grid={grid}")
        pts = [entry_pt[i] for i in sel]
        if any(p is None for p in pts):
            raise Fail(f"selection:off_mesh_point_selected{sfx}",
                       f"selected {sel[:30]} for {what} grid={grid}; kpoints={short(k)}")
        if len(set(sel)) != len(sel) or len(set(pts)) != len(pts) or len(pts) != ngrid:
            raise Fail(f"selection:not_each_point_exactly_once{sfx}",
                       f"{len(sel)} indices, {len(set(pts))} distinct mesh points, mesh has {ngrid}; selected {sel[:30]} "
                       f"for {what} grid={grid}; kpoints={short(k)}")


# ----------------------------------------------------------------------------------------------- parts

def run_orderings(case, J):
    mesh = J.mesh
    pts = mesh_points(mesh)
    mp = np.array(mesh, dtype=float)
    full = J.N <= full_limit(case)
    n = 0
    for name, perm in ordering_alphabet(J.N, full):
        ints = pts[perm]
        k = ints / mp
        J.detect(k, f"ordering {name}")
        J.select(k, [tuple(r) for r in ints], f"ordering {name}")
        n += 1
    return n


def run_variants(case, J, shift_only=False):
    mesh = J.mesh
    pts = mesh_points(mesh)
    mp = np.array(mesh, dtype=float)
    N = J.N
    n = 0
    for oname, perm in (("id", list(range(N))), ("rev", list(range(N))[::-1])):
        ints = pts[perm]
        entry = [tuple(r) for r in ints]
        k0 = ints / mp
        pershift = np.array([[(i % 3) - 1, (i // 3) % 2, -((i // 2) % 4)] for i in range(N)], dtype=float)
        variants = [("shift(1,-2,3)", k0 + np.array([1.0, -2.0, 3.0]), ":shifted"),
                    ("per-point integer shifts", k0 + pershift, ":shifted")]
        if not shift_only:
            variants += [("+1e-9", k0 + 1e-9, ":perturbed"), ("-1e-9", k0 - 1e-9, ":perturbed"),
                         ("alternating +-1e-9", k0 + 1e-9 * ((-1.0) ** np.arange(N))[:, None], ":perturbed")]
        for vname, k, sfx in variants:
            J.detect(k, f"ordering {oname}, coordinates {vname}", sfx)
            J.select(k, entry, f"ordering {oname}, coordinates {vname}", sfx=sfx)
            n += 1
        if N == 1:
            break
    return n


def off_mesh_points(mesh, p):
    """off-mesh points derived from the mesh point p (integer coordinates)"""
    mp = np.array(mesh, dtype=float)
    mid = np.array(p, dtype=float) / mp
    mid[0] = (p[0] + 0.5) / mesh[0]          # half a step along the first axis
    gen = (np.array(p, dtype=float) / mp + np.array([0.013, 0.007, 0.021])) % 1
    return (("half_step", mid), ("generic", gen))


def run_defects(case, J):
    mesh = J.mesh
    pts = mesh_points(mesh)
    mp = np.array(mesh, dtype=float)
    N = J.N
    full = N <= full_limit(case)
    k0 = pts / mp
    entry0 = [tuple(r) for r in pts]
    n = 0
    for j in positions(N, full):
        # --- removed
        ints = np.delete(pts, j, axis=0)
        k = ints / mp
        what = f"mesh {mesh} with point #{j} {pts[j].tolist()} removed"
        J.select(k, [tuple(r) for r in ints], what, expect="reject", sfx=":removed")
        if N > 1:
            g, complete = ref_detect(ints, mesh)
            st, res = call(J.grid_from_kpoints, k.copy())
            J.calls += 1
            if complete:
                if st == "exc" or as_tuple(res) != g:
                    raise Fail("grid_from_kpoints:detect:wrong_dimensions:removed",
                               f"{what}: the remaining points are the complete mesh {g}, got {res!r}")
            else:
                if st == "ok":
                    raise Fail("grid_from_kpoints:detect:incomplete_mesh_accepted",
                               f"{what}: grid_from_kpoints(kpoints) returned {res} (remaining points are not a complete {g} mesh)")
                if not isinstance(res, ValueError):
                    raise Fail("grid_from_kpoints:detect:incomplete_mesh_wrong_exception",
                               f"{what}: {type(res).__name__}: {str(res)[:150]}")
        n += 1
        # --- duplicated: copy next to the original / at the end / at the beginning
        for place, pos in (("next", j + 1), ("end", N), ("start", 0)):
            k = np.insert(k0, pos, k0[j], axis=0)
            entry = list(entry0)
            entry.insert(pos, entry0[j])
            what = f"mesh {mesh} with point #{j} duplicated ({place})"
            J.select(k, entry, what, sfx=":duplicated")
            st, res = call(J.grid_from_kpoints, k.copy())
            J.calls += 1
            if st == "exc" or as_tuple(res) != mesh:
                raise Fail("grid_from_kpoints:detect:wrong_dimensions:duplicated", f"{what}: got {res!r}")
            n += 1
        # --- replaced by / extended with an off-mesh point
        for oname, q in off_mesh_points(mesh, pts[j]):
            k = k0.copy()
            k[j] = q
            entry = list(entry0)
            entry[j] = None
            J.select(k, entry, f"mesh {mesh} with point #{j} replaced by the off-mesh point {q.tolist()} ({oname})",
                     expect="reject", sfx=":replaced")
            for place, pos in (("next", j + 1), ("start", 0)):
                k = np.insert(k0, pos, q, axis=0)
                entry = list(entry0)
                entry.insert(pos, None)
                J.select(k, entry, f"mesh {mesh} plus the off-mesh point {q.tolist()} ({oname}) inserted at {pos}", sfx=":added")
            n += 3
    # --- combined defects: m points removed AND m (or m+1) OTHER points given twice, so that the list is as long as
    #     (or longer than) a complete mesh although it is incomplete
    if N >= 3:
        for m in (1, 2):
            if N < 2 * m + 1:
                continue
            for jr in positions(N, full)[: (None if full else 3)]:
                removed = [(jr + t) % N for t in range(m)]
                others = [i for i in range(N) if i not in removed]
                for extra in (0, 1):
                    dup = others[: m + extra] if jr % 2 == 0 else others[-(m + extra):]
                    keep = [i for i in range(N) if i not in removed]
                    for place in ("end", "next"):
                        order = list(keep)
                        for d in dup:
                            order.insert(order.index(d) + 1 if place == "next" else len(order), d)
                        k = k0[order]
                        what = f"mesh {mesh} with points {removed} removed and points {dup} given twice ({place})"
                        J.select(k, [entry0[i] for i in order], what, expect="reject", sfx=":removed_and_duplicated")
                        n += 1
    # --- several points removed: along one axis, every point whose coordinate i/n is in lowest terms (gcd(i,n)=1), so
    #     that no remaining coordinate carries the full denominator (e.g. {0, 1/3, 1/2, 2/3} of a 6-mesh)
    for ax in range(3):
        if mesh[ax] == 1:
            continue
        keep = np.array([gcd(int(r[ax]), mesh[ax]) != 1 for r in pts])
        ints = pts[keep]
        k = ints / mp
        what = f"mesh {mesh} without the points whose coordinate {ax} is i/{mesh[ax]} in lowest terms"
        J.select(k, [tuple(r) for r in ints], what, expect="reject", sfx=":removed")
        g, complete = ref_detect(ints, mesh)
        st, res = call(J.grid_from_kpoints, k.copy())
        J.calls += 1
        if complete:
            if st == "exc" or as_tuple(res) != g:
                raise Fail("grid_from_kpoints:detect:wrong_dimensions:removed",
                           f"{what}: the remaining points are the complete mesh {g}, got {res!r}")
        elif st == "ok":
            raise Fail("grid_from_kpoints:detect:incomplete_mesh_accepted",
                       f"{what}: grid_from_kpoints(kpoints) returned {res}; the remaining points {short(k)} are not a "
                       f"complete mesh (their common grid is {g})")
        elif not isinstance(res, ValueError):
            raise Fail("grid_from_kpoints:detect:incomplete_mesh_wrong_exception", f"{what}: {type(res).__name__}: {str(res)[:150]}")
        n += 1
    # --- a finer mesh given with the coarse grid: exactly the coarse points are selected
    for f in (2, 3):
        fine = tuple(f * m for m in mesh)
        if int(np.prod(fine)) > 1800:
            continue
        fp = mesh_points(fine)
        for oname, order in (("id", slice(None)), ("rev", slice(None, None, -1))):
            ints = fp[order]
            k = ints / np.array(fine, dtype=float)
            entry = [tuple(int(x) // f for x in r) if all(int(x) % f == 0 for x in r) else None for r in ints]
            J.select(k, entry, f"points of the {fine} mesh ({oname}) with grid={mesh}", sfx=":submesh")
            n += 1
        # and the other way round: the coarse points cannot fill the fine grid
        if N * f ** 3 > N:
            J.select(k0, [None] * N, f"points of the {mesh} mesh with grid={fine}", expect="reject", sfx=":coarse_points_fine_grid",
                     grid=fine)
            n += 1
    return n


def run_case(case, seed):
    mesh = tuple(case["mesh"])
    J = Judge(mesh)
    part = case["part"]
    try:
        if part == "orderings":
            n = run_orderings(case, J)
        elif part == "variants":
            n = run_variants(case, J)
        elif part == "variants_shift_only":
            n = run_variants(case, J, shift_only=True)
        else:
            n = run_defects(case, J)
    except Fail as f:
        return {"ok": False, "key": f.key, "detail": f.detail, "nontrivial": False, "obs": {"calls": J.calls}}
    return {"ok": True, "nontrivial": ((list(mesh), part) if J.N > 1 else False), "obs": {"lists": n, "calls": J.calls}}


def finish(tier, cases, results):
    calls = sum(int((r.get("obs") or {}).get("calls", 0)) for r in results)
    lists = sum(int((r.get("obs") or {}).get("lists", 0)) for r in results)
    return {"meshes": len({tuple(c["mesh"]) for c in cases}), "lists_judged": lists, "calls": calls,
            "largest_mesh_points": max(int(np.prod(c["mesh"])) for c in cases)}
