"""C18 — system files round-trip (npz directory, _tb.dat, _hr.dat + Wannier-centre file).

Complete products of zoo systems are written with the library's own writers and read back with the
matching readers; the reloaded System_R is compared with the in-memory original at matrix level
(lattice, centres, R-set, every real-space matrix; printed precision for the text formats, bitwise
for npz) and in k-space (energies, Berry curvature).  The order in which the operating system lists
the npz directory is an environment choice: every ordering of the property files is enumerated by
replacing the `glob` module seen by `System_R.load_npz`.  The readers are additionally fed files
written by an independent writer of the harness with degeneracy weights != 1.
"""
import itertools
import os
import traceback

import numpy as np

ID = "C18"
LEVEL = "exploration"
RULE = ("cases = (format, num_wann, lattice, R-set, centres[, group, matrix set, periodic]); hr / tb / npz(without symmetry): full "
        "product of the alphabets; npz with symmetry: every (lattice, group) pair x num_wann {1,3} x matrix set {Ham, all} (the group "
        "lives in its own file). Each case writes the system with the library writer(s) of that format in every supported variant "
        "(tb: convention II with/without reading AA, convention I, Ham-only with/without centres passed; hr: centres passed / from "
        "the WT centre file; npz: real listing, all matrices / matrices=[Ham]) and reads it back; wcc cases: centre file alone for "
        "every num_wann; npz_order cases enumerate all 7! = 5040 listings of the property files (x position of the matrix files in "
        "the listing x the 6 listings of 3 matrix files, cycled) through a fake `glob` module; ref_* cases feed the readers files of "
        "an independent writer with Ndegen patterns {1, 2, mixed 1..3}. non-trivial = the system has something a faulty writer/reader "
        "could mix up (>=2 Wannier functions, or >=2 R-vectors, or non-zero centres); counted per distinct "
        "(format, num_wann, R-set, centres, lattice, group, matrices); npz_order counts the distinct first-listed files")
ASSUMPTIONS = [
    "R-sets contain R=0 and are closed under R->-R; all directions periodic except one 2D family (planar R-set)",
    "AA(R=0) has zero diagonal (the constraint System_R imposes), so convention II <-> I is invertible",
    "text formats: only Ham (+AA for _tb.dat) are representable; point group / periodic flags are not stored and not compared",
    "_hr.dat: the lattice is passed to the reader (the format does not contain it)",
    "_tb.dat written in convention I does not contain the centres: they are passed to the reader",
    "matrix entries |x| <~ 3, R components |R| <= 3, num_wann <= 5 (quick) / 7 (thorough)",
    "npz directory is freshly created (a directory that already holds files of another system is outside the space)",
    "k-space comparison at 4 (energies) / 3 generic (Berry curvature) k-points only",
]

# ------------------------------------------------------------------ alphabets
LATS_Q = ("sc", "hex", "fcc", "tric")
LATS_T = ("sc", "tet", "orth", "hex", "fcc", "bcc", "mono", "tric")
RSETS = ("R0", "shell1", "lopsided", "shell2", "r15")     # r15: a full header line of degeneracies
CENTRES = ("zero", "generic", "outside", "small")
GROUPS = {  # generators compatible with the lattice
    "sc": ([], ["Inversion"], ["C4z", "C4x", "Inversion"], ["C4z", "C4x", "Inversion", "TimeReversal"],
           ["C4z", "TimeReversal*C2x"], ["Mz", "TimeReversal"]),
    "tet": ([], ["C4z", "Inversion"], ["C4z", "TimeReversal*C2x"]),
    "orth": ([], ["C2z", "C2x", "Inversion"], ["Mx", "TimeReversal*My"]),
    "hex": ([], ["C6z"], ["C3z", "Mx"], ["C6z", "Inversion", "TimeReversal"], ["C3z", "TimeReversal*C2x"],
            ["C6z", "C2x", "Inversion"]),
    "fcc": ([], ["Inversion"], ["C4z", "C4x", "Inversion"], ["C2z", "C2x", "TimeReversal"]),
    "bcc": ([], ["C4z", "C4x", "Inversion"], ["TimeReversal*Inversion"]),
    "mono": ([], ["C2y"], ["My", "TimeReversal"], ["TimeReversal*C2y"]),
    "tric": ([], ["Inversion"], ["TimeReversal"], ["Inversion*TimeReversal"]),
}
MATSETS = (("Ham",), ("Ham", "AA"), ("Ham", "AA", "SS", "BB", "CC", "SHA"))
NDEGEN_PATTERNS = ("ones", "twos", "mixed")


def centres_red(name, n):
    from wbmc import zoo
    if name == "small":
        # entries below / around the 1e-7 threshold of the centre-file writer, mixed with ordinary ones
        base = np.array([[1e-8, -3e-9, 0.25], [0.5, 2e-8, -1e-8], [-0.75, 0.125, 5e-8]])
        return np.array([base[i % 3] + 0.0625 * (i // 3) * np.array([1, 0, 1]) for i in range(n)])
    return zoo.centres(name, n)


def build(case, seed, mats):
    from wbmc import zoo
    cen = centres_red(case["cen"], case["nw"])
    per = tuple(case.get("periodic", (True, True, True)))
    return zoo.make_system(case["nw"], case["lat"], case["rs"], cen, seed=seed, matrices=mats,
                           symmetry_gen=case.get("group", ()), periodic=per, tag="c18" + case["cen"])


def cases(tier, seed):
    quick = tier == "quick"
    nws = (1, 2, 3, 4, 5) if quick else (1, 2, 3, 4, 5, 6, 7)
    lats = LATS_Q if quick else LATS_T
    # 1. the centre file on its own (cheap: every num_wann up to 9)
    for nw in range(1, 10 if quick else 14):
        for cen in CENTRES:
            yield {"kind": "wcc", "nw": nw, "cen": cen}
    # 2. text formats
    for fmt in ("hr", "tb"):
        for nw in nws:
            for rs in RSETS:
                for cen in CENTRES:
                    for lat in lats:
                        yield {"kind": fmt, "nw": nw, "lat": lat, "rs": rs, "cen": cen}
    # 3. npz directory: (a) systems without symmetry, full product; (b) every (lattice, group) pair on a sub-product
    #    (the group is stored in its own file, independent of the other axes; closing a 96-element group costs seconds)
    for nw in nws:
        for rs in RSETS:
            for cen in ("generic", "outside") if quick else CENTRES:
                for lat in lats:
                    for im in range(len(MATSETS)):
                        yield {"kind": "npz", "nw": nw, "lat": lat, "rs": rs, "cen": cen, "group": [], "mats": im}
    for lat in lats:
        for ig in range(1, len(GROUPS[lat])):
            for nw in (1, 3) if quick else (1, 2, 3):
                for im in (0, 2):
                    yield {"kind": "npz", "nw": nw, "lat": lat, "rs": "shell1", "cen": "outside",
                           "group": GROUPS[lat][ig], "mats": im}
    # "square" systems, num_wann == number of R-vectors (>= 2): an array [iR, m, n, ...] then has three equal leading
    # dimensions, so that nothing about its layout can be guessed from its shape
    for nw, rs in ((5, "chain"), (7, "shell1")) + (() if quick else ((9, "lopsided"), (15, "r15"))):
        for lat in lats[:2]:
            for im in range(len(MATSETS)):
                yield {"kind": "npz", "nw": nw, "lat": lat, "rs": rs, "cen": "generic", "group": [], "mats": im}
            for fmt in ("hr", "tb"):
                yield {"kind": fmt, "nw": nw, "lat": lat, "rs": rs, "cen": "generic"}
    for nw in (1, 2, 3):   # 2D systems: periodic flags must survive
        for im in range(len(MATSETS)):
            yield {"kind": "npz", "nw": nw, "lat": "hex", "rs": "planar", "cen": "generic", "group": ["C3z"],
                   "mats": im, "periodic": [True, True, False]}
    # 4. listing order of the npz directory: all orderings of the 7 property files
    nperm = 5040
    chunk = 120
    for base in ({"nw": 3, "lat": "tric", "rs": "shell1", "cen": "generic", "group": ["Inversion"], "mats": 2},) + \
            (() if quick else ({"nw": 2, "lat": "hex", "rs": "planar", "cen": "outside", "group": ["C6z", "TimeReversal"],
                                "mats": 1, "periodic": [True, True, False]},)):
        for start in range(0, nperm, chunk):
            c = dict(base)
            c.update({"kind": "npz_order", "start": start, "stop": start + chunk})
            yield c
    # 5. readers against an independent writer with degeneracy weights
    for fmt in ("ref_hr", "ref_tb"):
        for nw in (1, 2, 3, 4) if quick else nws:
            for rs in ("R0", "shell1", "lopsided"):
                for cen in ("generic", "outside"):
                    for nd in NDEGEN_PATTERNS:
                        yield {"kind": fmt, "nw": nw, "lat": "tric", "rs": rs, "cen": cen, "ndegen": nd}


def setup(tier, seed):
    # warm-up of the lazily imported / compiled parts before forking
    import wannierberri as wb
    from wbmc import zoo
    s = zoo.make_system(2, "sc", "shell1", "generic", seed=0, matrices=("Ham", "AA"))
    wb.evaluate_k(s, k=(0.1, 0.2, 0.3), quantities=["energy", "berry_curvature"])


# ------------------------------------------------------------------ comparisons

def innermost(exc):
    tb = traceback.extract_tb(exc.__traceback__)
    for fr in reversed(tb):
        if "wannierberri" in fr.filename:
            return fr.name
    return tb[-1].name if tb else "?"


def exc_key(prefix, stage, e):
    """key of an exception escaping a writer/reader; a failure inside the centre-file helpers gets the
    same key whichever entry point reached it (one key = one defect)"""
    fn = innermost(e)
    if fn in ("read_WCC_WT_format", "write_WCC_WT_format"):
        prefix = "wcc"
    return f"{prefix}:{stage}:{fn}:{type(e).__name__}"


def fail(key, detail, nt):
    return {"ok": False, "key": key, "detail": detail, "nontrivial": nt}


def printed_close(got, exp, printed=None, rel=0.6e-8):
    """each real / imaginary component was printed with 9 significant digits"""
    got = np.asarray(got)
    exp = np.asarray(exp)
    printed = exp if printed is None else np.asarray(printed)
    if got.shape != exp.shape:
        return False, f"shape {got.shape} vs {exp.shape}"
    scale = max(1.0, np.abs(printed).max() if printed.size else 1.0)
    worst = 0.0
    for part in (np.real, np.imag):
        d = np.abs(part(got) - part(exp)) - rel * np.abs(part(printed)) - 1e-14 * scale
        if d.size:
            worst = max(worst, d.max())
    if worst > 0:
        i = np.unravel_index(np.argmax(np.abs(got - exp)), exp.shape)
        return False, f"max |diff|={np.abs(got - exp).max():.3e} at {tuple(int(x) for x in i)}: got {got[i]} expected {exp[i]}"
    return True, ""


def align_R(ref, got):
    """indices into got's R list in the order of ref's R list; None if the sets differ"""
    A = [tuple(int(x) for x in r) for r in ref.rvec.iRvec]
    B = [tuple(int(x) for x in r) for r in got.rvec.iRvec]
    if len(set(B)) != len(B) or set(A) != set(B):
        return None, f"R-set written {sorted(A)} read {sorted(B)}"
    pos = {r: i for i, r in enumerate(B)}
    return np.array([pos[r] for r in A]), ""


def compare_text(ref, got, mats, lattice_exact, centre_rule, aa_printed=None):
    """None or (what, detail). centre_rule: 'tb' (9 digits) | 'wt' (exact, |x|<=1e-7 -> 0) | 'exact'"""
    if int(got.num_wann) != int(ref.num_wann):
        return "num_wann", f"{got.num_wann} vs {ref.num_wann}"
    tolL = 0.0 if lattice_exact else 1e-15
    if np.asarray(got.real_lattice).shape != (3, 3) or np.abs(got.real_lattice - ref.real_lattice).max() > tolL * 10:
        return "lattice", f"{np.asarray(got.real_lattice).tolist()} vs {ref.real_lattice.tolist()}"
    c0, c1 = ref.wannier_centers_cart, np.asarray(got.wannier_centers_cart)
    if c1.shape != c0.shape:
        return "centres", f"shape {c1.shape} vs {c0.shape}"
    if centre_rule == "tb":
        ok, msg = printed_close(c1, c0)
    elif centre_rule == "wt":
        exp = np.where(np.abs(c0) > 1e-7, c0, 0.0)
        ok = bool(np.all(c1 == exp))
        msg = "" if ok else f"read {c1.tolist()} expected {exp.tolist()}"
    else:
        ok = bool(np.all(c1 == c0))
        msg = "" if ok else f"read {c1.tolist()} expected {c0.tolist()}"
    if not ok:
        return "centres", msg
    idx, msg = align_R(ref, got)
    if idx is None:
        return "Rset", msg
    if sorted(got._XX_R.keys()) != sorted(mats):
        return "matrix_set", f"read {sorted(got._XX_R.keys())} expected {sorted(mats)}"
    for key in mats:
        X0 = ref.get_R_mat(key)
        X1 = got.get_R_mat(key)[idx]
        printed = aa_printed if (key == "AA" and aa_printed is not None) else None
        ok, msg = printed_close(X1, X0, printed=printed)
        if not ok:
            return key, msg
    return None


def describe(case):
    return {k: v for k, v in case.items() if k not in ("kind",)}


def nontrivial_key(case, fmt, extra=()):
    nR = {"R0": 1}.get(case.get("rs"), 7)
    if case["nw"] >= 2 or nR >= 2 or case["cen"] != "zero":
        return (fmt, case["nw"], case.get("rs"), case["cen"], case.get("lat")) + tuple(extra)
    return False


# ------------------------------------------------------------------ runners

def run_wcc(case):
    from wannierberri.system.system_hr import write_WCC_WT_format, read_WCC_WT_format
    from wbmc.roundtrip_util import scratch
    n = case["nw"]
    c = centres_red(case["cen"], n) @ np.array([[1.0, 0.1, 0.2], [0.3, 0.9, -0.1], [-0.2, 0.25, 0.8]])
    nt = ("wcc", n, case["cen"]) if (n >= 2 or case["cen"] != "zero") else False
    with scratch() as d:
        seedname = os.path.join(d, "w")
        write_WCC_WT_format(seedname, c)
        try:
            got = read_WCC_WT_format(seedname)
        except Exception as e:
            return fail(exc_key(f"wcc", "read", e),
                        f"write_WCC_WT_format/read_WCC_WT_format num_wann={n} centres={case['cen']}: {type(e).__name__}: {e}", nt)
    exp = np.where(np.abs(c) > 1e-7, c, 0.0)
    if got.shape != exp.shape or not np.all(got == exp):
        return fail("wcc:mismatch:centres", f"num_wann={n} centres={case['cen']} read {np.asarray(got).tolist()} expected {exp.tolist()}", nt)
    return {"ok": True, "nontrivial": nt}


def kspace_fail(ref_obs, got, external, rel):
    from wbmc.roundtrip_util import kspace_obs, compare_kspace
    return compare_kspace(ref_obs, kspace_obs(got, external), rel)


def run_hr(case, seed):
    from wannierberri.system.system_R import System_R
    from wbmc.roundtrip_util import scratch, kspace_obs
    s = build(case, seed, ("Ham", "AA"))   # AA is not representable: it must simply be dropped
    nt = nontrivial_key(case, "hr")
    ref_obs = kspace_obs(s, external=False)
    with scratch() as d:
        seedname = os.path.join(d, "sys")
        try:
            s.to_hr_file(seedname)
        except Exception as e:
            return fail(exc_key(f"hr", "write", e), f"{describe(case)}: {type(e).__name__}: {e}", nt)
        for variant, kw in (("centres_passed", {"wannier_centers_cart": s.wannier_centers_cart.copy()}),
                            ("centres_from_WT_file", {})):
            try:
                got = System_R.from_hr_file(seedname, real_lattice=s.real_lattice.copy(), silent=True, **kw)
            except Exception as e:
                return fail(exc_key(f"hr[{variant}]", "read", e),
                            f"to_hr_file/from_hr_file {describe(case)}: {type(e).__name__}: {e}", nt)
            bad = compare_text(s, got, ("Ham",), True, "exact" if kw else "wt")
            if bad:
                return fail(f"hr[{variant}]:mismatch:{bad[0]}", f"{describe(case)}: {bad[1]}", nt)
            # (centres snapped to 0 by the writer move k-space observables by < 1e-7: inside the tolerance)
            msg = kspace_fail(ref_obs, got, False, 1e-8)
            if msg:
                return fail(f"hr[{variant}]:mismatch:kspace", f"{describe(case)}: {msg}", nt)
    return {"ok": True, "nontrivial": nt}


def run_tb(case, seed):
    from wannierberri.system.system_R import System_R
    from wbmc.roundtrip_util import scratch, kspace_obs
    nt = nontrivial_key(case, "tb")
    s = build(case, seed, ("Ham", "AA"))
    s0 = build(case, seed, ("Ham",))
    nw = s.num_wann
    aa2 = s.get_R_mat("AA").copy()
    aa2[s.rvec.iR0, np.arange(nw), np.arange(nw)] += s.wannier_centers_cart
    variants = (
        # name, system, writer kwargs, reader kwargs, matrices expected, centre rule, printed AA
        ("Ham+AA,convII", s, {"use_convention_II": True}, {"berry": True}, ("Ham", "AA"), "tb", aa2),
        ("Ham+AA,convII,Ham_read", s, {"use_convention_II": True}, {}, ("Ham",), "tb", None),
        ("Ham+AA,convI", s, {"use_convention_II": False},
         {"berry": True, "convention_II_to_I": False, "wannier_centers_cart": s.wannier_centers_cart.copy()},
         ("Ham", "AA"), "exact", None),
        ("Ham_only,centres_passed", s0, {}, {"wannier_centers_cart": s0.wannier_centers_cart.copy()}, ("Ham",), "exact", None),
        ("Ham_only", s0, {}, {}, ("Ham",), "tb", None),
    )
    obs = {}
    with scratch() as d:
        for name, sysw, wkw, rkw, mats, crule, aap in variants:
            path = os.path.join(d, "sys_tb.dat")
            try:
                sysw.to_tb_file(path, **wkw)
            except Exception as e:
                return fail(exc_key(f"tb[{name}]", "write", e), f"{describe(case)}: {type(e).__name__}: {e}", nt)
            try:
                got = System_R.from_tb_file(path, silent=True, **rkw)
            except Exception as e:
                return fail(exc_key(f"tb[{name}]", "read", e),
                            f"to_tb_file({wkw})/from_tb_file({sorted(rkw)}) {describe(case)}: {type(e).__name__}: {e}", nt)
            bad = compare_text(sysw, got, mats, False, crule, aa_printed=aap)
            if bad:
                return fail(f"tb[{name}]:mismatch:{bad[0]}", f"{describe(case)}: {bad[1]}", nt)
            ext = "AA" in mats
            if ext not in obs:
                obs[ext] = kspace_obs(s, external=ext)   # s and s0 share Ham and centres
            msg = kspace_fail(obs[ext], got, ext, 1e-8)
            if msg:
                return fail(f"tb[{name}]:mismatch:kspace", f"{describe(case)}: {msg}", nt)
    return {"ok": True, "nontrivial": nt}


def compare_exact(ref, got, mats):
    if int(got.num_wann) != int(ref.num_wann):
        return "num_wann", f"{got.num_wann} vs {ref.num_wann}"
    if not np.array_equal(np.asarray(got.real_lattice), ref.real_lattice):
        return "lattice", f"{np.asarray(got.real_lattice).tolist()} vs {ref.real_lattice.tolist()}"
    if not np.array_equal(np.asarray(got.wannier_centers_cart), ref.wannier_centers_cart):
        return "centres", f"{np.asarray(got.wannier_centers_cart).tolist()} vs {ref.wannier_centers_cart.tolist()}"
    if not np.allclose(got.wannier_centers_red, ref.wannier_centers_red, atol=1e-14, rtol=0):
        return "centres_red", "cached reduced centres differ"
    if not np.array_equal(np.asarray(got.periodic, dtype=bool), np.asarray(ref.periodic, dtype=bool)):
        return "periodic", f"{got.periodic} vs {ref.periodic}"
    if bool(got.is_phonon) != bool(ref.is_phonon):
        return "is_phonon", f"{got.is_phonon} vs {ref.is_phonon}"
    idx, msg = align_R(ref, got)
    if idx is None:
        return "Rset", msg
    if not np.allclose(got.rvec.shifts_left_red, ref.rvec.shifts_left_red, atol=1e-14, rtol=0):
        return "rvec_shifts", "R-vector shifts differ from the centres"
    if sorted(got._XX_R.keys()) != sorted(mats):
        return "matrix_set", f"read {sorted(got._XX_R.keys())} expected {sorted(mats)}"
    for key in mats:
        if not np.array_equal(got.get_R_mat(key)[idx], ref.get_R_mat(key)):
            return key, f"max |diff| {np.abs(got.get_R_mat(key)[idx] - ref.get_R_mat(key)).max():.3e}"
    g0, g1 = ref.pointgroup, got.pointgroup
    if g1.size != g0.size:
        return "pointgroup", f"size {g1.size} vs {g0.size}"
    if not np.array_equal(g1.real_lattice, g0.real_lattice) or not np.allclose(g1.recip_lattice, g0.recip_lattice, atol=1e-14):
        return "pointgroup", "lattice of the point group differs"
    for a, b in zip(g0.symmetries, g1.symmetries):
        if not (np.array_equal(a.R, b.R) and bool(a.TR) == bool(b.TR) and bool(a.Inv) == bool(b.Inv)):
            return "pointgroup", f"operation differs: {a} vs {b}"
    return None


def run_npz(case, seed):
    from wannierberri.system.system_R import System_R
    from wbmc.roundtrip_util import scratch, kspace_obs, compare_kspace
    mats = MATSETS[case["mats"]]
    s = build(case, seed, mats)
    nt = nontrivial_key(case, "npz", extra=(tuple(case["group"]), case["mats"], tuple(case.get("periodic", ()))))
    ext = "AA" in mats
    with scratch() as d:
        path = os.path.join(d, "sysdir")
        try:
            s.to_npz(path)
        except Exception as e:
            return fail(exc_key(f"npz", "write", e), f"{describe(case)}: {type(e).__name__}: {e}", nt)
        try:
            got = System_R.from_npz(path)
        except Exception as e:
            return fail(exc_key(f"npz", "read", e), f"{describe(case)}: {type(e).__name__}: {e}", nt)
        bad = compare_exact(s, got, mats)
        if bad:
            return fail(f"npz:mismatch:{bad[0]}", f"{describe(case)}: {bad[1]}", nt)
        # a subset of matrices may be requested (skipped for big groups: re-closing the group dominates the cost)
        if len(mats) > 1 and s.pointgroup.size <= 8:
            try:
                got2 = System_R.from_npz(path, matrices=["Ham"])
            except Exception as e:
                return fail(exc_key(f"npz[matrices=Ham]", "read", e), f"{describe(case)}: {type(e).__name__}: {e}", nt)
            bad = compare_exact(s, got2, ("Ham",))
            if bad:
                return fail(f"npz[matrices=Ham]:mismatch:{bad[0]}", f"{describe(case)}: {bad[1]}", nt)
    msg = compare_kspace(kspace_obs(s, ext), kspace_obs(got, ext), 0.0)
    if msg:
        return fail("npz:mismatch:kspace", f"{describe(case)}: {msg}", nt)
    return {"ok": True, "nontrivial": nt}


PROP_FILES = 7   # real_lattice, wannier_centers_cart, is_phonon, num_wann, pointgroup, periodic, iRvec


def run_npz_order(case, seed):
    from wannierberri.system.system_R import System_R
    from wbmc.roundtrip_util import scratch, patched_glob
    mats = MATSETS[case["mats"]]
    s = build(case, seed, mats)
    nm = len(mats)
    mperms = list(itertools.permutations(range(nm)))
    seen_first = set()
    with scratch() as d:
        path = os.path.join(d, "sysdir")
        s.to_npz(path)
        names = sorted(f for f in os.listdir(path) if f.endswith(".npz"))
        prop_idx = [i for i, f in enumerate(names) if not f.startswith("_XX_R_")]
        mat_idx = [i for i, f in enumerate(names) if f.startswith("_XX_R_")]
        if len(prop_idx) != PROP_FILES or len(mat_idx) != nm:
            return fail("npz_order:unexpected_directory_content", f"{names}", False)
        perms = itertools.islice(itertools.permutations(prop_idx), case["start"], case["stop"])
        for j, perm in enumerate(perms, start=case["start"]):
            mp = mperms[j % len(mperms)]
            # matrix files are interleaved at a position that varies with the ordering index
            cut = j % (PROP_FILES + 1)
            first = list(perm[:cut]) + [mat_idx[i] for i in mp] + list(perm[cut:])
            second = list(mp)
            with patched_glob({"*.npz": first, "_XX_R_*.npz": second}) as fake:
                try:
                    got = System_R.from_npz(path)
                except Exception as e:
                    return fail(exc_key(f"npz_order", "read", e),
                                f"listing {[names[i] for i in first]}: {type(e).__name__}: {e}", True)
            if [c[0] for c in fake.calls] != ["*.npz", "_XX_R_*.npz"]:
                return fail("npz_order:seam_not_reached", f"glob calls seen: {fake.calls}", False)
            seen_first.add(names[perm[0]])
            bad = compare_exact(s, got, mats)
            if bad:
                return fail(f"npz_order:mismatch:{bad[0]}",
                            f"{describe(case)} listing {[names[i] for i in first]} / {[names[mat_idx[i]] for i in second]}: {bad[1]}", True)
    return {"ok": True, "nontrivial": [("npz_order", case["nw"], case["lat"], f) for f in sorted(seen_first)],
            "obs": {"orderings": case["stop"] - case["start"]}}


def ndegen_of(pattern, nR):
    if pattern == "ones":
        return np.ones(nR, dtype=int)
    if pattern == "twos":
        return 2 * np.ones(nR, dtype=int)
    return np.array([1 + (i * i + 1) % 3 for i in range(nR)], dtype=int)


def run_ref(case, seed):
    from wannierberri.system.system_R import System_R
    from wbmc.roundtrip_util import scratch, ref_write_tb, ref_write_hr
    fmt = case["kind"][4:]
    s = build(case, seed, ("Ham", "AA"))
    nw = s.num_wann
    nd = ndegen_of(case["ndegen"], s.rvec.nRvec)
    nt = (case["kind"], case["nw"], case["rs"], case["cen"], case["ndegen"]) if (case["ndegen"] != "ones" or nw > 1) else False
    with scratch() as d:
        if fmt == "hr":
            if nw % 2:   # the centre file is read by read_WCC_WT_format; odd counts are covered by the wcc/hr cases
                kw = {"wannier_centers_cart": s.wannier_centers_cart.copy()}
                crule = "exact"
            else:
                kw = {}
                crule = "wt"
            seedname = os.path.join(d, "ref")
            ref_write_hr(seedname, s.rvec.iRvec, s.Ham_R, nd, s.wannier_centers_cart)
            try:
                got = System_R.from_hr_file(seedname, real_lattice=s.real_lattice.copy(), silent=True, **kw)
            except Exception as e:
                return fail(exc_key(f"ref_hr", "read", e), f"{describe(case)}: {type(e).__name__}: {e}", nt)
            bad = compare_text(s, got, ("Ham",), True, crule, aa_printed=None)
            if bad is None and np.abs(got.Ham_R).max() == 0:
                bad = ("Ham", "all zero")
            if bad:
                return fail(f"ref_hr:mismatch:{bad[0]}", f"{describe(case)} Ndegen={nd.tolist()}: {bad[1]}", nt)
        else:
            aa2 = s.get_R_mat("AA").copy()
            aa2[s.rvec.iR0, np.arange(nw), np.arange(nw)] += s.wannier_centers_cart
            path = os.path.join(d, "ref_tb.dat")
            ref_write_tb(path, s.real_lattice, s.rvec.iRvec, s.Ham_R, aa2, nd)
            for name, rkw, mats in (("berry", {"berry": True}, ("Ham", "AA")), ("Ham_read", {}, ("Ham",))):
                try:
                    got = System_R.from_tb_file(path, silent=True, **rkw)
                except Exception as e:
                    return fail(exc_key(f"ref_tb[{name}]", "read", e), f"{describe(case)}: {type(e).__name__}: {e}", nt)
                # printed numbers are X*ndegen: same relative precision
                bad = compare_text(s, got, mats, False, "tb", aa_printed=aa2)
                if bad:
                    return fail(f"ref_tb[{name}]:mismatch:{bad[0]}", f"{describe(case)} Ndegen={nd.tolist()}: {bad[1]}", nt)
    return {"ok": True, "nontrivial": nt}


def run_case(case, seed):
    kind = case["kind"]
    if kind == "wcc":
        return run_wcc(case)
    if kind == "hr":
        return run_hr(case, seed)
    if kind == "tb":
        return run_tb(case, seed)
    if kind == "npz":
        return run_npz(case, seed)
    if kind == "npz_order":
        return run_npz_order(case, seed)
    return run_ref(case, seed)


def finish(tier, cases, results):
    kinds = {}
    for c in cases:
        kinds[c["kind"]] = kinds.get(c["kind"], 0) + 1
    orderings = sum((r.get("obs") or {}).get("orderings", 0) for r in results)
    return {"cases_per_kind": kinds, "npz_listing_orders_executed": orderings,
            "axes": {"num_wann": "1..5 (quick) / 1..7 (thorough); centre file alone 1..9 / 1..13",
                     "lattices": list(LATS_Q if tier == "quick" else LATS_T), "R_sets": list(RSETS) + ["planar (2D npz)"],
                     "centres": list(CENTRES), "matrix_sets": [list(m) for m in MATSETS],
                     "groups_per_lattice": {k: len(v) for k, v in GROUPS.items()},
                     "ndegen_patterns": list(NDEGEN_PATTERNS)}}
