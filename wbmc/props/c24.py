"""C24 — wannierise() returns a valid gauge that honours the frozen and outer windows.

Seam: `wannierberri.wannierisation.wannierise.wannierise(wandata, ..., parallel=False, savechk=False)` on a
synthetic in-memory `WannierData` (EIG, MMN, AMN, BKVectors.from_kpoints) — see `wbmc/synth_w90.py`:
eigenvectors C(k) and orbital centres tau of a hidden (seeded) tight-binding model,
M(k,b) = C(k)^+ exp(-i b.tau) C(k+b), A(k) = C(k)^+ P, and a band spectrum taken from an explicit level
alphabet (exact / near-degenerate doublets and triplets, flat or k-dependent), so that the window
alphabet does not depend on the seed.

Space (complete product, nothing sampled):
  lattice x mesh x NB x NW x level pattern
  x every frozen window (fmin < fmax from the edge alphabet, or "no frozen window")
  x every outer window (omin < omax from the edge alphabet)
      edge alphabet = {-inf, midpoint of every pair of consecutive distinct band energies (all k), +inf};
      a midpoint inside a near-degenerate multiplet is an edge cutting that multiplet
      kept: pairs for which, at every k, frozen subset of selected and  #frozen <= NW <= #selected
  x init {amn, random, restart (previous run with the same windows), restart_nowin (previous run
    without any window)} x num_iter {0,1,3(,10)} x localise {F,T} x mix_ratio_z {0.5,1}
    (combinations that cannot differ are run once: localise/mix are irrelevant for num_iter=0, mix for
    num_iter=1) (+ mix_ratio_u=0.5 with localise=True, num_iter 1 and 3: init amn/random in the quick tier, every init and both mix_ratio_z in the thorough tier)
  + explicit `frozen_states` (list and dict form) x outer windows.

Window pairs are grouped into classes by the *reference* selection (chain-linked multiplets, threshold
1e-2 = the default used by wannierise); one case = one class.  Inside the case every member window is
passed through the real `select_window_degen` exactly as wannierise does; the full parameter product
of wannierise is then run once per distinct real selection found among the members (one, unless the
real selection disagrees with the reference), because the windows enter wannierise only through
these two calls.

Oracle at every k (scale: entries of V are O(1), tolerance 1e-10):
  V^+ V = 1;   (V V^+)_bb = 1 for every reference-frozen band b;   V[b,:] = 0 for every band b that is
  outside the outer window and not a degenerate partner of a band inside.
"""
import itertools
import os
import shutil
import tempfile

import numpy as np

ID = "C24"
LEVEL = "exploration"
RULE = ("cases = (lattice, mesh, NB, NW, level pattern, class of (frozen window, outer window) pairs with the same "
        "reference selection at every k); every member window of the class goes through the real select_window_degen, "
        "wannierise(parallel=False, savechk=False) is run for the whole product init x num_iter x localise x mix_ratio_z "
        "on one representative per distinct real selection, and V(k) is judged at every k; "
        "non-trivial = at least one k has a frozen band or a band outside the outer selection "
        "(cases with neither only exercise the isometry clause); the coverage block counts separately the classes "
        "whose frozen / outer edge cuts an engineered multiplet")
ASSUMPTIONS = [
    "data: eigenvectors of a seeded 3-4 orbital tight-binding model, orthorhombic cell, meshes (2,1,1),(2,2,1),(3,1,1) "
    "(thorough adds reduced pattern lists on mesh (2,2,2), a triclinic cell with 12 b-vectors, and 5 bands); spectra "
    "from an explicit level alphabet (gaps 0, 0.005, >=0.3; k-points fall into two classes shifted by 0.3), "
    "not from the model; quick uses 6 level patterns per NB, thorough all of them",
    "reduced w.r.t. DESIGN: num_iter 10 only in the thorough tier; DESIGN's 'each band energy +-delta' edges coincide "
    "with the gap midpoints for this level alphabet",
    "window edges: -inf, +inf and midpoints between consecutive distinct energies (every other position selects the "
    "same bands as one of these); an edge exactly equal to a band energy (tie) is not in the alphabet",
    "only window pairs satisfying wannierise's own preconditions are run (frozen subset of outer, "
    "#frozen <= num_wann <= #selected at every k); sitesym=False, parallel=False, no irreducible k-points",
    "degeneracy threshold is wannierise's fixed default 1e-2; multiplets larger than 3 are not reached",
    "wannierise is run on one representative window pair per class of pairs that the real select_window_degen maps to "
    "the same (frozen, selected) masks; the windows enter wannierise only through these masks",
    "init='random' uses np.random seeded from (VERIF_SEED, case id); verdicts do not depend on it",
]

THRESH = 1e-2
H = THRESH / 2
TOL = 1e-10

# ---------------------------------------------------------------------------------------------
# level alphabet: per k-class (A = even k index, B = odd k index) a sorted list of NB energies
SCHEMES = {
    3: {"gen": [0.0, 1.0, 2.0],
        "d01": [0.0, H, 2.0],
        "d12": [0.0, 2.0, 2.0 + H],
        "t012": [0.0, H, 2 * H],
        "x01": [0.0, 0.0, 2.0],
        "x12": [0.0, 2.0, 2.0]},
    4: {"gen": [0.0, 1.0, 2.0, 3.0],
        "d01": [0.0, H, 2.0, 3.0],
        "d12": [0.0, 1.5, 1.5 + H, 3.0],
        "d23": [0.0, 1.0, 2.5, 2.5 + H],
        "t012": [0.0, H, 2 * H, 2.0],
        "t123": [0.0, 2.0, 2.0 + H, 2.0 + 2 * H],
        "d01d23": [0.0, H, 2.0, 2.0 + H],
        "x12": [0.0, 1.5, 1.5, 3.0]},
    5: {"gen": [0.0, 1.0, 2.0, 3.0, 4.0],
        "d12t": [0.0, 1.0, 1.0 + H, 3.0, 3.0 + H],
        "t123": [0.0, 2.0, 2.0 + H, 2.0 + 2 * H, 4.0]},
}
OFF = 0.3   # rigid shift of the B k-points in the dispersive patterns
# pattern name -> (scheme at A k-points, scheme at B k-points, offset of B)
PATTERNS = {
    "gen/flat": ("gen", "gen", 0.0),
    "gen/disp": ("gen", "gen", OFF),
    "d01/flat": ("d01", "d01", 0.0),
    "d12/flat": ("d12", "d12", 0.0),
    "d12/disp": ("d12", "d12", OFF),
    "d23/disp": ("d23", "d23", OFF),
    "d12@A": ("d12", "gen", OFF),
    "d01@B": ("gen", "d01", OFF),
    "t012/flat": ("t012", "t012", 0.0),
    "t012@A": ("t012", "gen", OFF),
    "t123/flat": ("t123", "t123", 0.0),
    "t123/disp": ("t123", "t123", OFF),
    "t123@A": ("t123", "gen", OFF),
    "d01d23/disp": ("d01d23", "d01d23", OFF),
    "x01/flat": ("x01", "x01", 0.0),
    "x12/disp": ("x12", "x12", OFF),
    "x12@A": ("x12", "gen", OFF),
    "d12t/disp": ("d12t", "d12t", OFF),
}


def pattern_ok(pat, nb):
    a, b, _ = PATTERNS[pat]
    return a in SCHEMES[nb] and b in SCHEMES[nb]


def mesh_nk(mesh):
    return int(mesh[0] * mesh[1] * mesh[2])


def energies(pat, nb, nk):
    a, b, off = PATTERNS[pat]
    E = []
    for ik in range(nk):
        if ik % 2 == 0:
            E.append([float(x) for x in SCHEMES[nb][a]])
        else:
            E.append([float(x) + off for x in SCHEMES[nb][b]])
    return E


def edge_alphabet(E):
    vals = sorted({x for row in E for x in row})
    mids = [(p + q) / 2 for p, q in zip(vals[:-1], vals[1:])]
    return [-np.inf] + mids + [np.inf]


# ---------------------------------------------------------------------------------------------
# reference selection model (independent of wannierberri.utility.select_window_degen)
def ref_blocks(E, t=THRESH):
    blocks = [[0]]
    for i in range(1, len(E)):
        if E[i] - E[i - 1] < t:
            blocks[-1].append(i)
        else:
            blocks.append([i])
    return blocks


def ref_window(E, lo, hi, include):
    """(mask, cut): bands of the window [lo,hi]; a multiplet cut by an edge is taken whole (include) or left out"""
    plain = [(lo <= e <= hi) for e in E]
    out = [False] * len(E)
    cut = False
    if not any(plain):
        return tuple(out), cut
    for b in ref_blocks(E):
        ins = [plain[i] for i in b]
        if any(ins) and not all(ins):
            cut = True
        if all(ins) or (include and any(ins)):
            for i in b:
                out[i] = True
    return tuple(out), cut


def classes(pat, nb, nw, nk):
    """all valid classes {(F masks, S masks): (frozen windows, outer windows, cutF, cutO)} for one configuration"""
    E = energies(pat, nb, nk)
    edges = edge_alphabet(E)
    ne = len(edges)
    pairs = [(i, j) for i in range(ne) for j in range(i + 1, ne)]
    fro = {}
    for w in [None] + pairs:
        if w is None:
            masks, cut = tuple((False,) * nb for _ in range(nk)), False
        else:
            r = [ref_window(E[ik], edges[w[0]], edges[w[1]], False) for ik in range(nk)]
            masks, cut = tuple(m for m, _ in r), any(c for _, c in r)
        if max(sum(m) for m in masks) > nw:
            continue
        ent = fro.setdefault(masks, [[], False])
        ent[0].append(list(w) if w is not None else None)
        ent[1] = ent[1] or cut
    out = {}
    for w in pairs:
        r = [ref_window(E[ik], edges[w[0]], edges[w[1]], True) for ik in range(nk)]
        masks, cut = tuple(m for m, _ in r), any(c for _, c in r)
        if min(sum(m) for m in masks) < nw:
            continue
        ent = out.setdefault(masks, [[], False])
        ent[0].append(list(w))
        ent[1] = ent[1] or cut
    res = []
    for F, (fw, cutF) in fro.items():
        for S, (ow, cutO) in out.items():
            if all((not f) or s for Fk, Sk in zip(F, S) for f, s in zip(Fk, Sk)):
                res.append((F, S, fw, ow, cutF, cutO))
    return res


# ---------------------------------------------------------------------------------------------
def configs(tier):
    """(lat, mesh, nb, nw, pattern) in order simplest first"""
    if tier == "quick":
        lats = ("orth",)
        meshes = ((2, 1, 1), (2, 2, 1), (3, 1, 1))
        nbnw = ((3, 1), (3, 2), (4, 1), (4, 2))
        pats = {3: ("gen/flat", "gen/disp", "d12/disp", "d12@A", "t012/flat", "x01/flat"),
                4: ("gen/disp", "d12/disp", "t123/disp", "t012@A", "d01d23/disp", "x12@A")}
    else:
        lats = ("orth",)
        meshes = ((2, 1, 1), (2, 2, 1), (3, 1, 1))
        nbnw = ((3, 1), (3, 2), (4, 1), (4, 2), (4, 3))
        pats = {nb: tuple(p for p in PATTERNS if pattern_ok(p, nb)) for nb in (3, 4, 5)}
    for lat in lats:
        for mesh in meshes:
            for nb, nw in nbnw:
                for pat in pats[nb]:
                    yield lat, mesh, nb, nw, pat
    if tier != "quick":
        # larger mesh, triclinic cell (12 b-vectors, two shells with tiny weights), 5 bands: reduced pattern lists
        for nb, nw in ((4, 2),):
            for pat in ("gen/disp", "d12@A", "t123/disp"):
                yield "orth", (2, 2, 2), nb, nw, pat
        for mesh in ((2, 1, 1), (2, 2, 1)):
            for nb, nw in ((3, 1), (4, 2)):
                for pat in ("gen/disp", "d12/disp", "d12@A", "t123/disp", "x12@A"):
                    if pattern_ok(pat, nb):
                        yield "tric", mesh, nb, nw, pat
        for mesh in ((2, 1, 1), (2, 2, 1)):
            for nb, nw in ((5, 2), (5, 3)):
                for pat in pats[5]:
                    yield "orth", mesh, nb, nw, pat


def param_product(tier):
    iters = (0, 1, 3) if tier == "quick" else (0, 1, 3, 10)
    inits = ("amn", "random", "restart", "restart_nowin")
    out = []
    for init in inits:
        for n in iters:
            if n == 0:
                out.append([init, 0, True, 1.0, 1.0])
            elif n == 1:
                for loc in (False, True):
                    out.append([init, 1, loc, 1.0, 1.0])
            else:
                for loc in (False, True):
                    for mix in (0.5, 1.0):
                        out.append([init, n, loc, mix, 1.0])
    for init in (("amn", "random") if tier == "quick" else inits):
        for n in (1, 3):
            out.append([init, n, True, 0.5, 0.5])   # mix_ratio_u != 1 ("not tested, use with caution")
            if tier != "quick":
                out.append([init, n, True, 1.0, 0.5])
    return out


def cases(tier, seed):
    prm = param_product(tier)
    for lat, mesh, nb, nw, pat in configs(tier):
        nk = mesh_nk(mesh)
        for F, S, fw, ow, cutF, cutO in classes(pat, nb, nw, nk):
            yield {"kind": "win", "lat": lat, "mesh": list(mesh), "nb": nb, "nw": nw, "pat": pat,
                   "F": [[int(x) for x in m] for m in F], "S": [[int(x) for x in m] for m in S],
                   "fw": fw, "ow": ow, "cutF": bool(cutF), "cutO": bool(cutO), "params": prm}
    # explicit frozen_states (list: same bands at all k; dict: per k) x outer windows
    fsprm = [p for p in prm if p[0] in ("amn", "random") and p[1] in (0, 1, 3) and p[3] == 1.0]
    for mesh in ((2, 1, 1), (2, 2, 1)):
        nk = mesh_nk(mesh)
        for nb, nw in ((3, 1), (4, 2)):
            pat = "gen/disp"
            E = energies(pat, nb, nk)
            edges = edge_alphabet(E)
            fss = [[0], [1], [nb - 1], {"0": [0]}, {"0": [1], "1": [0]}, {"1": [nb - 1]}]
            if nw >= 2:
                fss += [[0, 1], [0, nb - 1], {"0": [0, 2], "1": [1]}]
            outer = {}
            for i in range(len(edges)):
                for j in range(i + 1, len(edges)):
                    masks = tuple(ref_window(E[ik], edges[i], edges[j], True)[0] for ik in range(nk))
                    outer.setdefault(masks, [i, j])
            for fs in fss:
                F = [[0] * nb for _ in range(nk)]
                if isinstance(fs, list):
                    for ik in range(nk):
                        for b in fs:
                            F[ik][b] = 1
                else:
                    for ik, bs in fs.items():
                        for b in bs:
                            F[int(ik)][b] = 1
                for S, w in outer.items():
                    if min(sum(m) for m in S) < nw:
                        continue
                    if not all((not f) or s for Fk, Sk in zip(F, S) for f, s in zip(Fk, Sk)):
                        continue
                    yield {"kind": "fs", "lat": "orth", "mesh": list(mesh), "nb": nb, "nw": nw, "pat": pat,
                           "F": F, "S": [[int(x) for x in m] for m in S], "frozen_states": fs, "ow": [w],
                           "params": fsprm}


# ---------------------------------------------------------------------------------------------
def stage(num_iter, localise, mix_u):
    if num_iter == 0:
        return "init"
    if not localise:
        return "disentangle"
    return "localise" if mix_u == 1.0 else "localise_mix_u"


def judge(V, F, S, nb, nw, nk):
    """-> (clause, text) of the first violated clause, or None; and the largest residuals"""
    worst = {"isometry": 0.0, "frozen": 0.0, "outside": 0.0}
    if not isinstance(V, dict) or sorted(V.keys()) != list(range(nk)):
        return ("v_matrix_kpoints", f"keys={sorted(V.keys()) if isinstance(V, dict) else type(V)}"), worst
    for ik in range(nk):
        v = np.asarray(V[ik])
        if v.shape != (nb, nw):
            return ("v_matrix_shape", f"ik={ik} shape={v.shape} expected {(nb, nw)}"), worst
        if not np.all(np.isfinite(v)):
            return ("v_matrix_nonfinite", f"ik={ik}"), worst
        g = np.abs(v.T.conj() @ v - np.eye(nw)).max()
        worst["isometry"] = max(worst["isometry"], float(g))
        if g > TOL:
            return ("not_isometry", f"ik={ik} max|V^+V-1|={g:.3e}"), worst
        w = (np.abs(v) ** 2).sum(axis=1)
        for b in range(nb):
            if F[ik][b]:
                d = abs(1 - w[b])
                worst["frozen"] = max(worst["frozen"], float(d))
                if d > TOL:
                    return ("frozen_not_in_span", f"ik={ik} band={b} (VV^+)_bb={w[b]:.12f} row weights={np.round(w, 6).tolist()}"), worst
            if not S[ik][b]:
                d = np.abs(v[b]).max()
                worst["outside"] = max(worst["outside"], float(d))
                if d > TOL:
                    return ("weight_outside_outer", f"ik={ik} band={b} max|V[b,:]|={d:.3e} row weights={np.round(w, 6).tolist()}"), worst
    return None, worst


def real_masks(E, lo, hi, include):
    from wannierberri.utility import select_window_degen
    return tuple(tuple(bool(x) for x in select_window_degen(np.array(Ek), win_min=lo, win_max=hi, include_degen=include))
                 for Ek in E)


def run_case(case, seed):
    from wbmc import synth_w90
    from wbmc.engine import case_id
    from wannierberri.wannierisation.wannierise import wannierise
    lat, mesh, nb, nw, pat = case["lat"], tuple(case["mesh"]), case["nb"], case["nw"], case["pat"]
    nk = mesh_nk(mesh)
    E = energies(pat, nb, nk)
    edges = edge_alphabet(E)
    F, S = case["F"], case["S"]
    frozen_states = case.get("frozen_states", [])
    if isinstance(frozen_states, dict):
        frozen_states = {int(k): v for k, v in frozen_states.items()}

    # every member window through the real selection; group by what the real code selects
    groups = {}
    nsel = 0
    if case["kind"] == "win":
        fsel = {}
        for w in case["fw"]:
            lo, hi = (np.inf, -np.inf) if w is None else (edges[w[0]], edges[w[1]])
            fsel.setdefault(real_masks(E, lo, hi, False), (lo, hi))
            nsel += 1
    else:
        fsel = {None: (np.inf, -np.inf)}
    osel = {}
    for w in case["ow"]:
        lo, hi = edges[w[0]], edges[w[1]]
        osel.setdefault(real_masks(E, lo, hi, True), (lo, hi))
        nsel += 1
    for (fm, fwin), (om, owin) in itertools.product(fsel.items(), osel.items()):
        groups[(fm, om)] = (fwin, owin)

    cid = case_id({k: v for k, v in case.items() if k != "params"})
    rnd_seed = int(synth_w90.zoo.rng_for(seed, "c24-random", cid).integers(0, 2 ** 31 - 1))
    base = synth_w90.Synth(lat, mesh, nb, nw, E, seed)
    runs = 0
    worst = {"isometry": 0.0, "frozen": 0.0, "outside": 0.0}
    cwd = os.getcwd()
    tmp = tempfile.mkdtemp(prefix="wbmc_c24_", dir="/tmp")
    try:
        os.chdir(tmp)
        for (fm, om), (fwin, owin) in groups.items():
            kw = dict(froz_min=fwin[0], froz_max=fwin[1], outer_min=owin[0], outer_max=owin[1],
                      frozen_states=frozen_states, parallel=False, savechk=False, sitesym=False)
            prev = {}
            for init, num_iter, localise, mix_z, mix_u in case["params"]:
                if init in ("restart", "restart_nowin"):
                    if init not in prev:
                        wd0 = base.wandata()
                        if init == "restart":
                            wannierise(wd0, init="amn", num_iter=2, **kw)
                        else:
                            wannierise(wd0, init="amn", num_iter=2, parallel=False, savechk=False)
                        prev[init] = wd0
                        runs += 1
                    wd = synth_w90.clone_wandata(prev[init])
                    real_init = "restart"
                else:
                    wd = base.wandata()
                    real_init = init
                if init == "random":
                    np.random.seed(rnd_seed)
                ret = wannierise(wd, init=real_init, num_wann=nw, num_iter=num_iter, localise=localise,
                                 mix_ratio_z=mix_z, mix_ratio_u=mix_u, **kw)
                runs += 1
                V = wd.chk.v_matrix
                bad, w = judge(V, F, S, nb, nw, nk)
                for k_ in worst:
                    worst[k_] = max(worst[k_], w[k_])
                if bad is None and ret is not V:
                    bad = ("return_value", "wannierise did not return wandata.chk.v_matrix")
                if bad is None and not wd.wannierised:
                    bad = ("not_flagged_wannierised", "wandata.wannierised is False after wannierise")
                if bad is not None:
                    st = stage(num_iter, localise, mix_u)
                    real_f = [[int(x) for x in m] for m in fm] if fm is not None else None
                    return {"ok": False, "key": f"wannierise:{bad[0]}:{st}",
                            "nontrivial": True,
                            "detail": (f"{lat} mesh={mesh} NB={nb} NW={nw} E={E} froz=({fwin[0]},{fwin[1]}) "
                                       f"outer=({owin[0]},{owin[1]}) frozen_states={frozen_states} init={init} "
                                       f"num_iter={num_iter} localise={localise} mix_ratio_z={mix_z} mix_ratio_u={mix_u}: "
                                       f"{bad[1]}; reference frozen={F} selected={S}; "
                                       f"select_window_degen frozen={real_f} "
                                       f"selected={[[int(x) for x in m] for m in om]}")}
    finally:
        os.chdir(cwd)
        left = os.listdir(tmp)
        shutil.rmtree(tmp, ignore_errors=True)
    if left:
        return {"ok": False, "key": "wannierise:wrote_files_with_savechk_False", "detail": f"files {left[:5]}",
                "nontrivial": True}
    nfro = sum(sum(m) for m in F)
    nout = sum(len(m) - sum(m) for m in S)
    return {"ok": True, "nontrivial": bool(nfro or nout),
            "obs": {"runs": runs, "windows_through_select": nsel, "real_selection_groups": len(groups),
                    "frozen_bands": nfro, "bands_outside": nout,
                    "nfrozen_varies_with_k": len({sum(m) for m in F}) > 1,
                    "cutF": bool(case.get("cutF")), "cutO": bool(case.get("cutO")),
                    "max_residual": {k: float(f"{v:.2e}") for k, v in worst.items()}}}


def finish(tier, cases_, results):
    tot = {"wannierise_runs": 0, "window_pairs_through_select_window_degen": 0, "classes_frozen_edge_cuts_multiplet": 0,
           "classes_outer_edge_cuts_multiplet": 0, "classes_nfrozen_varies_with_k": 0, "classes_all_wf_frozen": 0,
           "classes_with_frozen": 0, "classes_with_bands_outside": 0, "frozen_states_cases": 0}
    worst = {"isometry": 0.0, "frozen": 0.0, "outside": 0.0}
    for c, r in zip(cases_, results):
        o = r.get("obs") or {}
        tot["wannierise_runs"] += o.get("runs", 0)
        if c["kind"] == "win":
            tot["window_pairs_through_select_window_degen"] += len(c["fw"]) * len(c["ow"])
        else:
            tot["frozen_states_cases"] += 1
        tot["classes_frozen_edge_cuts_multiplet"] += bool(o.get("cutF"))
        tot["classes_outer_edge_cuts_multiplet"] += bool(o.get("cutO"))
        tot["classes_nfrozen_varies_with_k"] += bool(o.get("nfrozen_varies_with_k"))
        tot["classes_with_frozen"] += bool(o.get("frozen_bands"))
        tot["classes_with_bands_outside"] += bool(o.get("bands_outside"))
        tot["classes_all_wf_frozen"] += any(sum(m) == c["nw"] for m in c["F"])
        for k, v in (o.get("max_residual") or {}).items():
            worst[k] = max(worst[k], v)
    cfg = sorted({(c["lat"], tuple(c["mesh"]), c["nb"], c["nw"], c["pat"]) for c in cases_})
    tot["configurations"] = len(cfg)
    tot["axes"] = {"lattices": sorted({c[0] for c in cfg}), "meshes": sorted({c[1] for c in cfg}),
                   "NB_NW": sorted({(c[2], c[3]) for c in cfg}), "patterns": sorted({c[4] for c in cfg}),
                   "parameter_combinations_per_class": len(cases_[0]["params"]) if cases_ else 0}
    tot["max_residual_seen"] = worst
    tot["tolerance"] = TOL
    return tot
