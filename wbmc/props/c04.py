"""C04 — interpolated k-resolved quantities are periodic in k and gauge independent (random_gauge).

Periodicity: every (system, k) of the alphabets; each case evaluates the tabulators and the predefined
`evaluate_k` quantities at k and at k+G for every G of the G alphabet (and -G), plus one `run()` along a
`Path` whose k_list holds k and k+G (the `k_list` / "slow" Fourier branch).  Oracle: equality with the value at k.

Gauge: systems with exact multiplets (point degeneracy planted at one k, H0 (x) 1_m with generic external
matrices, double_spin of bundled/zoo models, KaneMele at TRIM points, a degenerate k.p Dirac model).  The
random unitaries of `Data_K.UU_K` are *not* random: `scipy.stats.unitary_group` (imported by UU_K at call
time) is replaced by a scripted object answering from `zoo.unitary_alphabet`; for a single k-point every
combination of alphabet letters over the multiplets is enumerated, for a grid whose every point is
degenerate the i-th call gets letter (i+offset) mod |alphabet| for every offset.
Oracle: output with random_gauge=True == output with random_gauge=False; and the multiplets handed to the
seam == the chain-linked groups of the reference energies (threshold 1e-4).
"""
import itertools

import numpy as np

ID = "C04"
LEVEL = "exploration"
RULE = ("periodicity cases = (system, k letter): tabulators + evaluate_k quantities at k vs k+G, G in +-G alphabet; "
        "non-trivial = the system is periodic along a direction where G != 0 (counted per (system,k)). "
        "gauge cases = (system, k letter | grid, unitary letters per multiplet | cyclic offset, output class): "
        "real code with random_gauge=True and the scripted unitary_group seam vs random_gauge=False; "
        "non-trivial = the seam was called for >=1 multiplet and >=1 injected unitary is not the identity "
        "(counted per (system, k|grid, letters, output class))")
ASSUMPTIONS = [
    "unitaries come from zoo.unitary_alphabet (2x2: I, swap, diag(1,i), Hadamard, R(pi/5), generic SU(2); 3x3: I, cyclic, DFT, generic); "
    "covariance under a generating set (phases, swaps, one generic rotation) extends algebraically, arbitrary U(n) is not enumerated",
    "grids whose every k-point is degenerate: the per-call unitary is cyclic in the alphabet (all offsets), not the full product 6^(calls)",
    "multiplet sizes 2 and 3; num_wann <= 4 (6 for one H0(x)1_3 system in thorough); k alphabet of 7 points, G alphabet of 5 vectors and their negatives",
    "exact degeneracies only (gaps 0 or >= 0.1 eV): near-degenerate bands between the 1e-7 (dEig_inv) and 1e-4 (grouping) thresholds are out of scope",
    "outputs whose arrays vanish by symmetry are compared on 1e-11 x |constant_factor| (natural unit of the calculator), all others on 1e-8 x |array|_inf",
    "tetrahedron calculators only in the thorough tier (JIT cost); Der2* tabulators only in thorough",
]

RTOL = 1e-8

GEN = [0.123, -0.271, 0.389]


def _Z(nw, lat, cen, mats, rs="shell1"):
    return {"kind": "zoo", "nw": nw, "lat": lat, "rs": rs, "cen": cen, "mats": mats}


# systems for the periodicity part
PER = {
    "Chiral": {"kind": "model", "name": "Chiral"},
    "Haldane": {"kind": "model", "name": "Haldane"},
    "KaneMele": {"kind": "model", "name": "KaneMele"},
    "zoo3tric": _Z(3, "tric", "generic", "full"),
    "zoo2hex": _Z(2, "hex", "thirds", "core"),
    "zoo2out": _Z(2, "mono", "outside", "core", rs="lopsided"),
    "kp_mass": {"kind": "kp", "name": "mass"},
    "kp_dirac": {"kind": "kp", "name": "dirac"},
}
PER_THOROUGH = {
    "zoo4fcc": _Z(4, "fcc", "half", "full", rs="shell2"),
    "zoo3bcc": _Z(3, "bcc", "shared", "core", rs="lopsided"),
    "zoo1sc": _Z(1, "sc", "generic", "core"),
}

# gauge part: base systems in which a point degeneracy is planted at one k: name -> (spec, multiplet sizes)
POINT = {
    "pd3_21": (_Z(3, "tric", "generic", "full"), [2, 1]),
    "pd3_12": (_Z(3, "tric", "generic", "full"), [1, 2]),
    "pd3_3": (_Z(3, "hex", "thirds", "full"), [3]),
    "pd4_22": (_Z(4, "hex", "generic", "full"), [2, 2]),
    "pd4_121": (_Z(4, "tric", "shared", "full"), [1, 2, 1]),
    # NOT degenerate: two levels 1.6e-4 apart (documented threshold of random_gauge: 1e-4) at +15 / -20 eV -- a relative
    # tolerance would merge them.  No unitary may be drawn, so both runs do the same arithmetic (a true multiplet next
    # to such a pair would make the 1/dE^2 terms amplify rounding to 1e-6: not used)
    "near3_hi": (dict(_Z(3, "tric", "generic", "full"), levels=[15.0, 15.00016, 16.3]), [1, 1, 1]),
    "near3_lo": (dict(_Z(3, "hex", "generic", "full"), levels=[-20.0, -18.0, -17.99984]), [1, 1, 1]),
}
POINT_THOROUGH = {
    "pd4_31": (_Z(4, "mono", "generic", "full"), [3, 1]),
    "pd4_13": (_Z(4, "orth", "half", "full"), [1, 3]),
    "pd4_211": (_Z(4, "fcc", "generic", "full", rs="shell2"), [2, 1, 1]),
    "pd2_2": (_Z(2, "sc", "generic", "full"), [2]),
}
# gauge part: systems whose multiplet structure is the same at every k used: name -> (spec, sizes, k letters)
ALLK = {
    "tensor2x2": ({"kind": "tensor", "nw0": 2, "mult": 2, "lat": "tric", "rs": "shell1", "mats": "full"}, [2, 2], ["gen", "X"]),
    "tensor1x3": ({"kind": "tensor", "nw0": 1, "mult": 3, "lat": "hex", "rs": "shell1", "mats": "full"}, [3], ["gen"]),
    "dbl_zoo2": (dict(_Z(2, "tric", "generic", "nospin"), double=True), [2, 2], ["gen", "M"]),
    "dbl_Chiral": ({"kind": "model", "name": "Chiral", "double": True}, [2, 2], ["gen"]),
    "dbl_Haldane": ({"kind": "model", "name": "Haldane", "double": True}, [2, 2], ["gen2"]),
    "KaneMele": ({"kind": "model", "name": "KaneMele"}, [2, 2], ["G", "X", "M"]),     # TRIM points only
    "kp_dirac": ({"kind": "kp", "name": "dirac"}, [2, 2], ["gen", "gen2"]),
}
ALLK_THOROUGH = {
    "tensor2x3": ({"kind": "tensor", "nw0": 2, "mult": 3, "lat": "mono", "rs": "shell1", "mats": "core"}, [3, 3], ["gen"]),
    "dbl_zoo2hex": (dict(_Z(2, "hex", "thirds", "nospin", rs="shell2"), double=True), [2, 2], ["gen", "third"]),
}
# which output classes exist for a system (band-diagonal formulas are kept apart: one finding key per case)
OUTS = ("main", "qiao", "shift", "injection")


def _tables(tier):
    per, point, allk = dict(PER), dict(POINT), dict(ALLK)
    if tier == "thorough":
        per.update(PER_THOROUGH)
        point.update(POINT_THOROUGH)
        allk.update(ALLK_THOROUGH)
    return per, point, allk


def _all_tables():
    return _tables("thorough")


def _letters(dim):
    from wbmc import kres
    return [n for n, _ in kres.alphabet(dim)]


def cases(tier, seed):
    from wbmc import zoo
    per, point, allk = _tables(tier)
    for sysname in per:
        for kname in zoo.K_ALPHABET:
            yield {"kind": "per", "sys": sysname, "k": kname}
    for sysname in per:
        yield {"kind": "perpath", "sys": sysname}
        if tier == "thorough" or sysname.startswith("kp_") or sysname in ("Chiral", "Haldane"):
            yield {"kind": "persplit", "sys": sysname}
    # gauge, single k (evaluate_k): every combination of letters over the multiplets
    for sysname, (spec, mult) in point.items():
        dims = [m for m in mult if m > 1]
        for kname in (("gen", "G") if tier == "quick" else ("gen", "G", "R", "third")):
            for combo in itertools.product(*[_letters(d) for d in dims]):
                for outs in ("main", "qiao"):
                    yield {"kind": "gk", "sys": sysname, "k": kname, "U": list(combo), "outs": outs}
    for sysname, (spec, dims, knames) in allk.items():
        for kname in knames:
            for combo in itertools.product(*[_letters(d) for d in dims]):
                for outs in ("main", "qiao"):
                    if outs == "qiao" and spec.get("mats") != "full":
                        continue
                    yield {"kind": "gk", "sys": sysname, "k": kname, "U": list(combo), "outs": outs}
    # gauge, run() on the 2x2x2 grid
    for sysname, (spec, mult) in point.items():
        dims = [m for m in mult if m > 1]
        for combo in itertools.product(*[_letters(d) for d in dims]):
            for outs in OUTS:
                yield {"kind": "grun", "sys": sysname, "U": list(combo), "outs": outs}
    for sysname, (spec, dims, knames) in allk.items():
        nl = len(_letters(dims[0]))
        for offset in range(nl):
            for outs in OUTS:
                if outs == "qiao" and spec.get("mats") != "full":
                    continue
                yield {"kind": "grun", "sys": sysname, "offset": offset, "outs": outs}


# ------------------------------------------------------------------------------------------------

def _spec(case):
    per, point, allk = _all_tables()
    name = case["sys"]
    if case["kind"] in ("per", "perpath", "persplit"):
        return dict(per[name]), None
    from wbmc import zoo
    if name in point:
        spec, mult = point[name]
        spec = dict(spec)
        k0 = list(zoo.K_ALPHABET[case["k"]]) if case["kind"] == "gk" else [0.0, 0.0, 0.0]
        spec["pointdeg"] = {"k": k0, "mult": list(mult)}
        if "levels" in spec:
            spec["pointdeg"]["levels"] = spec.pop("levels")
        return spec, [m for m in mult if m > 1]
    spec, dims, _ = allk[name]
    return dict(spec), list(dims)


def _outclass(name):
    n = name.split("/")[-1]
    if "qiao" in n:
        return "qiao"
    if n == "ShiftCurrent":
        return "shift"
    if n == "InjectionCurrent":
        return "injection"
    return "main"


def _site(name):
    """finding key component: the formula / calculator an output belongs to"""
    n = name.split("/")[-1]
    if "@band" in n:
        return n.split("@")[0] + ":select_bands"
    if "qiao" in n:
        return "SpinVelocity_qiao"
    return n


_TIER = {"tier": "quick"}


def setup(tier, seed):
    """parent process, before the fork: first-call overheads (imports, Grid machinery) and, for the thorough
    tier, the numba compilation of the tetrahedron weights"""
    from wbmc import kres
    from wannierberri.calculators import static as st
    _TIER["tier"] = tier
    s = kres.build_system(_Z(2, "sc", "generic", "core"), 0)
    Ef = np.linspace(-1, 1, 3)
    calcs = {"CumDOS": st.CumDOS(Efermi=Ef)}
    if tier == "thorough":
        calcs["AHC_tetra"] = st.AHC(Efermi=Ef, tetra=True)
    kres.run_grid(s, calcs, "c04")
    kres.build_system({"kind": "model", "name": "Chiral"}, 0)      # imports pythtb (slow) once, before the fork
    kres.eval_k(s, GEN, kres.tabulators(s, "full"))


def _tab_level(case):
    return "deep" if _TIER["tier"] == "thorough" else "full"


def _select(calcs, outs):
    return {n: c for n, c in calcs.items() if _outclass(n) == outs}


def _run_calcs(system, outs):
    """calculators of one output class for run(): integrators + one TabulatorAll (main, qiao)"""
    from wbmc import kres
    from wannierberri.calculators import tabulate
    Ef, om = kres.energy_windows(system, kres.grid_kpoints(kres.fft_shape(system)))
    ints = _select(kres.integrators(system, Ef, om, "full", tetra=(_TIER["tier"] == "thorough")), outs)
    tabs = _select(kres.tabulators(system, "full"), outs)
    if outs == "main":
        tabs.pop("Energy", None)
        # band-resolved variants (select_bands): one band out of a multiplet must still give a gauge-independent number
        from wannierberri.calculators import static as st
        nb = system.num_wann
        for b in sorted({0, 1, nb - 1} & set(range(nb))):
            # (selection of bands is implemented for the Fermi-surface calculators only)
            for cname in ("DOS", "Ohmic_FermiSurf", "BerryDipole_FermiSurf", "GME_spin_FermiSurf", "GME_orb_FermiSurf", "DOS_tetra"):
                if cname in ints:
                    proto = ints[cname]
                    kw = dict(Efermi=proto.Efermi, select_bands=np.array([b]), tetra=proto.tetra)
                    if getattr(proto, "kwargs_formula", None):
                        kw["kwargs_formula"] = dict(proto.kwargs_formula)
                    ints[f"{cname}@band{b}"] = getattr(st, cname.replace("_tetra", ""))(**kw)
    calcs = dict(ints)
    if tabs:
        calcs["tab"] = tabulate.TabulatorAll(tabs, mode="grid")
    return calcs


_REF = {}


def _ref(key, fn):
    if key not in _REF:
        _REF[key] = fn()
    return _REF[key]


def _ref_groups(E, thresh=1e-4):
    """independent model of Data_K.degen: chain-linked multiplets (gap <= thresh), sizes > 1, bottom to top"""
    sizes = []
    n = 1
    for a, b in zip(E[:-1], E[1:]):
        if b - a > thresh:
            if n > 1:
                sizes.append(n)
            n = 1
        else:
            n += 1
    if n > 1:
        sizes.append(n)
    return sizes


def _fmt(bad):
    return "; ".join(f"{n}: |diff|={d:.3e} scale={s:.3e} {msg}" for n, d, s, msg in bad[:4])


# ------------------------------------------------------------------------------------------------
#  periodicity
# ------------------------------------------------------------------------------------------------

QUANTITIES = ("energy", "band_gradients", "berry_curvature", "berry_curvature_internal_terms",
              "berry_curvature_external_terms", "spin")


def _eval_all(system, k, level):
    import wannierberri as wb
    from wbmc import kres
    calcs = kres.tabulators(system, level)
    out = kres.eval_k(system, k, calcs)
    qs = [q for q in QUANTITIES if q != "spin" or kres.has(system, "SS")]
    res = wb.evaluate_k(system, k=np.array(k, dtype=float), quantities=qs, return_single_as_dict=True)
    for q, v in res.items():
        out["q:" + q] = np.array(v)
    units = kres.units_of(calcs)
    return out, units


def _G_list():
    from wbmc import zoo
    Gs = [tuple(g) for g in zoo.G_ALPHABET]
    return Gs + [tuple(-x for x in g) for g in Gs]


def run_per(case, seed):
    from wbmc import kres, zoo
    spec, _ = _spec(case)
    s = kres.build_system(spec, seed)
    k = np.array(zoo.K_ALPHABET[case["k"]], dtype=float)
    level = "deep" if _TIER["tier"] == "thorough" else "full"
    base, units = _eval_all(s, k, level)
    per = np.array(s.periodic, dtype=bool)
    for G in _G_list():
        got, _ = _eval_all(s, k + np.array(G, dtype=float), level)
        bad = kres.diff_report(base, got, RTOL, units)
        if bad:
            return {"ok": False, "key": "periodicity:" + _site(bad[0][0]), "nontrivial": True,
                    "detail": f"system={case['sys']} k={k.tolist()} G={list(G)}: {_fmt(bad)}"}
    return {"ok": True, "nontrivial": ("per", case["sys"], case["k"]) if per.any() else False,
            "obs": {"outputs": len(base), "G": len(_G_list())}}


def run_persplit(case, seed):
    """k and k+G tabulated in SEPARATE one-point Path runs (inside one tabulation self_to_path identifies equivalent
    k-points, and grid mode reduces k modulo 1 before the system sees it): the system's own wrapping of k is exercised,
    in particular on the faces of a k.p box (half-integer reduced coordinates)"""
    import os
    import wannierberri as wb
    from wannierberri.calculators import tabulate
    from wbmc import kres, zoo
    spec, _ = _spec(case)
    s = kres.build_system(spec, seed)
    ks = [np.array(v, dtype=float) for v in zoo.K_ALPHABET.values()]
    Gs = [np.array(g, dtype=float) for g in _G_list()]

    def one(k):
        tabs = kres.tabulators(s, "full")
        tabs.pop("Energy", None)
        calc = {"tab": tabulate.TabulatorAll(tabs, mode="path")}
        with kres.rundir("c04") as d:
            res = wb.run(s, grid=wb.Path(s, k_list=[list(k)]), calculators=calc, parallel=False,
                         fout_name=os.path.join(d, "result"), file_Klist_path=os.path.join(d, "_tmp_wb"),
                         print_progress_step_time=1e9)
            arr = kres.to_arrays(res.results)
        arr.pop("tab/kpoints")
        return {n: a[0] for n, a in arr.items()}, kres.units_of(calc)
    n = 0
    for k in ks:
        base, units = one(k)
        for G in Gs:
            got, _ = one(k + G)
            n += 1
            bad = kres.diff_report(base, got, RTOL, units)
            if bad:
                return {"ok": False, "key": "periodicity:separate_paths:" + _site(bad[0][0]), "nontrivial": True,
                        "detail": f"system={case['sys']} k={k.tolist()} G={G.tolist()} (two one-point Path runs): {_fmt(bad)}"}
    return {"ok": True, "nontrivial": ("persplit", case["sys"]), "obs": {"pairs": n}}


def run_perpath(case, seed):
    """run() along a Path holding k and k+G for the whole alphabets: the k_list ('slow') Fourier branch"""
    import os
    import wannierberri as wb
    from wannierberri.calculators import tabulate
    from wbmc import kres, zoo
    spec, _ = _spec(case)
    s = kres.build_system(spec, seed)
    ks = [np.array(v, dtype=float) for v in zoo.K_ALPHABET.values()]
    Gs = [np.array(g, dtype=float) for g in _G_list()]
    klist = [k for k in ks] + [k + G for k in ks for G in Gs]
    tabs = kres.tabulators(s, "full")
    tabs.pop("Energy", None)
    calc = {"tab": tabulate.TabulatorAll(tabs, mode="path")}
    units = kres.units_of(calc)
    with kres.rundir("c04") as d:
        path = wb.Path(s, k_list=klist)
        res = wb.run(s, grid=path, calculators=calc, parallel=False, fout_name=os.path.join(d, "result"),
                     file_Klist_path=os.path.join(d, "_tmp_wb"), print_progress_step_time=1e9)
        arr = kres.to_arrays(res.results)
    kp = arr.pop("tab/kpoints")
    if kp.shape != (len(klist), 3) or np.abs(kp - np.array(klist)).max() > 1e-12:
        return {"ok": False, "key": "periodicity:path_kpoints", "detail": f"system={case['sys']}: tabulated k-points differ from the path"}
    nk = len(ks)
    for ik in range(nk):
        base = {n: a[ik] for n, a in arr.items()}
        for ig in range(len(Gs)):
            got = {n: a[nk + ik * len(Gs) + ig] for n, a in arr.items()}
            bad = kres.diff_report(base, got, RTOL, units)
            if bad:
                return {"ok": False, "key": "periodicity:path:" + _site(bad[0][0]), "nontrivial": True,
                        "detail": f"system={case['sys']} k={ks[ik].tolist()} G={Gs[ig].tolist()} (Path/k_list): {_fmt(bad)}"}
    return {"ok": True, "nontrivial": ("perpath", case["sys"]), "obs": {"points": len(klist), "outputs": len(arr)}}


# ------------------------------------------------------------------------------------------------
#  gauge
# ------------------------------------------------------------------------------------------------

def _chooser(case, overflow):
    from wbmc import kres
    if "U" in case:
        names = list(case["U"])

        def choose(i, dim):
            al = dict(kres.alphabet(dim))
            if i >= len(names) or names[i] not in al:
                overflow.append((i, dim))
                return "I", al["I"]
            return names[i], al[names[i]]
    else:
        off = int(case["offset"])

        def choose(i, dim):
            al = kres.alphabet(dim)
            return al[(i + off) % len(al)]
    return choose


def _gauge_fail_exc(case, e):
    return {"ok": False, "key": f"random_gauge:raises:{type(e).__name__}", "nontrivial": False,
            "detail": f"system={case['sys']} {case.get('k', 'grid')} parameters_K={{'random_gauge': True}} raised "
                      f"{type(e).__name__}: {e}"}


def run_gk(case, seed):
    from wbmc import kres, zoo
    spec, dims = _spec(case)
    s = kres.build_system(spec, seed)
    k = np.array(zoo.K_ALPHABET[case["k"]], dtype=float)
    outs = case["outs"]
    level = _tab_level(case)

    def calcs():
        c = _select(kres.tabulators(s, level), outs)
        c.setdefault("Energy", kres.tabulators(s, "core")["Energy"])
        return c
    if len(calcs()) <= 1:
        return {"ok": True, "nontrivial": False, "obs": "no output of this class for the system"}
    ref = _ref(("gk", case["sys"], case["k"], outs, seed, level), lambda: kres.eval_k(s, k, calcs()))
    units = kres.units_of(calcs())
    E = np.array(ref["Energy"]).reshape(-1)
    want = _ref_groups(E)
    if want != dims:
        return {"ok": False, "key": "harness:premise_multiplets", "nontrivial": False,
                "detail": f"system={case['sys']} k={k.tolist()}: planted multiplets {dims}, energies {E.tolist()} give {want}"}
    overflow = []
    try:
        with kres.unitary_seam(_chooser(case, overflow)) as fake:
            got = kres.eval_k(s, k, calcs(), parameters_K={"random_gauge": True})
    except (AttributeError, NameError, TypeError) as e:
        return _gauge_fail_exc(case, e)
    seen = [d for d, _ in fake.calls]
    if not seen and want and not overflow:
        # the scripted source was never consulted (another random source, or the option is a no-op): the unitaries
        # cannot be enumerated; only the comparison below remains (not a violation of the property by itself)
        bad = kres.diff_report(ref, got, RTOL, units)
        if bad:
            return {"ok": False, "key": "gauge:" + _site(bad[0][0]), "nontrivial": False,
                    "detail": f"system={case['sys']} evaluate_k k={k.tolist()}: random_gauge=True vs False (unitaries not "
                              f"scripted): {_fmt(bad)}"}
        return {"ok": True, "nontrivial": False, "obs": "unitary seam not reached"}
    if seen != want or overflow:
        return {"ok": False, "key": "random_gauge:degenerate_groups", "nontrivial": False,
                "detail": f"system={case['sys']} k={k.tolist()} E={E.tolist()}: unitary_group.rvs called for multiplets "
                          f"{seen}, chain-linked groups (1e-4) are {want}"}
    bad = kres.diff_report(ref, got, RTOL, units)
    nontriv = ("gk", case["sys"], case["k"], tuple(case["U"]), outs) if any(n != "I" for _, n in fake.calls) else False
    if bad:
        return {"ok": False, "key": "gauge:" + _site(bad[0][0]), "nontrivial": nontriv,
                "detail": f"system={case['sys']} evaluate_k k={k.tolist()} multiplets={want} unitaries={case['U']}: "
                          f"random_gauge=True vs False: {_fmt(bad)}"}
    return {"ok": True, "nontrivial": nontriv, "obs": {"calls": fake.calls, "outputs": len(ref)}}


def run_grun(case, seed):
    from wbmc import kres
    spec, dims = _spec(case)
    s = kres.build_system(spec, seed)
    outs = case["outs"]
    if not _run_calcs(s, outs):
        return {"ok": True, "nontrivial": False, "obs": "no output of this class for the system"}
    ref = _ref(("grun", case["sys"], outs, seed, _TIER["tier"]),
               lambda: kres.run_grid(s, _run_calcs(s, outs), "c04"))
    units = kres.units_of(_run_calcs(s, outs))
    # expected seam calls: chain-linked groups of the independent explicit-sum energies at every grid point,
    # in the order of Data_K.kpoints_all (the FFT grid order, x slowest)
    nk = kres.fft_shape(s)
    want = []
    from wannierberri.system.system_kp import SystemKP
    for kpt in kres.grid_kpoints(nk):
        Ek = np.linalg.eigvalsh(s.Ham(kpt)) if isinstance(s, SystemKP) else np.linalg.eigvalsh(kres.hk_from_R(s, kpt))
        want += _ref_groups(Ek)
    if "U" in case and want != dims:
        return {"ok": False, "key": "harness:premise_multiplets", "nontrivial": False,
                "detail": f"system={case['sys']}: planted multiplets {dims} at Gamma, grid energies give {want}"}
    overflow = []
    try:
        with kres.unitary_seam(_chooser(case, overflow)) as fake:
            got = kres.run_grid(s, _run_calcs(s, outs), "c04", parameters_K={"random_gauge": True})
    except (AttributeError, NameError, TypeError) as e:
        return _gauge_fail_exc(case, e)
    seen = [d for d, _ in fake.calls]
    if not seen and want and not overflow:
        bad = kres.diff_report(ref, got, RTOL, units)
        if bad:
            return {"ok": False, "key": "gauge:" + _site(bad[0][0]), "nontrivial": False,
                    "detail": f"system={case['sys']} run() grid NKFFT={list(nk)}: random_gauge=True vs False (unitaries "
                              f"not scripted): {_fmt(bad)}"}
        return {"ok": True, "nontrivial": False, "obs": "unitary seam not reached"}
    if seen != want or overflow:
        return {"ok": False, "key": "random_gauge:degenerate_groups", "nontrivial": False,
                "detail": f"system={case['sys']} grid {nk}: unitary_group.rvs called for multiplets {seen}, "
                          f"chain-linked groups (1e-4) of the grid energies are {want}"}
    bad = kres.diff_report(ref, got, RTOL, units)
    tag = tuple(case["U"]) if "U" in case else ("offset", case["offset"])
    nontriv = ("grun", case["sys"], tag, outs) if any(n != "I" for _, n in fake.calls) else False
    if bad:
        return {"ok": False, "key": "gauge:" + _site(bad[0][0]), "nontrivial": nontriv,
                "detail": f"system={case['sys']} run() grid NKFFT={list(nk)} multiplets per call={seen[:6]}... unitaries="
                          f"{[n for _, n in fake.calls][:8]}: random_gauge=True vs False: {_fmt(bad)}"}
    return {"ok": True, "nontrivial": nontriv, "obs": {"calls": len(fake.calls), "outputs": len(ref)}}


def run_case(case, seed):
    kind = case["kind"]
    if kind == "per":
        return run_per(case, seed)
    if kind == "perpath":
        return run_perpath(case, seed)
    if kind == "persplit":
        return run_persplit(case, seed)
    if kind == "gk":
        return run_gk(case, seed)
    return run_grun(case, seed)


def finish(tier, cases, results):
    from collections import Counter
    kinds = Counter(c["kind"] for c in cases)
    per, point, allk = _tables(tier)
    return {"axes": {"periodicity_systems": len(per), "k_letters": 7, "G_vectors": 10,
                     "point_degenerate_systems": len(point), "all_k_degenerate_systems": len(allk),
                     "unitary_letters": {"2": 6, "3": 4}, "output_classes": list(OUTS)},
            "cases_by_kind": dict(kinds)}
