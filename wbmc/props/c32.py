"""C32 — tight-binding imports reproduce the source model.

Two exhaustive products, every element run through the real `System_R.from_pythtb / from_tbmodels`
and `evaluate_k(quantities=['energy'])`:

* **builders**: every bundled builder of `wannierberri.models` over the full grid of its parameters
  (3 values per parameter in `thorough`, 2 in `quick`; always including a non-default value of every
  parameter).  Oracle: energies of the imported system == energies of the source model
  (`TBModel.solve_ham` / `tbmodels.Model.eigenval`) on the k alphabet.  For the Haldane pair
  (`Haldane_ptb(p)`, `Haldane_tbm(p)`, "same as" by docstring): identical spectra, identical imported
  systems (lattice, centres, Ham_R by R-vector) and both equal to a closed-form Haldane Hamiltonian
  written here; a mismatch is attributed to the parameter(s) the deviating builder ignores.
  `model_1d_pythtb(spinor_manual=True/False)` (documented as two encodings of one model): same spectrum.
* **hand-built models**: dim {1,2,3} x orbitals {1,2,3} x every subset of a hopping-slot alphabet
  (R=0 inter-orbital, +R intra, +R inter with i>j, its conjugate partner given explicitly, last-axis,
  mixed-sign R, long R, duplicate added with mode='add') x on-site {none, generic} x
  {PythTB spinless, PythTB spinful (2x2 blocks), TBmodels}.  Oracle: imported energies == source model;
  the source model itself is cross-checked against an independent Bloch sum written here.
"""
import itertools

import numpy as np

ID = "C32"
LEVEL = "exploration"
RULE = ("cases = (bundled builder, point of its full parameter grid) and (library/spin, dim, norb, subset of the "
        "hopping-slot alphabet, on-site kind, amplitude kind); each case imports the model with the real "
        "from_pythtb/from_tbmodels and compares evaluate_k energies with the source model at every k of the alphabet; "
        "non-trivial = builder case with >=1 non-default parameter (or a parameter-free spinful builder), "
        "hand case with >=1 hopping")
ASSUMPTIONS = [
    "PythTB 2.0.0 / TBmodels 1.4.3 as installed; PythTB parameterised (symbolic) terms are not used",
    "TBmodels models carry a unit cell (uc) and dim<=3 (the importer needs a lattice)",
    "CuMnAs_2d: the Neel vector (nx,ny,nz)=(0,0,0) is excluded (the builder normalises it)",
    "KaneMele_ptb only with its two documented arguments 'even'/'odd'; model_1d_pythtb with explicit hoppings",
    "hand-built alphabet: <=3 orbitals, <=9 hopping slots, R components in [-3,2]; energies compared on 6 k-points",
    "energies are read with tabulate.Energy(degen_thresh=-1) (the default tabulator averages bands closer than 1e-4)",
    "quick: hopping subsets of size <=3 and 2 values per builder parameter; thorough: all subsets, 3 values",
]

TOL = 1e-10

# ----------------------------------------------------------------------------------------------
# k alphabet (reduced coordinates; truncated to the model dimension, padded with 0 for wannierberri)
K_ALPHABET = [
    ("G", (0.0, 0.0, 0.0)),
    ("X", (0.5, 0.0, 0.0)),
    ("R", (0.5, 0.5, 0.5)),
    ("third", (1 / 3., 1 / 3., 0.0)),
    ("gen", (0.123, -0.271, 0.389)),
    ("gen+G", (1.123, -1.271, 2.389)),
]


def kpoints(dim):
    out = []
    for name, k in K_ALPHABET:
        kd = list(k[:dim])
        out.append((name, kd, kd + [0.0] * (3 - dim)))
    return out


def wb_energies(system, k3):
    import wannierberri as wb
    from wannierberri.calculators import tabulate
    # degen_thresh=-1: the default Energy tabulator (degen_thresh=1e-4) reports the *mean* energy of every group of
    # bands closer than 1e-4, which is its documented semantics and not an import error
    calc = tabulate.Energy(degen_thresh=-1, print_comment=False)
    res = wb.evaluate_k(system, k=tuple(k3), calculators={"E": calc})
    return np.sort(np.array(res.data[0], dtype=float).reshape(-1))


def src_energies(model, lib, kd):
    if lib == "pythtb":
        return np.sort(np.array(model.solve_ham(list(kd)), dtype=float).reshape(-1))
    return np.sort(np.array(model.eigenval(list(kd)), dtype=float).reshape(-1))


def import_model(model, lib, **kw):
    from wannierberri.system.system_R import System_R
    if lib == "pythtb":
        return System_R.from_pythtb(model, silent=True, **kw)
    return System_R.from_tbmodels(model, silent=True, **kw)


def differs(a, b, tol=TOL):
    a = np.asarray(a)
    b = np.asarray(b)
    if a.shape != b.shape:
        return True
    return bool(np.abs(a - b).max() > tol * max(1.0, np.abs(b).max()))


# ----------------------------------------------------------------------------------------------
# builders
PI = float(np.pi)
H8 = {"h1": [0.35, -0.2, 0.15, 0.4, 0.25, 0.3, -0.1, 0.45],
      "h2": [1.0, 0.0, 0.0, 0.0, 0.5, 0.0, 0.0, 0.0],
      "h3": [0.0, 0.3, -0.7, 0.2, 0.0, 0.6, 0.1, -0.5]}

# name -> (library, ordered list of (parameter, [default, non-default, second non-default]))
BUILDERS = {
    "Haldane_ptb": ("pythtb", [("delta", [0.2, 0.7, -0.4]), ("hop1", [-1.0, -0.6, 0.8]),
                               ("hop2", [0.15, 0.3, -0.05]), ("phi", [PI / 2, 0.3, -1.1])]),
    "Haldane_tbm": ("tbmodels", [("delta", [0.2, 0.7, -0.4]), ("hop1", [-1.0, -0.6, 0.8]),
                                 ("hop2", [0.15, 0.3, -0.05]), ("phi", [PI / 2, 0.3, -1.1])]),
    "Chiral": ("pythtb", [("delta", [2, 0.5, -1.0]), ("hop1", [1, 0.7, -1.2]), ("hop2", [1 / 3, 0.1, 0.5]),
                          ("phi", [PI / 10, 0.7, -0.4]), ("hopz_right", [0.0, 0.15, [0.1, 0.2]]),
                          ("hopz_left", [0.2, 0.0, [0.0, -0.3]]), ("hopz_vert", [0.0, 0.25, [0.1, -0.1]])]),
    "SSH_ptb": ("pythtb", [("delta", [0.2, 0.0, -0.6]), ("hop1", [1.0, 0.4, -0.8]), ("hop2", [0.15, 1.2, -0.3])]),
    "CuMnAs_2d": ("pythtb", [("nx", [0, 1, -0.5]), ("ny", [1, 0, 0.3]), ("nz", [0, 1, 0.7]),
                             ("hop1", [1, 0.6, -0.9]), ("hop2", [0.08, 0.3, -0.2]), ("l", [0.8, 0.0, -0.5]),
                             ("J", [0.6, 1.0, -0.3]), ("dt", [0.0, 0.01, -0.2])]),
    "KaneMele_ptb": ("pythtb", [("topological", ["even", "odd"])]),
    "Chiral_OSD": ("pythtb", []),
    "model_1d_pythtb": ("pythtb", [("Delta", [1, 0.3, -0.5]), ("spinor_manual", [False, True]),
                                   ("hoppings", ["h1", "h2", "h3"])]),
}
SPINFUL_BUILDERS = {"KaneMele_ptb", "Chiral_OSD", "model_1d_pythtb"}


def _val(v):
    """JSON value -> python value (complex numbers are stored as [re, im])"""
    if isinstance(v, list) and len(v) == 2:
        return complex(v[0], v[1])
    return v


def build(builder, params):
    from wannierberri import models
    kw = {k: _val(v) for k, v in params.items()}
    if builder == "model_1d_pythtb":
        kw["hoppings"] = np.array(H8[kw["hoppings"]], dtype=float)
    if builder == "KaneMele_ptb":
        return models.KaneMele_ptb(kw["topological"])
    return getattr(models, builder)(**kw)


def builder_cases(tier):
    nval = 2 if tier == "quick" else 3
    for name, (lib, plist) in BUILDERS.items():
        names = [p for p, _ in plist]
        vals = [v[:nval] if name not in ("KaneMele_ptb",) else v for _, v in plist]
        if name == "model_1d_pythtb":
            vals = [plist[0][1][:nval], plist[1][1], plist[2][1][:nval]]
        for combo in itertools.product(*vals):
            params = dict(zip(names, combo))
            if name == "CuMnAs_2d" and params["nx"] == 0 and params["ny"] == 0 and params["nz"] == 0:
                continue
            yield {"kind": "builder", "builder": name, "params": params}


def haldane_reference(kd, delta, hop1, hop2, phi):
    """closed form: H = d0 + d.sigma for the hoppings listed in the docstring of Haldane_tbm"""
    k1, k2 = kd
    e = lambda n1, n2: np.exp(2j * np.pi * (n1 * k1 + n2 * k2))
    t2 = hop2 * np.exp(1j * phi)
    # A sublattice: t2 on (1,0), t2* on (1,-1) and (0,1)   (+h.c.)
    hAA = -delta + 2 * np.real(t2 * e(1, 0) + np.conj(t2) * e(1, -1) + np.conj(t2) * e(0, 1))
    hBB = +delta + 2 * np.real(t2 * e(1, -1) + t2 * e(0, 1) + np.conj(t2) * e(1, 0))
    # <A,0|H|B,R>: hop1 at R=0 ; <B,0|H|A,R> = hop1 at (1,0),(0,1)  -> <A|H|B> picks the conjugates at -R
    hAB = hop1 * (1 + np.conj(e(1, 0)) + np.conj(e(0, 1)))
    H = np.array([[hAA, hAB], [np.conj(hAB), hBB]])
    return np.sort(np.linalg.eigvalsh(H))


def system_dict(system):
    """R -> Ham matrix, zero blocks dropped"""
    out = {}
    ham = system.get_R_mat("Ham")
    for iR, R in enumerate(system.rvec.iRvec):
        if np.abs(ham[iR]).max() > 1e-14:
            out[tuple(int(x) for x in R)] = np.array(ham[iR])
    return out


def same_system(s1, s2):
    if differs(s1.real_lattice, s2.real_lattice, 1e-12):
        return "real_lattice"
    if s1.num_wann != s2.num_wann:
        return "num_wann"
    d = (s1.wannier_centers_red - s2.wannier_centers_red)
    if np.abs(d - np.round(d)).max() > 1e-12:
        return "wannier_centers"
    d1, d2 = system_dict(s1), system_dict(s2)
    for R in sorted(set(d1) | set(d2)):
        a = d1.get(R, np.zeros((s1.num_wann,) * 2))
        b = d2.get(R, np.zeros((s1.num_wann,) * 2))
        if np.abs(a - b).max() > 1e-12:
            return f"Ham_R{list(R)}"
    return None


def ignored_parameters(builder, lib, params):
    """parameters whose change does not move the builder's own spectrum although it moves the closed form"""
    plist = BUILDERS[builder][1]
    ign = []
    for name, vals in plist:
        other = vals[0] if params[name] != vals[0] else vals[1]
        p2 = dict(params)
        p2[name] = other
        moved_model = moved_ref = False
        m1, m2 = build(builder, params), build(builder, p2)
        for _, kd, _ in kpoints(2):
            if differs(src_energies(m1, lib, kd), src_energies(m2, lib, kd), 1e-9):
                moved_model = True
            if differs(haldane_reference(kd, **params), haldane_reference(kd, **p2), 1e-9):
                moved_ref = True
        if moved_ref and not moved_model:
            ign.append(name)
    return ign


def run_builder(case):
    name = case["builder"]
    params = case["params"]
    lib, plist = BUILDERS[name]
    defaults = {p: v[0] for p, v in plist}
    nondefault = [p for p in params if params[p] != defaults[p]]
    if name in ("KaneMele_ptb",):
        nondefault = ["topological"]
    nontrivial = bool(nondefault) or name in SPINFUL_BUILDERS
    model = build(name, params)
    dim = 3 if name in ("Chiral", "Chiral_OSD") else (1 if name in ("SSH_ptb", "model_1d_pythtb") else 2)
    spinful = name in SPINFUL_BUILDERS and not (name == "model_1d_pythtb" and params["spinor_manual"])
    variants = [{}] + ([{"spin": True}] if spinful else [])
    nk = 0
    for kw in variants:
        system = import_model(model, lib, **kw)
        for kname, kd, k3 in kpoints(dim):
            es = src_energies(model, lib, kd)
            ew = wb_energies(system, k3)
            nk += 1
            if differs(ew, es):
                return {"ok": False, "key": f"{name}:import:energies", "nontrivial": nontrivial,
                        "detail": f"{name}({params}) imported with {kw}: k={kd} ({kname}) wannierberri {ew.tolist()} "
                                  f"vs source model {es.tolist()}"}
    if name in ("Haldane_ptb", "Haldane_tbm"):
        other = "Haldane_tbm" if name == "Haldane_ptb" else "Haldane_ptb"
        olib = BUILDERS[other][0]
        omodel = build(other, params)
        for kname, kd, k3 in kpoints(2):
            es = src_energies(model, lib, kd)
            eo = src_energies(omodel, olib, kd)
            er = haldane_reference(kd, **params)
            bad_self, bad_other = differs(es, er), differs(eo, er)
            if bad_self:
                ign = ignored_parameters(name, lib, params)
                key = f"{name}:ignores:{','.join(ign)}" if ign else f"{name}:differs_from_closed_form"
                return {"ok": False, "key": key, "nontrivial": nontrivial,
                        "detail": f"{name}({params}) at k={kd}: E={es.tolist()} but {other}(same parameters) gives "
                                  f"{eo.tolist()} and the closed-form Haldane model {er.tolist()}"
                                  + (f"; the builder's spectrum does not depend on {ign}" if ign else "")}
            if not bad_other and differs(es, eo):
                return {"ok": False, "key": f"Haldane:ptb_vs_tbm:energies", "nontrivial": nontrivial,
                        "detail": f"{params} k={kd}: {name} {es.tolist()} vs {other} {eo.tolist()}"}
        # the partner's own deviation is reported by the partner's case; compare systems only when both are right
        if all(not differs(src_energies(omodel, olib, kd), haldane_reference(kd, **params)) for _, kd, _ in kpoints(2)):
            why = same_system(import_model(model, lib), import_model(omodel, olib))
            if why:
                return {"ok": False, "key": f"Haldane:ptb_vs_tbm:system:{why.split('[')[0]}", "nontrivial": nontrivial,
                        "detail": f"{params}: imported Haldane_ptb and Haldane_tbm differ in {why}"}
    if name == "model_1d_pythtb" and not params["spinor_manual"]:
        p2 = dict(params)
        p2["spinor_manual"] = True
        m2 = build(name, p2)
        s1, s2 = import_model(model, lib), import_model(m2, lib)
        for kname, kd, k3 in kpoints(1):
            e1, e2 = wb_energies(s1, k3), wb_energies(s2, k3)
            if differs(e1, e2):
                return {"ok": False, "key": "model_1d_pythtb:spinor_vs_manual", "nontrivial": nontrivial,
                        "detail": f"{params} k={kd}: spinor {e1.tolist()} vs manual {e2.tolist()}"}
    return {"ok": True, "nontrivial": nontrivial, "obs": {"k_evaluations": nk, "nondefault": nondefault}}


# ----------------------------------------------------------------------------------------------
# hand-built models
LATS = {1: [[1.3]], 2: [[1.0, 0.1], [0.3, 0.9]], 3: [[1.0, 0.1, 0.2], [0.3, 0.9, -0.1], [-0.2, 0.25, 0.8]]}
ORBS = [[0.11, 0.23, 0.37], [1.25, -0.5, 0.6], [2 / 3., 1 / 3., 0.5]]   # second one outside the home cell
SLOT_NAMES = ("R0_01", "e1_00", "e1_n0", "-e1_0n", "ed_nn", "e1-e2_0n", "long_00", "R0_20", "e1_00_add")


def slot_table(dim, norb):
    """name -> (i, j, R, mode/flags); only the slots that exist for (dim, norb)"""
    n = norb - 1
    e1 = [1, 0, 0][:dim]
    me1 = [-1, 0, 0][:dim]
    zero = [0, 0, 0][:dim]
    ed = [0] * (dim - 1) + [1]
    long_ = {1: [2], 2: [2, -1], 3: [2, 0, -3]}[dim]
    t = {}
    if norb >= 2:
        t["R0_01"] = (0, 1, zero, {})
    t["e1_00"] = (0, 0, e1, {})
    if norb >= 2:
        t["e1_n0"] = (n, 0, e1, {})
        t["-e1_0n"] = (0, n, me1, {"conj_of": "e1_n0"})   # the conjugate partner of e1_n0, given explicitly
    if dim >= 2:
        t["ed_nn"] = (n, n, ed, {})
        t["e1-e2_0n"] = (0, n, [1, -1, 0][:dim], {})
    t["long_00"] = (0, 0, long_, {})
    if norb >= 3:
        t["R0_20"] = (2, 0, zero, {})
    t["e1_00_add"] = (0, 0, e1, {"add": True})
    return t


def amplitude(seed, slot, spin, kind):
    from wbmc import zoo
    if kind == "unit":
        return 1.0 if not spin else np.array([1.0, 0, 0, 0])
    if kind == "imag":
        return 1j if not spin else np.array([0, 0.5, 0.5j, 1j])
    rng = zoo.rng_for(seed, "c32", slot, bool(spin))
    if not spin:
        return complex(0.6 * rng.normal(), 0.6 * rng.normal())
    return 0.5 * (rng.normal(size=(2, 2)) + 1j * rng.normal(size=(2, 2)))


def onsite_values(seed, norb, spin, kind):
    from wbmc import zoo
    if kind == "none":
        return None
    rng = zoo.rng_for(seed, "c32", "onsite", norb, bool(spin))
    if not spin:
        return [float(x) for x in rng.normal(size=norb)]
    return [rng.normal(size=4) for _ in range(norb)]   # real Pauli 4-vectors -> Hermitian blocks


PAULI = np.array([[[1, 0], [0, 1]], [[0, 1], [1, 0]], [[0, -1j], [1j, 0]], [[1, 0], [0, -1]]], dtype=complex)


def as_block(a, spin):
    if not spin:
        return np.array([[a]], dtype=complex)
    a = np.asarray(a)
    if a.shape == ():
        return complex(a) * np.eye(2, dtype=complex)
    if a.shape == (4,):
        return np.einsum("a,aij->ij", a.astype(complex), PAULI)
    return a.astype(complex)


def hand_spec(case, seed):
    dim, norb, spin = case["dim"], case["norb"], case["spin"]
    table = slot_table(dim, norb)
    hops = []
    for name in case["hops"]:
        i, j, R, flags = table[name]
        hops.append((name, i, j, R, flags, amplitude(seed, name, spin, case["amp"])))
    return hops, onsite_values(seed, norb, spin, case["onsite"])


def reference_energies(case, hops, onsite, kd):
    dim, norb, spin = case["dim"], case["norb"], case["spin"]
    b = 2 if spin else 1
    H = np.zeros((norb * b, norb * b), dtype=complex)
    if onsite is not None:
        for i, v in enumerate(onsite):
            H[i * b:(i + 1) * b, i * b:(i + 1) * b] += as_block(v, spin)
    for name, i, j, R, flags, amp in hops:
        ph = np.exp(2j * np.pi * np.dot(kd, R))
        blk = as_block(amp, spin) * ph
        H[i * b:(i + 1) * b, j * b:(j + 1) * b] += blk
        H[j * b:(j + 1) * b, i * b:(i + 1) * b] += blk.conj().T
    return np.sort(np.linalg.eigvalsh(H))


def build_pythtb(case, hops, onsite):
    import pythtb
    dim, norb, spin = case["dim"], case["norb"], case["spin"]
    lat = pythtb.Lattice(lat_vecs=LATS[dim], orb_vecs=[o[:dim] for o in ORBS[:norb]], periodic_dirs=list(range(dim)))
    m = pythtb.TBModel(lat, spinful=bool(spin))
    if onsite is not None:
        m.set_onsite(onsite)
    for name, i, j, R, flags, amp in hops:
        kw = {}
        if flags.get("add"):
            kw["mode"] = "add"
        if flags.get("conj_of"):
            kw["allow_conjugate_pair"] = True
        m.set_hop(amp, i, j, R, **kw)
    return m


def build_tbmodels(case, hops, onsite):
    import tbmodels
    dim, norb = case["dim"], case["norb"]
    how = case.get("how", "add_hop")
    kw = dict(uc=np.array(LATS[dim]), dim=dim, occ=1, pos=[[x % 1 for x in o[:dim]] for o in ORBS[:norb]],
              sparse=bool(case.get("sparse", False)))
    ons = onsite if onsite is not None else [0.0] * norb
    if how == "add_hop":
        m = tbmodels.Model(on_site=ons, **kw)
        for name, i, j, R, flags, amp in hops:
            m.add_hop(amp, i, j, R)
        return m
    if how == "hop_list":
        # contains_cc=False: every bond is listed once, the conjugate partner is implied
        return tbmodels.Model.from_hop_list(hop_list=[(amp, i, j, tuple(R)) for _, i, j, R, _, amp in hops],
                                            on_site=ons, size=norb, contains_cc=False, **kw)
    # explicit hopping dictionaries
    full = {}
    zero = tuple([0] * dim)
    full[zero] = np.diag(np.array(ons, dtype=complex))
    for name, i, j, R, flags, amp in hops:
        R = tuple(R)
        mR = tuple(-x for x in R)
        full.setdefault(R, np.zeros((norb, norb), dtype=complex))
        full.setdefault(mR, np.zeros((norb, norb), dtype=complex))
        full[R][i, j] += amp
        full[mR][j, i] += np.conj(amp)
    if how == "hop_dict_full":
        # contains_cc=True (TBmodels' wording): the dictionary holds H(R) for R and -R, and the whole H(0)
        return tbmodels.Model(hop=full, contains_cc=True, size=norb, **kw)
    raise KeyError(how)


def hand_cases(tier):
    maxsub = 3 if tier == "quick" else 99
    amps = ("generic",) if tier == "quick" else ("generic", "unit", "imag")
    for dim in (1, 2, 3):
        for norb in (1, 2, 3):
            names = [s for s in SLOT_NAMES if s in slot_table(dim, norb)]
            for size in range(0, min(maxsub, len(names)) + 1):
                for sub in itertools.combinations(names, size):
                    for onsite in ("none", "generic"):
                        if size == 0 and onsite == "none":
                            continue          # H = 0: not a model
                        for amp in (amps if size else amps[:1]):
                            for lib, spin in (("pythtb", False), ("pythtb", True), ("tbmodels", False)):
                                yield {"kind": "hand", "lib": lib, "spin": spin, "dim": dim, "norb": norb,
                                       "hops": list(sub), "onsite": onsite, "amp": amp}
                            if tier != "quick" and amp == "generic" and size <= 3:
                                for how, sparse in (("hop_list", False), ("hop_dict_full", False), ("add_hop", True)):
                                    yield {"kind": "hand", "lib": "tbmodels", "spin": False, "dim": dim, "norb": norb,
                                           "hops": list(sub), "onsite": onsite, "amp": amp, "how": how,
                                           "sparse": sparse}


def run_hand(case, seed):
    lib, spin, dim = case["lib"], case["spin"], case["dim"]
    hops, onsite = hand_spec(case, seed)
    tag = f"from_{lib}" + (":spinful" if spin else "")
    model = build_pythtb(case, hops, onsite) if lib == "pythtb" else build_tbmodels(case, hops, onsite)
    nontrivial = len(hops) > 0
    variants = [{}] + ([{"spin": True}] if spin else [])
    for kw in variants:
        try:
            system = import_model(model, lib, **kw)
        except Exception as e:
            # one key per failing input class: models without any inter-cell hopping are a class of their own
            cls = ":no_intercell_hops" if all(not any(R) for _, _, _, R, _, _ in hops) else ""
            key = (f"tb_import:raises:{type(e).__name__}{cls}" if cls   # same code path for both libraries
                   else f"from_{lib}:import_raises:{type(e).__name__}")
            return {"ok": False, "key": key, "nontrivial": nontrivial,
                    "detail": f"{case}: import raised {type(e).__name__}: {e}"}
        for kname, kd, k3 in kpoints(dim):
            es = src_energies(model, lib, kd)
            er = reference_energies(case, hops, onsite, kd)
            if differs(es, er):
                return {"ok": False, "key": f"harness:reference_vs_source:{lib}", "nontrivial": nontrivial,
                        "detail": f"{case} k={kd}: source library {es.tolist()} vs independent Bloch sum {er.tolist()}"}
            ew = wb_energies(system, k3)
            if differs(ew, es):
                feat = "onsite_only" if not hops else ("hop" if onsite is None else "hop+onsite")
                return {"ok": False, "key": f"{tag}:energies", "nontrivial": nontrivial,
                        "detail": f"{case} ({feat}) imported with {kw}: k={kd} ({kname}) wannierberri {ew.tolist()} "
                                  f"vs source model {es.tolist()}"}
    return {"ok": True, "nontrivial": nontrivial}


# ----------------------------------------------------------------------------------------------
def setup(tier, seed):
    import wannierberri  # noqa: F401  (import once in the parent; workers are forked)
    import pythtb  # noqa: F401
    import tbmodels  # noqa: F401


def cases(tier, seed):
    yield from builder_cases(tier)
    yield from hand_cases(tier)


def run_case(case, seed):
    if case["kind"] == "builder":
        return run_builder(case)
    return run_hand(case, seed)


def finish(tier, cases, results):
    nb = {}
    for c in cases:
        k = c["builder"] if c["kind"] == "builder" else f"hand:{c['lib']}{':spinful' if c['spin'] else ''}"
        nb[k] = nb.get(k, 0) + 1
    return {"cases_per_axis": nb, "k_alphabet": [n for n, _ in K_ALPHABET],
            "hopping_slots": list(SLOT_NAMES), "builder_values_per_parameter": 2 if tier == "quick" else 3}
