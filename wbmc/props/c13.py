"""C13 — Fermi-sea / Fermi-surface semantics of static calculators (tetra=False).

Seam: StaticCalculator(Efermi, Formula=F, fder=n, ...)(data_K) on real Data_K_R objects.

A case = (system, FFT grid, formula, degen_thresh, degen_Kramers).  Inside a case the complete product
  Fermi grids {count 1,2,5,12} x {spacing 0.05, 0.37} x {far below, inside, straddling the band bottom, far above}
  x fder {0,1,2,3} x select_bands {None, subsets (fder>=1)} x k_resolved {F,T} x hole_like {F,T (fder 0,1)}
is run and compared with an independent brute-force model written here:

  * bands are grouped by the reference grouping model (chain-linked gaps <= thresh; Kramers: only even borders);
  * a group is occupied at level L iff its mean energy <= L; the sea value at L is the k-average of
    F.trace(ik, inn = all occupied states, out = the rest) / cell volume   (one trace over the whole occupied set,
    not a sum of group traces -> also checks the additive / non-additive accumulation);
  * fder=n equals the n-th central finite difference (step dEF) of that sea function; it is also compared with the
    real fder=0 calculator run on the grid extended by the extra points (differential form of the statement);
  * with select_bands (fermi-surface only) every group enters with the fraction of its bands that is selected;
  * k_resolved data averaged over k equals the unresolved data;
  * CumDOS is non-decreasing, 0 below all bands, num_wann above; DOS is the fder=1 companion.
The formula objects themselves (F.trace) are taken from the library: the property is about accumulation semantics.
"""

import numpy as np

ID = "C13"
LEVEL = "exploration"
RULE = ("cases = (system, FFT grid, formula, degen_thresh, degen_Kramers); each runs every Fermi grid (count x spacing x "
        "offset) x fder x select_bands x k_resolved x hole_like; non-trivial keys = (system, grid, formula, thresh, Kramers, "
        "mechanism) for mechanisms actually exercised: 'partial' (some but not all groups occupied at some level), "
        "'multiband_group' (a group of >=2 bands changes occupation inside the Fermi grid), 'below_window' (a group lies "
        "below EFmin and is completed), 'surface' (a finite difference is non-zero), 'select' (a partially selected group "
        "contributes); 'history' cases: every ordered sequence (depth 2 quick / 3 thorough) over a 26-letter alphabet of "
        "calculators (sea/surface x grids engineered so that EFmin/EFmax of a sea scan equal those of a surface scan, band "
        "selection, k_resolved, hole_like, tetra with identical / nearby / other Fermi arrays and thresholds) is evaluated on ONE "
        "shared Data_K object and the last result must equal the same calculator on a fresh Data_K")
ASSUMPTIONS = [
    "Fermi levels closer than 1e-9 to a group mean energy are ties and are not judged (either side is legitimate)",
    "uniform Fermi grids only (the calculators assume a uniform grid: dEF = Efermi[1]-Efermi[0])",
    "the value of a formula on a set of states (Formula.trace) is taken from the library; only grouping, occupation, "
    "accumulation over k, finite differences and normalisation are modelled independently",
    "hole_like is undocumented and its meaning for tetra=False is not judged (observed: -1 x the sea value, whereas "
    "tetra=True returns minus the sum over unoccupied states); it is only required to commute with k_resolved and to "
    "change nothing but the overall sign",
    "tolerance 1e-9 of the natural scale = k-average of the absolute group contributions (near-degenerate bands give huge "
    "cancelling Berry-curvature terms), divided by dEF^n for surface calculators",
    "systems: 4 quick / 6 thorough; FFT grids (2,2,2),(3,2,1) (+(4,3,2) thorough); tetra=True is covered by C14",
]

SYSTEMS_Q = ("zoo3", "dbl4", "chiral", "kanemele")
SYSTEMS_T = SYSTEMS_Q + ("zoo4", "haldane")
GRIDS_Q = ((2, 2, 2), (3, 2, 1))
GRIDS_T = GRIDS_Q + ((4, 3, 2),)
FORMULAS = ("Identity", "Velocity", "Omega", "InvMass", "Morb_Hpm")
THRESH = (-1, 1e-4, 0.5)
COUNTS = (1, 2, 5, 12)
SPACINGS_Q = (0.05, 0.37)
SPACINGS_T = (0.05, 0.37, 0.0111)
OFFSETS = ("below", "inside", "straddle", "above")
TIE = 1e-9


def cases(tier, seed):
    quick = tier == "quick"
    for system in (SYSTEMS_Q if quick else SYSTEMS_T):
        for grid in (GRIDS_Q if quick else GRIDS_T):
            for formula in FORMULAS:
                for thr in THRESH:
                    for kram in (False, True):
                        if kram and system in ("zoo3",):
                            continue  # odd number of bands
                        yield {"system": system, "grid": list(grid), "formula": formula, "thresh": thr, "kramers": kram,
                               "spacings": list(SPACINGS_Q if quick else SPACINGS_T),
                               "counts": list(COUNTS if quick else COUNTS + (31,))}
    yield from history_cases(tier)


N_HISTORY_LETTERS = 26


def history_cases(tier):
    """'history' cases: a Data_K object is shared by all calculators of a K-point in run(); the result of a calculator
    must not depend on which other calculators were evaluated on the same Data_K before it (caches with incomplete keys)"""
    quick = tier == "quick"
    for system in (("zoo3",) if quick else ("zoo3", "dbl4", "zoo4")):
        for formula in (("Identity",) if quick else ("Identity", "Morb_Hpm")):
            for thr in (-1, 0.5):
                for first in range(N_HISTORY_LETTERS):      # sharded by the first calculator of the sequence
                    yield {"kind": "history", "system": system, "grid": [2, 2, 2], "formula": formula, "thresh": thr,
                           "depth": 2 if quick else 3, "first": first}


# ---------------------------------------------------------------------------------------------- systems

def tensor_identity(s0, mult):
    """H (x) 1_mult: every band becomes an exact multiplet (all matrices are copied block-wise)"""
    from wannierberri.system.system_R import System_R
    from wannierberri.fourier.rvectors import Rvectors
    nw = s0.num_wann
    s = System_R(silent=True, name="mult")
    s.set_real_lattice(s0.real_lattice)
    s.num_wann = nw * mult
    s.wannier_centers_cart = np.repeat(s0.wannier_centers_cart, mult, axis=0)
    s.rvec = Rvectors(lattice=s.real_lattice, iRvec=s0.rvec.iRvec, shifts_left_red=s.wannier_centers_red)
    for key, X in s0._XX_R.items():
        Y = np.zeros((X.shape[0], nw * mult, nw * mult) + X.shape[3:], dtype=complex)
        for m in range(mult):
            Y[:, m::mult, m::mult] = X
        s.set_R_mat(key, Y)
    s.set_pointgroup()
    return s


def make_system(name, seed):
    import wannierberri as wb
    from wannierberri import models
    from wbmc import zoo
    if name == "zoo3":
        return zoo.make_system(3, "tric", "shell1", "generic", seed=seed, matrices=("Ham", "AA"), tag="c13")
    if name == "zoo4":
        return zoo.make_system(4, "orth", "shell2", "half", seed=seed, matrices=("Ham", "AA"), tag="c13", onsite_spread=0.3)
    if name == "dbl4":
        return tensor_identity(zoo.make_system(2, "tric", "shell1", "generic", seed=seed, matrices=("Ham", "AA"), tag="c13d"), 2)
    if name == "haldane":
        return wb.system.System_R.from_pythtb(models.Haldane_ptb(), silent=True)
    if name == "chiral":
        return wb.system.System_R.from_pythtb(models.Chiral(), silent=True)
    if name == "kanemele":
        return wb.system.System_R.from_pythtb(models.KaneMele_ptb("even"), silent=True)
    raise KeyError(name)


def make_data_K(system, nkfft):
    import wannierberri as wb
    from wannierberri.data_K import get_data_k_class_from_system
    nkfft = [n if p else 1 for n, p in zip(nkfft, system.periodic)]
    grid = wb.Grid(system, NK=nkfft, NKFFT=nkfft)
    K = grid.get_K_list(use_symmetry=False)[0]
    dK = np.array([0.0131, 0.0277, 0.0419]) / np.array(nkfft) * np.array(system.periodic)
    cls = get_data_k_class_from_system(system)
    return cls(system, dK=dK, grid=grid, Kpoint=K)


def formula_spec(name, system):
    from wannierberri.formula import covariant as frml
    from wannierberri.formula.elementary import InvMass
    ext = system.has_R_mat("AA")
    if name == "Identity":
        return frml.Identity, {}
    if name == "Velocity":
        return frml.Velocity, {}
    if name == "Omega":
        return frml.Omega, {"external_terms": ext}
    if name == "InvMass":
        return InvMass, {}
    if name == "Morb_Hpm":
        return frml.Morb_Hpm, {"external_terms": False}
    raise KeyError(name)


# ---------------------------------------------------------------------------------------------- reference model

def ref_groups(E, thr, kramers):
    """chain-linked groups: a border between i-1 and i iff E[i]-E[i-1] > thr; Kramers keeps even borders only"""
    borders = [0]
    for i in range(1, len(E)):
        if E[i] - E[i - 1] > thr and not (kramers and i % 2):
            borders.append(i)
    borders.append(len(E))
    return list(zip(borders[:-1], borders[1:]))


class Model:
    """brute-force sea function of one (data_K, formula, grouping)"""

    def __init__(self, data_K, Formula, kw, thr, kramers):
        self.nk = data_K.nk
        self.NB = data_K.num_wann
        self.vol = data_K.cell_volume
        formula = Formula(data_K, **kw)
        self.ndim = formula.ndim
        self.additive = formula.additive
        E_K = np.array(data_K.E_K)
        self.E_K = E_K
        self.groups = []    # per k: list of (ib1, ib2)
        self.means = []     # per k: array of group mean energies
        self.incr = []      # per k: array (ngroups, 3,..) increments of the cumulative trace
        self.absg = []      # per k: array (ngroups, 3,..) |contribution| the natural scale
        self.sizes = []
        allb = np.arange(self.NB)
        for ik in range(self.nk):
            g = ref_groups(E_K[ik], thr, kramers)
            cum = [np.zeros((3,) * self.ndim)]
            ab = []
            for (a, b) in g:
                cum.append(np.array(formula.trace(ik, allb[:b], allb[b:]), dtype=float).reshape((3,) * self.ndim))
                if self.additive:
                    own = np.array(formula.trace(ik, allb[a:b], np.concatenate((allb[:a], allb[b:]))), dtype=float)
                    ab.append(np.abs(own.reshape((3,) * self.ndim)))
                else:
                    ab.append(np.abs(cum[-1]) + np.abs(cum[-2]))
            cum = np.array(cum)
            self.groups.append(g)
            self.means.append(np.array([E_K[ik, a:b].mean() for a, b in g]))
            self.incr.append(cum[1:] - cum[:-1])
            self.absg.append(np.array(ab))
            self.sizes.append(np.array([b - a for a, b in g]))
        self.scale = sum(a.sum(axis=0) for a in self.absg).max() / (self.nk * self.vol) if self.ndim else \
            sum(a.sum() for a in self.absg) / (self.nk * self.vol)
        self.Emin = E_K.min()
        self.Emax = E_K.max()

    def fractions(self, select):
        if select is None:
            return [np.ones(len(g)) for g in self.groups]
        sel = set(int(i) for i in select)
        return [np.array([len(sel.intersection(range(a, b))) / (b - a) for a, b in g]) for g in self.groups]

    def sea(self, levels, select=None, per_k=False):
        """value at every level: (nlev, 3..) or per k (nk, nlev, 3..)  (already divided by the cell volume; the
        k-average is taken unless per_k)"""
        levels = np.asarray(levels, dtype=float)
        fr = self.fractions(select)
        out = np.zeros((self.nk, len(levels)) + (3,) * self.ndim)
        for ik in range(self.nk):
            occ = (self.means[ik][None, :] <= levels[:, None])       # (nlev, ngroups)
            w = occ * fr[ik][None, :]
            out[ik] = np.tensordot(w, self.incr[ik], axes=(1, 0))
        out /= self.vol
        if per_k:
            return out
        return out.mean(axis=0)

    def tie(self, levels):
        levels = np.asarray(levels, dtype=float)
        return min(np.abs(m[None, :] - levels[:, None]).min() for m in self.means) < TIE

    def mechanisms(self, levels, select):
        mech = set()
        levels = np.asarray(levels)
        fr = self.fractions(select)
        for ik in range(self.nk):
            occ = (self.means[ik][None, :] <= levels[:, None])
            n = occ.sum(axis=1)
            if np.any((n > 0) & (n < occ.shape[1])):
                mech.add("partial")
            changes = occ[0] != occ[-1]
            if np.any(changes & (self.sizes[ik] > 1)):
                mech.add("multiband_group")
            if np.any(changes & (fr[ik] > 0) & (fr[ik] < 1)):
                mech.add("select")
        return mech


def fd(vals, n, h, axis=0):
    """n-th central difference of samples taken at offsets -extra..+extra (axis) -> values at the inner points"""
    v = np.moveaxis(vals, axis, 0)
    if n == 0:
        r = v
    elif n == 1:
        r = (v[2:] - v[:-2]) / (2 * h)
    elif n == 2:
        r = (v[2:] + v[:-2] - 2 * v[1:-1]) / h ** 2
    elif n == 3:
        r = (v[4:] - v[:-4] - 2 * (v[3:-1] - v[1:-3])) / (2 * h ** 3)
    return np.moveaxis(r, 0, axis)


EXTRA = {0: 0, 1: 1, 2: 1, 3: 2}


def fermi_grids(model, counts, spacings):
    for count in counts:
        for sp in spacings:
            for off in OFFSETS:
                if off == "below":
                    start = model.Emin - 10.0137 - sp * count
                elif off == "inside":
                    start = 0.5 * (model.Emin + model.Emax) + 0.01373 - 0.5 * sp * count
                elif off == "straddle":
                    start = model.Emin + 0.00123 - sp * (count // 2)
                else:
                    start = model.Emax + 3.0119
                yield (count, sp, off), start + sp * np.arange(count)


# ---------------------------------------------------------------------------------------------- run

def run_history(case, seed):
    import itertools
    from wannierberri.calculators.static import StaticCalculator
    system = make_system(case["system"], seed)
    Formula, kw = formula_spec(case["formula"], system)
    thr = case["thresh"]
    d0 = make_data_K(system, case["grid"])
    E = np.sort(np.array(d0.E_K).reshape(-1))
    lo, hi = E[len(E) // 4], E[(3 * len(E)) // 4]
    n = 7
    G = lo + (hi - lo) / (n - 1) * np.arange(n) + 1.234567e-4
    dE = G[1] - G[0]

    def mk(fder, Ef, **kwargs):
        return StaticCalculator(Efermi=np.array(Ef), Formula=Formula, fder=fder, kwargs_formula=dict(kw), degen_thresh=thr, **kwargs)
    s1 = mk(1, G)
    Gext = s1.EFmin + dE * np.arange(n + 2)
    Gext[0], Gext[-1] = s1.EFmin, s1.EFmax          # a sea scan with exactly the surface scan's (EFmin, EFmax)
    s3 = mk(3, G)
    Gext3 = s3.EFmin + dE * np.arange(n + 4)
    Gext3[0], Gext3[-1] = s3.EFmin, s3.EFmax
    alphabet = {
        "sea(G)": lambda: mk(0, G), "surf1(G)": lambda: mk(1, G), "surf2(G)": lambda: mk(2, G), "surf3(G)": lambda: mk(3, G),
        "sea(Gext1)": lambda: mk(0, Gext), "sea(Gext3)": lambda: mk(0, Gext3),
        "surf1(G,select=[0])": lambda: mk(1, G, select_bands=np.array([0])),
        "sea(G,kres)": lambda: mk(0, G, k_resolved=True), "surf1(G,hole)": lambda: mk(1, G, hole_like=True),
        "tetra_sea(G)": lambda: mk(0, G, tetra=True), "tetra_surf1(G)": lambda: mk(1, G, tetra=True),
        "tetra_sea(G+5e-9)": lambda: mk(0, G + 5e-9, tetra=True), "tetra_surf1(G+5e-9)": lambda: mk(1, G + 5e-9, tetra=True),
        "tetra_sea(G*(1+3e-6))": lambda: mk(0, G * (1 + 3e-6), tetra=True),
        "tetra_sea(G,thr2)": lambda: StaticCalculator(Efermi=G, Formula=Formula, fder=0, kwargs_formula=dict(kw), degen_thresh=0.05, tetra=True),
    }
    # other calculator families that share the Data_K caches (Berry connection with/without external terms, band
    # derivatives, tabulators with other thresholds, a dynamic calculator): systems 'zoo3' and 'dbl4' carry AA
    from wannierberri.formula import covariant as frml
    from wannierberri.calculators import tabulate, dynamic

    def mkf(F, fder, kwf, **kwargs):
        return StaticCalculator(Efermi=np.array(G), Formula=F, fder=fder, kwargs_formula=dict(kwf), degen_thresh=thr, **kwargs)
    alphabet.update({
        "sea(G,Omega,int)": lambda: mkf(frml.Omega, 0, {"external_terms": False}),
        "sea(G,Omega,ext)": lambda: mkf(frml.Omega, 0, {"external_terms": True}),
        "surf1(G,Omega,ext)": lambda: mkf(frml.Omega, 1, {"external_terms": True}),
        "sea(G,DerOmega,ext)": lambda: mkf(frml.DerOmega, 0, {"external_terms": True}),
        "tab(Berry,int)": lambda: tabulate.BerryCurvature(kwargs_formula={"external_terms": False}, degen_thresh=1e-4),
        "tab(Berry,ext,thr)": lambda: tabulate.BerryCurvature(kwargs_formula={"external_terms": True}, degen_thresh=0.5),
        "tab(Velocity)": lambda: tabulate.Velocity(degen_thresh=0.05),
        "JDOS": lambda: dynamic.JDOS(Efermi=np.array(G), omega=np.linspace(0.0, 1.0, 5)),
        "OptCond": lambda: dynamic.OpticalConductivity(Efermi=np.array(G), omega=np.linspace(0.0, 1.0, 5), smr_fixed_width=0.1),
    })
    # the caller's Fermi-level buffer is re-used (modified in place) after the calculator was built: the calculator must
    # keep working on, and report, the levels it was given
    def buffer_reused(fder):
        b = np.array(G, dtype=float)
        c = StaticCalculator(Efermi=b, Formula=Formula, fder=fder, kwargs_formula=dict(kw), degen_thresh=thr)
        b += 0.37
        return c
    alphabet["sea(G), caller's buffer modified afterwards"] = lambda: buffer_reused(0)
    alphabet["surf1(G), caller's buffer modified afterwards"] = lambda: buffer_reused(1)
    same_as = {"sea(G), caller's buffer modified afterwards": "sea(G)", "surf1(G), caller's buffer modified afterwards": "surf1(G)"}

    def observe(res):
        d = np.array(res.data)
        en = getattr(res, "Energies", None)
        if en is not None and len(en) > 0 and np.ndim(d) >= 1 and len(en[0]) == d.shape[0]:
            # reported energies are part of the result (a value is only meaningful with the level it belongs to)
            return np.concatenate([d.reshape(d.shape[0], -1).astype(complex), np.array(en[0], dtype=complex).reshape(-1, 1)], axis=1)
        return d
    names = list(alphabet)
    assert len(names) == N_HISTORY_LETTERS
    fresh = {}

    def fresh_of(nm):
        if nm not in fresh:
            fresh[nm] = observe(alphabet[nm]()(make_data_K(system, case["grid"])))
        return fresh[nm]
    nseq = 0
    for seq in itertools.product([names[case["first"]]], *([names] * (case["depth"] - 1))):
        if case["depth"] == 3 and len(set(seq)) < 3:
            continue
        dK = make_data_K(system, case["grid"])
        out = None
        for nm in seq:
            out = observe(alphabet[nm]()(dK))
        nseq += 1
        ref = fresh_of(same_as.get(seq[-1], seq[-1]))
        sc = max(np.abs(ref).max(), 1e-300)
        if out.shape != ref.shape or not np.abs(out - ref).max() <= 1e-12 * sc:
            err = np.abs(out - ref).max() / sc if out.shape == ref.shape else np.inf
            return {"ok": False, "key": "Data_K:result_depends_on_calculator_history" + (":tetra" if "tetra" in seq[-1] else ""),
                    "nontrivial": ("history", case["system"], case["formula"], thr),
                    "detail": f"system={case['system']} formula={case['formula']} degen_thresh={thr}: {seq[-1]} evaluated after "
                              f"{list(seq[:-1])} on the same Data_K differs from the same calculator on a fresh Data_K by {err:.3g} (relative)"}
    return {"ok": True, "nontrivial": ("history", case["system"], case["formula"], thr),
            "obs": {"sequences": nseq, "alphabet": len(names), "calculator_calls": nseq * case["depth"] + len(names)}}


def run_case(case, seed):
    """failures keep the non-trivial mechanisms seen before the failure; an exception raised by the library inside a
    calculator call is a finding of its own (key StaticCalculator:exception:<Type>)"""
    if case.get("kind") == "history":
        return run_history(case, seed)
    seen = set()
    tag = [case["system"], list(case["grid"]), case["formula"], case["thresh"], case["kramers"]]
    try:
        res = _run_case(case, seed, seen)
    except Exception as e:
        import traceback
        tb = traceback.format_exc()
        res = {"ok": False, "key": "StaticCalculator:exception:" + type(e).__name__,
               "detail": f"{case}: {type(e).__name__}: {e}", "traceback": tb[-1500:]}
    if not res.get("ok"):
        res["nontrivial"] = [tag + [m] for m in sorted(seen | {"reached_calculator"})]
    return res


def _run_case(case, seed, mech_seen):
    from wannierberri.calculators.static import StaticCalculator, CumDOS, DOS
    system = make_system(case["system"], seed)
    data_K = make_data_K(system, case["grid"])
    Formula, kw = formula_spec(case["formula"], system)
    thr, kram = case["thresh"], case["kramers"]
    model = Model(data_K, Formula, kw, thr, kram)
    NB = model.NB
    subsets = [np.array([0]), np.array(sorted({1 % NB, NB - 1}))]
    if NB >= 2:
        subsets.append(np.array([NB - 1, 0]))       # a selection that is not listed in ascending order
    tag = (case["system"], tuple(case["grid"]), case["formula"], thr, kram)
    ncalls = 0
    nties = 0
    ctx = f"system={case['system']} NKFFT={case['grid']} formula={case['formula']} degen_thresh={thr} degen_Kramers={kram}"

    def calc(Ef, fder, **kwargs):
        nonlocal ncalls
        ncalls += 1
        c = StaticCalculator(Efermi=Ef, Formula=Formula, fder=fder, tetra=False, kwargs_formula=dict(kw),
                             degen_thresh=thr, degen_Kramers=kram, **kwargs)
        return c(data_K)

    for gkey, Ef in fermi_grids(model, case["counts"], case["spacings"]):
        count, sp, off = gkey
        dEF = (Ef[1] - Ef[0]) if count > 1 else 0.001
        gtxt = f"{ctx} Efermi=({Ef[0]!r} + {dEF!r}*arange({count})) [{off}]"
        # all levels any calculator on this grid looks at
        ext2 = Ef[0] + dEF * np.arange(-2, count + 2)
        if model.tie(ext2):
            nties += 1
            continue
        for fder in (0, 1, 2, 3):
            ex = EXTRA[fder]
            levels = Ef[0] + dEF * np.arange(-ex, count + ex)
            tol = 1e-9 * max(model.scale, 1e-300) / dEF ** fder
            for select in ([None] if fder == 0 else [None] + subsets):
                ref = fd(model.sea(levels, select), fder, dEF)
                got = calc(Ef, fder, select_bands=select)
                got = np.array(got.data)
                if got.shape != ref.shape:
                    return {"ok": False, "key": "StaticCalculator:shape", "detail": f"{gtxt} fder={fder}: {got.shape} vs {ref.shape}"}
                err = np.abs(got - ref).max()
                if not err <= tol:
                    i = int(np.unravel_index(np.argmax(np.abs(got - ref)), got.shape)[0])
                    what = "sea" if fder == 0 else "surface"
                    key = f"StaticCalculator:{what}:brute_force" + ("" if select is None else ":select_bands") + \
                        ("" if model.additive else ":nonadditive")
                    return {"ok": False, "key": key,
                            "detail": f"{gtxt} fder={fder} select_bands={None if select is None else select.tolist()}: at "
                                      f"Ef[{i}]={Ef[i]!r} got {got[i].ravel()[:3].tolist()} brute force "
                                      f"{ref[i].ravel()[:3].tolist()} (natural scale {model.scale:.3g}, tol {tol:.3g}, "
                                      f"max err {err:.3g})"}
                mech_seen |= model.mechanisms(levels, select)
                if fder > 0 and np.abs(ref).max() > tol:
                    mech_seen.add("surface")
                if fder == 0 and any(np.any(m < levels[0]) for m in model.means):
                    mech_seen.add("below_window")
                if select is None:
                    # k-resolved: mean over k equals the unresolved
                    gk = np.array(calc(Ef, fder, k_resolved=True).data)
                    refk = fd(model.sea(levels, None, per_k=True), fder, dEF, axis=1)
                    if gk.shape != refk.shape:
                        return {"ok": False, "key": "StaticCalculator:k_resolved:shape",
                                "detail": f"{gtxt} fder={fder}: {gk.shape} vs {refk.shape}"}
                    if not np.abs(gk.mean(axis=0) - got).max() <= tol:
                        return {"ok": False, "key": "StaticCalculator:k_resolved:mean_differs",
                                "detail": f"{gtxt} fder={fder}: mean over k of the k-resolved data differs from the "
                                          f"unresolved data by {np.abs(gk.mean(axis=0) - got).max():.3g} (tol {tol:.3g})"}
                    if not np.abs(gk - refk).max() <= tol * model.nk:
                        return {"ok": False, "key": "StaticCalculator:k_resolved:per_k",
                                "detail": f"{gtxt} fder={fder}: k-resolved data differ from the brute force per k by "
                                          f"{np.abs(gk - refk).max():.3g}"}
                    if fder >= 1:
                        # differential form: the real sea calculator on the extended grid
                        sea_ext = np.array(calc(levels, 0).data)
                        d = np.abs(fd(sea_ext, fder, dEF) - got).max()
                        if not d <= tol:
                            return {"ok": False, "key": "StaticCalculator:surface_vs_sea_difference",
                                    "detail": f"{gtxt} fder={fder}: differs from the {fder}-th central difference of the "
                                              f"fder=0 calculator on the extended grid by {d:.3g} (tol {tol:.3g})"}
                    if fder <= 1:
                        gh = np.array(calc(Ef, fder, hole_like=True).data)
                        ghk = np.array(calc(Ef, fder, hole_like=True, k_resolved=True).data)
                        if not np.abs(ghk.mean(axis=0) - gh).max() <= tol:
                            return {"ok": False, "key": "StaticCalculator:k_resolved:mean_differs:hole_like",
                                    "detail": f"{gtxt} fder={fder} hole_like"}
                        if not np.abs(np.abs(gh) - np.abs(got)).max() <= tol:
                            return {"ok": False, "key": "StaticCalculator:hole_like:magnitude",
                                    "detail": f"{gtxt} fder={fder}: hole_like changes more than the overall sign"}
        # DOS / CumDOS on this grid (formula-independent; done once per grouping in the Identity case)
        if case["formula"] == "Identity":
            cd = np.array(CumDOS(Efermi=Ef, tetra=False, degen_thresh=thr, degen_Kramers=kram)(data_K).data)
            ncalls += 1
            if np.any(np.diff(cd) < -1e-12):
                return {"ok": False, "key": "CumDOS:not_monotone", "detail": f"{gtxt}: {cd.tolist()}"}
            for i, e in enumerate(Ef):
                if e < model.Emin - TIE and abs(cd[i]) > 1e-12:
                    return {"ok": False, "key": "CumDOS:nonzero_below_bands", "detail": f"{gtxt}: CumDOS({e})={cd[i]}"}
                if e > model.Emax + TIE and abs(cd[i] - NB) > 1e-12 * NB:
                    return {"ok": False, "key": "CumDOS:not_num_wann_above_bands",
                            "detail": f"{gtxt}: CumDOS({e})={cd[i]} num_wann={NB}"}
            count_ref = np.array([(model.E_K <= e).sum() / model.nk for e in Ef])
            if thr < 0 and not kram and np.abs(cd - count_ref).max() > 1e-12 * NB:
                return {"ok": False, "key": "CumDOS:not_state_count",
                        "detail": f"{gtxt}: {cd.tolist()} vs count of states below {count_ref.tolist()}"}
            dos = np.array(DOS(Efermi=Ef, tetra=False, degen_thresh=thr, degen_Kramers=kram)(data_K).data)
            ncalls += 1
            ref = fd(model.sea(Ef[0] + dEF * np.arange(-1, count + 1)), 1, dEF) * model.vol
            if np.abs(dos - ref).max() > 1e-9 * NB / dEF:
                return {"ok": False, "key": "DOS:brute_force", "detail": f"{gtxt}: {dos.tolist()} vs {ref.tolist()}"}
    nt = [list(tag) + [m] for m in sorted(mech_seen)]
    return {"ok": True, "nontrivial": nt or False,
            "obs": {"calculator_calls": ncalls, "fermi_grids_skipped_as_ties": nties, "natural_scale": float(model.scale),
                    "groups_k0": [list(map(int, g)) for g in model.groups[0]]}}


def finish(tier, cases, results):
    calls = sum(int((r.get("obs") or {}).get("calculator_calls", 0)) for r in results)
    ties = sum(int((r.get("obs") or {}).get("fermi_grids_skipped_as_ties", 0)) for r in results)
    return {"calculator_calls": calls, "fermi_grids_skipped_as_ties": ties,
            "fermi_grids_per_case": len(COUNTS) * len(OFFSETS) * len(SPACINGS_Q if tier == "quick" else SPACINGS_T),
            "axes": {"systems": len(SYSTEMS_Q if tier == "quick" else SYSTEMS_T),
                     "fft_grids": len(GRIDS_Q if tier == "quick" else GRIDS_T), "formulas": len(FORMULAS),
                     "degen_thresh": len(THRESH), "degen_Kramers": 2, "fder": 4, "select_bands": 4,
                     "k_resolved": 2, "hole_like": 2}}
