"""C21 — orbital rotation matrices form an orthogonal representation; Dwann matrices are unitary and
map each centre onto its symmetry image.

Reference model (independent of the library's sympy polynomials): the real spherical harmonics and the
Wannier90 hybrids written in angular form (theta, phi), evaluated on 64 generic points of the unit
sphere.  For a rotation R and local frames B1 (source site) and B2 (target site) the matrix A with
    phi_j(B1 R^-1 r) = sum_i phi_i(B2 r) A_ij
is obtained by least squares; if the residual is < 1e-10 the orbital set is *closed* under the
operation and A is its representation matrix, otherwise no such matrix exists (e.g. ``pz`` under C4x)
and the case only requires "no exception" (DESIGN.md §9).

Enumerated:
* kind "family": shell x rotation family (all 48 of O_h; all 24 of D_6h; identity + generic axis-angle
  rotations with improper partners, containing a pair of rotations 0.06 apart and one 0.05 from the
  identity) — every rotation of the family through one ``OrbitalRotator`` (cache in use) against the
  reference, orthogonality, A(1)=1, and the composition law A(R1 R2)=A(R1)A(R2) for **all ordered pairs**
  of the family; the cache must give the same answers in reverse order and through ``irot``.
  The "near" family holds pairs of *distinct* rotations 3e-3 ... 6e-3 rad apart (a small rotation next to the identity, a
  proper and an improper generic rotation each with a slightly tilted neighbour; thorough: also a chain R, R.dR, R.dR^2 and a
  neighbour of -1): they differ element-wise by ~30x the 1e-4 tolerance with which ``OrbitalRotator`` identifies rotations,
  so each must get its own matrix.  The generic and near families are sent through one rotator in the listed order and through
  a second, fresh rotator in the reverse order (the member of a pair that comes second is the one a too generous cache would
  answer with its neighbour's matrix); the products of the composition law land next to (but, checked by the harness, never
  inside the tolerance band of) rotations evaluated before.
* kind "local": shell x 8 rotations x all 9 ordered pairs of local frames {I, two rotated frames} (+ the
  co-rotated frame B2 = B1 R^T used by ``Projection(rotate_basis=True)``), against the reference;
  composition through an intermediate frame for the cheap shells.
* kind "dwann": 6 space groups (symmorphic, non-symmorphic, magnetic) x site sets x orbitals x local-frame
  mode x spinor (frame modes: the global frame on every site; one custom frame ``zaxis/xaxis`` shared by all sites of a multi-site
  orbit, ``rotate_basis=False``; a custom frame on a single-site orbit; frames co-rotated with the sites, default or custom axes;
  explicit ``basis_list`` whose frames differ from site to site by a 3e-3 rad tilt, so that one rotator is asked for distinct
  rotations B2 R B1^T that are only ~1e-3 ... 9e-3 rad apart): the frames are taken from ``Projection.basis_list`` and the
  reference block is A_ref(R; B1, B2) of the least-squares model above (for a frame B shared by all sites that is the matrix of
  B R B^T, not of R); orbit = brute-force orbit; ``atommap``/``T`` = brute-force image and lattice vector
  (centre image: orbit[jp] = symop(orbit[ip]) + T); ``get_on_points`` at 3 k-points (+ a reciprocal vector):
  unitary, block (jp,ip) non-zero iff jp is the image of ip, block = exp(2 pi i gk.T) * (A_ref (x) S);
  and the representation law D(gk;h) D(k;g)^(*) = exp(-2 pi i hgk.t_L) D(k;hg) (up to the spinor sign) for all
  ordered pairs of symmetry operations.
"""
import itertools

import numpy as np

ID = "C21"
LEVEL = "exploration"
RULE = ("cases = family(shell x rotation family in {generic, near, D6h, Oh}), local(shell), dwann(structure x site x orbital x frame "
        "mode x spinor; frame mode in {same, same:<axes>, rot, rot:<axes>, tilt}); each "
        "case runs all rotations (generic/near: in both orders) / all ordered pairs / all symmetry operations and k-points inside. "
        "non-trivial: a family/local "
        "case in which at least one non-identity operation leaves the orbital set closed (key = shell, family), a dwann case in "
        "which every block is closed and the orbit or the group is non-trivial (key = structure, site, orbital, mode, spinor); "
        "cases whose orbital set is not closed under some operation are counted trivial (only 'no exception' is required)")
ASSUMPTIONS = [
    "rotations: the 48 of O_h, the 24 of D_6h, 12 generic ones (+identity) and the 'near' family (6 quick / 11 thorough: every "
    "member has a distinct neighbour of the same determinant 3e-3..6e-3 rad away, none closer); 'all rotations in O(3)' is "
    "represented by these (the matrices are polynomial in the "
    "entries of R, the generic elements test the polynomial, the groups test every crystallographic value, the near pairs test that "
    "the rotator's cache does not identify resolved rotations)",
    "rotations closer than the cache tolerance of OrbitalRotator (element-wise 1e-4, i.e. angles below ~1e-4 rad) are not in the "
    "alphabet (the cache identifies them by design, e.g. two frames tilted about an axis lying almost in a mirror plane give rotations "
    "5e-5 apart that the library merges); the closest distinct pairs are 3e-3 rad apart in the families and element-wise >= 7e-4 in "
    "the Dwann 'tilt' sets, and the harness verifies (keys harness:*) that every rotation and every product sent to a rotator is "
    "either equal (<1e-9) to, or element-wise > 3e-4 away from, every other one, so no verdict depends on which side of the tolerance "
    "a rotation falls; pairs between 1e-4 and ~1e-3 rad are not enumerated",
    "evaluation orders through one rotator: the listed order and (generic/near families) the reverse order through a second, fresh "
    "rotator, then the products of all ordered pairs in lexicographic order; other permutations are not enumerated. Dwann evaluates "
    "its rotations in its own order (sites outer, operations inner)",
    "Dwann local frames: global frame, one custom frame shared by all sites (rotate_basis=False with zaxis/xaxis: axis permutations, "
    "a 45-degree frame, a cube diagonal, one generic direction), custom frame on single-site orbits, site-co-rotated frames, and "
    "explicit basis_list tilted by 3e-3 rad x (site index + 1) about one generic axis (complete shells p, d, sp3 only, which stay "
    "closed in any frame); other frames are not enumerated. The frames are read from Projection.basis_list: how zaxis/xaxis are "
    "turned into a frame is not part of this property",
    "orbital sets not closed under an operation have no representation matrix: only absence of an exception is required",
    "composition for all ordered pairs inside each family (products stay in the family for O_h and D_6h); mixed O_h x D_6h "
    "products are covered by the per-matrix reference only",
    "Dwann: 6 structures built with irrep/spglib (trusted as the environment: rotation, translation, time_reversal, "
    "spinor_rotation of each operation); the spinor factor is compared with the documented formula S -> [[0,1],[-1,0]] S* for "
    "time-reversed operations",
    "quick tier: f shell only on O_h/generic families (not in near/local/dwann cases), fewer generic rotations, near family of 6 "
    "rotations and without the shells sp3d2 and sp3;eg (their blocks d, eg, sp3 are in), fewer custom-frame Dwann sets",
]

TOL = 1e-9
CLOSED = 1e-10

BASIS_SHELLS = ["s", "p", "d", "f"]
HYBRIDS = ["sp", "p2", "sp2", "pz", "sp3", "sp3d2", "t2g", "eg", "pxy"]
JOINED = ["s;p", "p;d", "sp3;eg", " s ; pz"]

# ------------------------------------------------------------------------------------------------
# independent orbital definitions (Wannier90 user guide, angular form)
# ------------------------------------------------------------------------------------------------
SETS = {
    "s": ["s"], "p": ["pz", "px", "py"], "d": ["dz2", "dxz", "dyz", "dx2-y2", "dxy"],
    "f": ["fz3", "fxz2", "fyz2", "fzx2-zy2", "fxyz", "fx3-3xy2", "f3yx2-y3"],
    "sp": ["sp-1", "sp-2"], "p2": ["pz", "py"], "pxy": ["px", "py"], "sp2": ["sp2-1", "sp2-2", "sp2-3"], "pz": ["pz"],
    "sp3": ["sp3-1", "sp3-2", "sp3-3", "sp3-4"], "sp3d2": [f"sp3d2-{i}" for i in range(1, 7)],
    "t2g": ["dxz", "dyz", "dxy"], "eg": ["dx2-y2", "dz2"],
}
_s2, _s3, _s6, _s12 = np.sqrt(2), np.sqrt(3), np.sqrt(6), np.sqrt(12)
HYB = {
    "sp-1": {"s": 1 / _s2, "px": 1 / _s2}, "sp-2": {"s": 1 / _s2, "px": -1 / _s2},
    "sp2-1": {"s": 1 / _s3, "px": -1 / _s6, "py": 1 / _s2}, "sp2-2": {"s": 1 / _s3, "px": -1 / _s6, "py": -1 / _s2},
    "sp2-3": {"s": 1 / _s3, "px": 2 / _s6},
    "sp3-1": {"s": .5, "px": .5, "py": .5, "pz": .5}, "sp3-2": {"s": .5, "px": .5, "py": -.5, "pz": -.5},
    "sp3-3": {"s": .5, "px": -.5, "py": .5, "pz": -.5}, "sp3-4": {"s": .5, "px": -.5, "py": -.5, "pz": .5},
    "sp3d2-1": {"s": 1 / _s6, "px": -1 / _s2, "dz2": -1 / _s12, "dx2-y2": .5},
    "sp3d2-2": {"s": 1 / _s6, "px": 1 / _s2, "dz2": -1 / _s12, "dx2-y2": .5},
    "sp3d2-3": {"s": 1 / _s6, "py": -1 / _s2, "dz2": -1 / _s12, "dx2-y2": -.5},
    "sp3d2-4": {"s": 1 / _s6, "py": 1 / _s2, "dz2": -1 / _s12, "dx2-y2": -.5},
    "sp3d2-5": {"s": 1 / _s6, "pz": -1 / _s2, "dz2": 1 / _s3},
    "sp3d2-6": {"s": 1 / _s6, "pz": 1 / _s2, "dz2": 1 / _s3},
}


def harmonic(name, r):
    """real spherical harmonic `name` (orthonormal on the sphere) at unit vectors r (n,3), angular form"""
    x, y, z = r[:, 0], r[:, 1], r[:, 2]
    ct = z
    st = np.sqrt(np.maximum(0.0, 1 - z * z))
    ph = np.arctan2(y, x)
    pi = np.pi
    if name == "s":
        return np.full_like(z, 1 / np.sqrt(4 * pi))
    if name == "pz":
        return np.sqrt(3 / (4 * pi)) * ct
    if name == "px":
        return np.sqrt(3 / (4 * pi)) * st * np.cos(ph)
    if name == "py":
        return np.sqrt(3 / (4 * pi)) * st * np.sin(ph)
    if name == "dz2":
        return np.sqrt(5 / (16 * pi)) * (3 * ct ** 2 - 1)
    if name == "dxz":
        return np.sqrt(15 / (4 * pi)) * st * ct * np.cos(ph)
    if name == "dyz":
        return np.sqrt(15 / (4 * pi)) * st * ct * np.sin(ph)
    if name == "dx2-y2":
        return np.sqrt(15 / (16 * pi)) * st ** 2 * np.cos(2 * ph)
    if name == "dxy":
        return np.sqrt(15 / (16 * pi)) * st ** 2 * np.sin(2 * ph)
    if name == "fz3":
        return np.sqrt(7 / pi) / 4 * (5 * ct ** 3 - 3 * ct)
    if name == "fxz2":
        return np.sqrt(21 / (2 * pi)) / 4 * (5 * ct ** 2 - 1) * st * np.cos(ph)
    if name == "fyz2":
        return np.sqrt(21 / (2 * pi)) / 4 * (5 * ct ** 2 - 1) * st * np.sin(ph)
    if name == "fzx2-zy2":
        return np.sqrt(105 / pi) / 4 * st ** 2 * ct * np.cos(2 * ph)
    if name == "fxyz":
        return np.sqrt(105 / pi) / 4 * st ** 2 * ct * np.sin(2 * ph)
    if name == "fx3-3xy2":
        return np.sqrt(35 / (2 * pi)) / 4 * st ** 3 * (np.cos(ph) ** 2 - 3 * np.sin(ph) ** 2) * np.cos(ph)
    if name == "f3yx2-y3":
        return np.sqrt(35 / (2 * pi)) / 4 * st ** 3 * (3 * np.cos(ph) ** 2 - np.sin(ph) ** 2) * np.sin(ph)
    raise KeyError(name)


def orbital(name, r):
    if name in HYB:
        return sum(c * harmonic(o, r) for o, c in HYB[name].items())
    return harmonic(name, r)


def shell_values(shell, r):
    return np.array([orbital(o, r) for o in SETS[shell]]).T      # (npts, norb)


def sphere_points(n=64):
    i = np.arange(n) + 0.5
    z = 1 - 2 * i / n
    ph = i * np.pi * (3 - np.sqrt(5)) + 0.37
    st = np.sqrt(1 - z * z)
    P = np.array([st * np.cos(ph), st * np.sin(ph), z]).T
    # a fixed generic tilt so that no point lies on a symmetry element of the groups used
    T = axis_angle([0.3, -0.5, 0.81], 0.4321)
    return P @ T.T


def axis_angle(axis, angle):
    a = np.asarray(axis, dtype=float)
    a = a / np.linalg.norm(a)
    K = np.array([[0, -a[2], a[1]], [a[2], 0, -a[0]], [-a[1], a[0], 0]])
    return np.eye(3) + np.sin(angle) * K + (1 - np.cos(angle)) * (K @ K)


_PTS = sphere_points()


def ref_matrix(shell, R, B1=None, B2=None):
    """(A, residual): phi_j(B1 R^-1 r) = sum_i phi_i(B2 r) A_ij ; ';'-joined shells give block-diagonal A"""
    shell = shell.strip()
    if ";" in shell:
        from scipy.linalg import block_diag
        parts = [ref_matrix(s, R, B1, B2) for s in shell.split(";")]
        return block_diag(*[p[0] for p in parts]), max(p[1] for p in parts)
    B1 = np.eye(3) if B1 is None else B1
    B2 = np.eye(3) if B2 is None else B2
    r = _PTS
    Phi = shell_values(shell, r @ B2.T)                       # phi_i(B2 r)
    Psi = shell_values(shell, r @ (B1 @ np.linalg.inv(R)).T)  # phi_j(B1 R^-1 r)
    A, *_ = np.linalg.lstsq(Phi, Psi, rcond=None)
    return A, float(np.abs(Phi @ A - Psi).max())


# ------------------------------------------------------------------------------------------------
# rotation alphabets
# ------------------------------------------------------------------------------------------------

def family(name):
    """list of (label, 3x3 matrix); identity first.  "gen5" (quick) is a prefix-like subset of "gen13" (thorough)"""
    from wbmc import groups
    if name == "Oh":
        els = groups.reference_elements(["C4z", ["rot", 3, [1, 1, 1]], "Inversion"])
        return [(f"Oh{i}", R) for i, (R, _) in enumerate(els)]
    if name == "D6h":
        els = groups.reference_elements(["C6z", "C2x", "Inversion"])
        return [(f"D6h{i}", R) for i, (R, _) in enumerate(els)]
    if name in ("gen5", "gen13"):
        a1, a2, a3, a4 = [0.3, 0.5, -0.7], [1.0, -0.2, 0.4], [-0.6, 0.1, 0.9], [0.2, 0.9, 0.3]
        prop = [("a1_0.70", axis_angle(a1, 0.70)), ("a1_0.76", axis_angle(a1, 0.76)), ("z_0.05", axis_angle([0, 0, 1], 0.05)),
                ("a2_2.1", axis_angle(a2, 2.1)), ("a3_1.234", axis_angle(a3, 1.234)), ("a4_3.0", axis_angle(a4, 3.0))]
        if name == "gen5":
            return [("1", np.eye(3))] + prop[:3] + [("-" + prop[3][0], -prop[3][1])]
        return [("1", np.eye(3))] + prop + [("-" + l, -R) for l, R in prop]
    if name in ("near6", "near11"):
        # pairs of distinct rotations NEAR_MIN..NEAR_MAX rad apart (element-wise difference ~30x the cache tolerance 1e-4)
        a1, a2, a3, a4 = [0.3, 0.5, -0.7], [1.0, -0.2, 0.4], [-0.6, 0.1, 0.9], [0.2, 0.9, 0.3]
        z = [0, 0, 1]
        R0, R2 = axis_angle(a1, 0.70), axis_angle(a2, 2.1)
        fam = [("1", np.eye(3)), ("z_0.004", axis_angle(z, 0.004)),
               ("a1_0.70", R0), ("a1_0.70*a3_0.005", R0 @ axis_angle(a3, 0.005)),
               ("-a2_2.1", -R2), ("-a2_2.1*a4_0.003", -R2 @ axis_angle(a4, 0.003))]
        if name == "near11":
            fam += [("a1_0.703", axis_angle(a1, 0.703)), ("a1_0.70*z_0.003", R0 @ axis_angle(z, 0.003)),
                    ("a1_0.70*z_0.006", R0 @ axis_angle(z, 0.006)), ("-1", -np.eye(3)), ("-z_0.006", -axis_angle(z, 0.006))]
        return fam
    raise KeyError(name)


# the library identifies two rotations when np.allclose(R1, R2, atol=1e-4) (element-wise, rtol 1e-5): everything the harness sends to
# one rotator must be either the same rotation (SAME) or clearly resolved (RESOLVED), never in between
SAME, RESOLVED = 1e-9, 3e-4
NEAR_MIN, NEAR_MAX = 3e-3, 1e-2        # angle between the members of a "near" pair


def rotation_angle_between(R1, R2):
    c = (np.trace(R1.T @ R2) - 1) / 2
    return float(np.arccos(np.clip(c, -1, 1)))


def ambiguous_pair(mats):
    """first pair (i, j) of `mats` whose element-wise distance lies between SAME and RESOLVED, or None"""
    M = np.array(mats)
    d = np.abs(M[:, None] - M[None, :]).max(axis=(2, 3))
    bad = np.argwhere((d > SAME) & (d < RESOLVED))
    return None if len(bad) == 0 else (int(bad[0][0]), int(bad[0][1]))


def local_rotations():
    from wbmc import groups
    sm = groups.spec_matrix
    return [("1", np.eye(3)), ("C4z", sm("C4z")[0]), ("C3_111", sm(["rot", 3, [1, 1, 1]])[0]), ("Mx", sm("Mx")[0]),
            ("S4z", sm("C4z*Inversion")[0]), ("C6z", sm("C6z")[0]), ("a1_0.70", axis_angle([0.3, 0.5, -0.7], 0.70)),
            ("-a2_2.1", -axis_angle([1.0, -0.2, 0.4], 2.1))]


def frames():
    # Bz keeps the z axis (so pz, pxy, ... stay closed under rotations about z), Bb is generic
    return {"I": np.eye(3), "Bz": axis_angle([0, 0, 1], 0.6), "Bb": axis_angle([0.2, -0.7, 0.4], 1.9)}


# ------------------------------------------------------------------------------------------------
# structures for Dwann
# ------------------------------------------------------------------------------------------------
from wbmc.structures import STRUCTURES, get_spacegroup  # noqa: E402

# (structure, site label, seed position, [(orbital, mode)]) ; frame mode =
#   "same"            the global frame on every site (rotate_basis=False, default axes)
#   "same:z=..:x=.."  one custom frame shared by all sites (rotate_basis=False with zaxis/xaxis)
#   "rot"             frames co-rotated with the sites (rotate_basis=True), default axes on the first site
#   "rot:z=..:x=.."   the same with custom axes on the first site (on a single-site orbit: one custom frame)
#   "tilt"            explicit basis_list: site ip has the global frame turned by TILT_STEP*(ip+1) about TILT_AXIS, so that the
#                     rotations B2 R B1^T of one operation seen from different sites are distinct but only a few 1e-3 rad apart
DWANN_SITES = [
    ("sc1", "1a", [0, 0, 0], [("_", "same"), ("s", "same"), ("p", "same"), ("d", "same"), ("sp3d2", "same"), ("t2g", "same"),
                              ("eg", "same"), ("s;p", "same"), ("sp3", "same"), ("f", "same"),
                              ("t2g", "rot:z=1,0,0:x=0,1,0"), ("eg", "same:z=1,0,0:x=0,1,0"), ("p", "rot:z=1,1,1"),
                              ("d", "same:z=1,1,0:x=0,0,1"), ("sp3", "same:z=0.2,-0.7,0.4")]),
    ("sc1", "3d", [0.5, 0, 0], [("_", "same"), ("p", "same"), ("pz", "same"), ("pz", "rot:z=1,0,0:x=0,1,0"), ("pxy", "rot:z=1,0,0:x=0,1,0"),
                                ("d", "rot"),
                                ("p", "same:z=1,1,1"), ("t2g", "same:z=1,0,0:x=0,1,0"), ("pz", "same:z=1,0,0:x=0,1,0"),
                                ("eg", "same:z=0,1,0:x=0,0,1"), ("d", "same:z=1,1,1"), ("p", "tilt")]),
    ("sc1", "8g", [0.25, 0.25, 0.25], [("s", "same"), ("p", "rot"), ("pz", "rot:z=1,1,1")]),
    ("bcc_mag", "2a", [0, 0, 0], [("s", "same"), ("p", "same"), ("pz", "same"), ("pxy", "same"), ("d", "same"), ("t2g", "same"),
                                  ("eg", "same"), ("sp3d2", "same"), ("f", "same"),
                                  ("pxy", "rot:z=0,0,1:x=1,1,0"), ("eg", "same:z=0,0,1:x=1,1,0"), ("d", "rot:z=0,0,1:x=1,1,0")]),
    ("hcp", "2c", [1 / 3, 2 / 3, 0], [("_", "same"), ("s", "same"), ("p", "same"), ("pz", "same"), ("pxy", "same"), ("sp2", "same"),
                                      ("sp2", "rot"), ("d", "same"), ("p2", "same"),
                                      ("pxy", "same:z=0,0,1:x=0,1,0"), ("sp2", "same:z=0,0,1:x=0,1,0"), ("p", "tilt"),
                                      ("p", "same:z=0.2,-0.7,0.4"), ("d", "same:z=0,0,1:x=0,1,0")]),
    ("hcp", "2a", [0, 0, 0], [("s", "same"), ("p", "rot"), ("pz", "same"), ("pxy", "same:z=0,0,1:x=1,1,0"), ("p", "tilt")]),
    ("zb", "4a", [0, 0, 0], [("s", "same"), ("p", "same"), ("sp3", "same"), ("d", "same"), ("t2g", "same"), ("eg", "same"),
                             ("t2g", "rot:z=0,1,0:x=0,0,1")]),
    ("zb", "4c", [.25, .25, .25], [("sp3", "same"), ("p", "same")]),
    ("diamond", "8a", [0, 0, 0], [("s", "same"), ("sp3", "same"), ("sp3", "rot"), ("p", "same"), ("p", "rot"),
                                  ("p", "same:z=1,1,1"), ("sp3", "same:z=1,0,0:x=0,1,0"), ("sp3", "tilt")]),
    ("diamond", "16c", [.125, .125, .125], [("s", "same"), ("pz", "rot:z=1,1,1"), ("pz", "same")]),
    ("mono", "2e", [0.1, 0.25, 0.2], [("s", "same"), ("p", "same"), ("d", "same"), ("p", "rot"),
                                      ("pz", "same:z=0,1,0:x=0,0,1"), ("pxy", "same:z=0,1,0:x=0,0,1"), ("p", "same:z=0.2,-0.7,0.4"),
                                      ("p", "tilt"), ("d", "tilt")]),
    ("mono", "4f", [0.13, 0.07, 0.31], [("_", "same"), ("s", "same"), ("p", "same"), ("p", "rot"),
                                        ("p", "tilt"), ("d", "same:z=0,1,0:x=1,0,0")]),
]
QUICK_SKIP_ORBITALS = {"f"}
# custom-frame sets left to the thorough tier (each frame mode and each structure keeps at least one set in quick)
QUICK_SKIP_SETS = {("sc1", "1a", "d", "same:z=1,1,0:x=0,0,1"), ("sc1", "1a", "sp3", "same:z=0.2,-0.7,0.4"),
                   ("sc1", "3d", "eg", "same:z=0,1,0:x=0,0,1"), ("sc1", "3d", "d", "same:z=1,1,1"),
                   ("hcp", "2c", "p", "same:z=0.2,-0.7,0.4"), ("hcp", "2c", "d", "same:z=0,0,1:x=0,1,0"),
                   ("hcp", "2a", "pxy", "same:z=0,0,1:x=1,1,0"), ("diamond", "8a", "sp3", "same:z=1,0,0:x=0,1,0"),
                   ("mono", "4f", "d", "same:z=0,1,0:x=1,0,0"), ("hcp", "2a", "p", "tilt"), ("sc1", "3d", "p", "tilt"),
                   ("diamond", "8a", "sp3", "tilt")}
# (an axis lying almost in a mirror plane of a structure would make two of the rotations B2 R B1^T differ only in second order of the
#  tilt, ~1e-5, inside the tolerance with which the rotator identifies rotations by design: run_dwann refuses such an alphabet)
TILT_AXIS, TILT_STEP = [0.2, -0.7, 0.4], 3e-3
K_DWANN = [(0.1, 0.2, 0.3), (0.5, 0.0, 0.0), (0.0, 0.0, 0.0)]
G_DWANN = [(0, 0, 0), (1, 0, -1)]


# ------------------------------------------------------------------------------------------------
# cases
# ------------------------------------------------------------------------------------------------

NEAR_QUICK_SKIP_SHELLS = {"f", "sp3d2", "sp3;eg"}


def families(tier):
    return ("gen5", "near6", "D6h", "Oh") if tier == "quick" else ("gen13", "near11", "D6h", "Oh")


def cases(tier, seed):
    shells = BASIS_SHELLS + HYBRIDS + JOINED
    for fam in families(tier):
        for sh in shells:
            if tier == "quick" and sh == "f" and fam == "D6h":
                continue
            if tier == "quick" and fam == "near6" and sh in NEAR_QUICK_SKIP_SHELLS:
                continue
            yield {"kind": "family", "shell": sh, "family": fam}
    local_shells = ["s", "p", "pz", "pxy", "p2", "sp", "sp2", "sp3", "eg", "t2g", "d", "s;p"]
    if tier != "quick":
        local_shells += ["sp3d2", "f", "sp3;eg"]
    cheap = ("p", "sp3", "pz") if tier == "quick" else ("s", "p", "pz", "pxy", "p2", "sp", "sp2", "sp3", "s;p")
    for sh in local_shells:
        yield {"kind": "local", "shell": sh, "compose": sh in cheap}
    for st, site, pos, orbs in DWANN_SITES:
        for orb, mode in orbs:
            if tier == "quick" and (orb in QUICK_SKIP_ORBITALS or (st, site, orb, mode) in QUICK_SKIP_SETS):
                continue
            for spinor in (False, True):
                yield {"kind": "dwann", "structure": st, "site": site, "position": pos, "orbital": orb, "mode": mode,
                       "spinor": spinor}


# ------------------------------------------------------------------------------------------------
# kind: family
# ------------------------------------------------------------------------------------------------

BOTH_ORDERS = ("gen5", "gen13", "near6", "near11")


def stale_answer(a, R, expected, previous):
    """(only used to name a failure) label of a rotation evaluated before through the same rotator that is resolved from R
    (element-wise > RESOLVED) and has a different expected matrix, but whose returned matrix is what the rotator answered now for R;
    None if there is no such rotation.  previous = [(label, rotation, returned matrix, expected matrix)]"""
    for lab, Rp, ap, ep in previous:
        if (np.abs(Rp - R).max() > RESOLVED and ap.shape == a.shape and np.abs(ap - a).max() < 1e-13
                and np.abs(ep - expected).max() > 1e-6):
            return lab
    return None


def run_family(case):
    from wannierberri.symmetry.orbitals import OrbitalRotator, num_orbitals
    sh, famname = case["shell"], case["family"]
    fam = family(famname)
    n = len(fam)
    norb = num_orbitals(sh)
    # --- the alphabet itself: nothing that goes through a rotator may sit in the tolerance band of the cache
    # (the products of O_h and D_6h are members of the family, up to rounding)
    if famname in BOTH_ORDERS:
        products = [fam[g1][1] @ fam[g2][1] for g1 in range(n) for g2 in range(n)]
        amb = ambiguous_pair([R for _, R in fam] + products)
        if amb is not None:
            return {"ok": False, "key": "harness:rotations_in_cache_tolerance_band", "detail": f"family {famname}: items {amb}"}
    near_pairs = 0
    if famname.startswith("near"):
        ang = [[rotation_angle_between(fam[i][1], fam[j][1]) for j in range(n)] for i in range(n)]
        for i in range(n):
            nb = [j for j in range(n) if j != i and np.linalg.det(fam[i][1]) * np.linalg.det(fam[j][1]) > 0 and ang[i][j] < NEAR_MAX]
            if not nb or min(ang[i][j] for j in nb) < NEAR_MIN * (1 - 1e-9):
                return {"ok": False, "key": "harness:near_family",
                        "detail": f"family {famname}: {fam[i][0]} has no neighbour {NEAR_MIN}..{NEAR_MAX} rad away"}
            near_pairs += len(nb)
        near_pairs //= 2
    Aref, closed = [], []
    for lab, R in fam:
        ar, res = ref_matrix(sh, R)
        Aref.append(ar)
        closed.append(res < CLOSED)

    def one_pass(rot, order):
        """all rotations of the family through `rot` in the given order, each against the reference"""
        out = {}
        previous = []
        for g in order:
            lab, R = fam[g]
            a = np.array(rot(sh, rot_cart=R.copy()))
            where = f"shell={sh!r} rotation={lab} (family {famname}, order {'listed' if order[0] == 0 else 'reversed'}) det={np.linalg.det(R):+.0f}"
            if a.shape != (norb, norb) or not np.all(np.isfinite(a)):
                return None, {"ok": False, "key": f"OrbitalRotator:shape:{sh.strip()}", "detail": where + f" shape {a.shape}"}
            out[g] = a
            if closed[g]:
                ar = Aref[g]
                if np.abs(a - ar).max() > TOL:
                    i, j = np.unravel_index(np.abs(a - ar).argmax(), a.shape)
                    msg = where + (f" max |A_code-A_ref|={np.abs(a - ar).max():.3e} at ({i},{j}): code {a[i, j]:.6f} "
                                   f"ref {ar[i, j]:.6f}")
                    stale = stale_answer(a, R, ar, previous)
                    if stale is not None:
                        return None, {"ok": False, "key": "OrbitalRotator:cache_merges_distinct_rotations",
                                      "detail": msg + f"; it is the matrix of rotation {stale}, evaluated before, which is "
                                                      f"{rotation_angle_between(R, dict(fam)[stale]):.2e} rad away"}
                    return None, {"ok": False, "key": f"rot_orb:differs_from_reference:{shell_key(sh)}", "detail": msg}
                if np.abs(a.T @ a - np.eye(norb)).max() > TOL:
                    return None, {"ok": False, "key": f"rot_orb:not_orthogonal:{shell_key(sh)}", "detail": where}
            previous.append((lab, R, a, Aref[g] if closed[g] else a))
        return out, None

    rot = OrbitalRotator()
    A, bad = one_pass(rot, list(range(n)))
    if bad:
        return bad
    A = [A[g] for g in range(n)]
    if not closed[0] or np.abs(A[0] - np.eye(norb)).max() > TOL:
        return {"ok": False, "key": f"rot_orb:identity:{shell_key(sh)}", "detail": f"shell={sh!r}: A(1) != 1"}
    # the other order through a fresh rotator (generic and near families)
    if famname in BOTH_ORDERS:
        B, bad = one_pass(OrbitalRotator(), list(range(n - 1, -1, -1)))
        if bad:
            return bad
        for g in range(n):
            if closed[g] and np.abs(B[g] - A[g]).max() > TOL:
                return {"ok": False, "key": "OrbitalRotator:cache_history_dependent",
                        "detail": f"shell={sh!r} rotation={fam[g][0]} (family {famname}): listed and reversed order differ by "
                                  f"{np.abs(B[g] - A[g]).max():.3e}"}
    # cache: same answers in reverse order and through irot
    for g in range(n - 1, -1, -1):
        b = np.array(rot(sh, rot_cart=fam[g][1].copy()))
        if np.abs(b - A[g]).max() > 0:
            return {"ok": False, "key": "OrbitalRotator:cache_history_dependent", "detail": f"shell={sh!r} rotation={fam[g][0]}"}
    for irot in range(len(rot.calcualted_matrices)):
        Rc = rot.calcualted_matrices[irot]
        g = [i for i, (_, R) in enumerate(fam) if np.abs(R - Rc).max() < 1e-12]
        if len(g) != 1:
            return {"ok": False, "key": "OrbitalRotator:cache_list", "detail": f"shell={sh!r} stored matrix {irot} matches {len(g)} rotations"}
        if np.abs(np.array(rot(sh, irot=irot)) - A[g[0]]).max() > 0:
            return {"ok": False, "key": "OrbitalRotator:irot", "detail": f"shell={sh!r} irot={irot}"}
    if len(rot.calcualted_matrices) != n:
        return {"ok": False, "key": "OrbitalRotator:cache_merges_distinct_rotations",
                "detail": f"shell={sh!r} family {famname}: {n} distinct rotations stored as {len(rot.calcualted_matrices)}"}
    # composition law, all ordered pairs
    npairs = 0
    asked = [(lab, R, A[g], A[g]) for g, (lab, R) in enumerate(fam)]
    for g1 in range(n):
        for g2 in range(n):
            if not (closed[g1] and closed[g2]):
                continue
            R12 = fam[g1][1] @ fam[g2][1]
            c = np.array(rot(sh, rot_cart=R12))
            npairs += 1
            if np.abs(c - A[g1] @ A[g2]).max() > TOL:
                msg = (f"shell={sh!r} A({fam[g1][0]}*{fam[g2][0]}) != A({fam[g1][0]}) A({fam[g2][0]}): "
                       f"{np.abs(c - A[g1] @ A[g2]).max():.3e}")
                stale = stale_answer(c, R12, A[g1] @ A[g2], asked)
                if stale is not None:
                    return {"ok": False, "key": "OrbitalRotator:cache_merges_distinct_rotations",
                            "detail": msg + f"; the product was answered with the matrix of {stale}, evaluated before"}
                return {"ok": False, "key": f"rot_orb:composition:{shell_key(sh)}", "detail": msg}
            asked.append((f"{fam[g1][0]}*{fam[g2][0]}", R12, c, c))
    nclosed = sum(closed[1:])
    return {"ok": True, "nontrivial": ((sh.strip(), famname) if nclosed else False),
            "obs": {"rotations": n, "closed": int(sum(closed)), "pairs": npairs, "near_pairs": near_pairs,
                    "orders": 2 if famname in BOTH_ORDERS else 1}}


def shell_key(sh):
    return sh.replace(" ", "")


# ------------------------------------------------------------------------------------------------
# kind: local
# ------------------------------------------------------------------------------------------------

def run_local(case):
    from wannierberri.symmetry.orbitals import OrbitalRotator, num_orbitals
    sh = case["shell"]
    rot = OrbitalRotator()
    Fr = frames()
    rots = local_rotations()
    norb = num_orbitals(sh)
    nclosed = 0
    neval = 0
    store = {}
    for (lab, R), (n1, B1), (n2, B2) in itertools.product(rots, Fr.items(), Fr.items()):
        a = np.array(rot(sh, rot_cart=R.copy(), basis1=B1.copy(), basis2=B2.copy()))
        ar, res = ref_matrix(sh, R, B1, B2)
        neval += 1
        store[(lab, n1, n2)] = (a, res < CLOSED)
        if res >= CLOSED:
            continue
        if np.abs(B2 @ R @ B1.T - np.eye(3)).max() > 1e-6:
            nclosed += 1
        where = f"shell={sh!r} rotation={lab} basis1={n1} basis2={n2}"
        if np.abs(a - ar).max() > TOL:
            return {"ok": False, "key": f"OrbitalRotator:local_basis:differs_from_reference:{shell_key(sh)}",
                    "detail": where + f" max diff {np.abs(a - ar).max():.3e}"}
        if np.abs(a.T @ a - np.eye(norb)).max() > TOL:
            return {"ok": False, "key": f"OrbitalRotator:local_basis:not_orthogonal:{shell_key(sh)}", "detail": where}
    # co-rotated frame: B2 = B1 R^T  => the orbital set is mapped onto itself index by index
    for (lab, R), (n1, B1) in itertools.product(rots, Fr.items()):
        B2 = B1 @ R.T
        if np.linalg.det(R) < 0:
            continue            # a frame must stay right-handed; Projection uses proper site rotations times inversion as given
        a = np.array(rot(sh, rot_cart=R.copy(), basis1=B1.copy(), basis2=B2))
        neval += 1
        if np.abs(a - np.eye(norb)).max() > TOL:
            return {"ok": False, "key": f"OrbitalRotator:local_basis:corotated_frame:{shell_key(sh)}",
                    "detail": f"shell={sh!r} rotation={lab} basis1={n1} basis2=basis1 R^T: matrix is not the identity"}
    # composition through an intermediate frame (cheap shells; all pairs of rotations, all frame triples)
    npairs = 0
    if case.get("compose"):
        for (l1, R1), (l2, R2) in itertools.product(rots, rots):
            for n1, n2, n3 in itertools.product(Fr, repeat=3):
                a2, c2 = store[(l2, n1, n2)]
                a1, c1 = store[(l1, n2, n3)]
                if not (c1 and c2):
                    continue
                c = np.array(rot(sh, rot_cart=R1 @ R2, basis1=Fr[n1].copy(), basis2=Fr[n3].copy()))
                npairs += 1
                if np.abs(c - a1 @ a2).max() > TOL:
                    return {"ok": False, "key": f"OrbitalRotator:local_basis:composition:{shell_key(sh)}",
                            "detail": f"shell={sh!r} {l1}*{l2} frames {n1}->{n2}->{n3}: {np.abs(c - a1 @ a2).max():.3e}"}
    return {"ok": True, "nontrivial": ((shell_key(sh), "local") if nclosed > 0 else False),
            "obs": {"evaluations": neval, "closed": nclosed, "pairs": npairs}}


# ------------------------------------------------------------------------------------------------
# kind: dwann
# ------------------------------------------------------------------------------------------------

def mod1_equal(a, b, tol=1e-6):
    d = np.asarray(a, dtype=float) - np.asarray(b, dtype=float)
    return np.abs(d - np.round(d)).max() < tol


def run_dwann(case):
    from wannierberri.symmetry.Dwann import Dwann
    from wannierberri.symmetry.orbitals import OrbitalRotator, num_orbitals
    from wannierberri.symmetry.projections import Projection
    st, orb, mode, spinor = case["structure"], case["orbital"], case["mode"], case["spinor"]
    sg = get_spacegroup(st, spinor)
    L = np.array(STRUCTURES[st]["lattice"], dtype=float)
    pos0 = np.array(case["position"], dtype=float)
    where = f"structure={st} site={case['site']}{case['position']} orbital={orb!r} mode={mode} spinor={spinor}"
    base, _, axes = mode.partition(":")
    if base not in ("same", "rot", "tilt") or (base == "tilt" and axes):
        return {"ok": False, "key": "harness:frame_mode", "detail": where}
    kw = dict(rotate_basis=(base == "rot"))
    if axes:
        ax = dict(a.split("=") for a in axes.split(":"))
        kw["zaxis"] = [float(x) for x in ax["z"].split(",")]
        if "x" in ax:
            kw["xaxis"] = [float(x) for x in ax["x"].split(",")]
    proj = Projection(position_num=[pos0], orbital=("s" if orb == "_" else orb), spacegroup=sg, do_not_split_projections=True, **kw)
    if base == "tilt":
        # explicit frames, slightly different on every site: all positions of the orbit are given, in the order found above
        tilted = [axis_angle(TILT_AXIS, TILT_STEP * (ip + 1)) for ip in range(len(proj.positions))]
        proj = Projection(position_num=np.array(proj.positions, dtype=float), orbital=orb, spacegroup=sg,
                          do_not_split_projections=True, basis_list=[b.copy() for b in tilted])
        if len(proj.basis_list) != len(tilted) or any(np.abs(np.array(b) - t).max() > 0 for b, t in zip(proj.basis_list, tilted)):
            return {"ok": False, "key": "Projection:basis_list_not_kept", "detail": where}
    positions = np.array(proj.positions, dtype=float)
    basis_list = [np.array(b, dtype=float) for b in proj.basis_list]
    common_frame = all(np.abs(b - basis_list[0]).max() < 1e-12 for b in basis_list)
    custom_frame = bool(np.abs(basis_list[0] - np.eye(3)).max() > 1e-6)
    for b in basis_list:
        if np.abs(b @ b.T - np.eye(3)).max() > 1e-9:
            return {"ok": False, "key": "Projection:basis_not_orthogonal", "detail": where}
    rotator = OrbitalRotator()
    D = Dwann(spacegroup=sg, positions=positions, orbital=orb, orbitalrotator=rotator, basis_list=basis_list, spinor=spinor)
    # --- orbit: brute force
    ops = [(np.array(s.rotation, dtype=float), np.array(s.translation, dtype=float), bool(s.time_reversal)) for s in sg.symmetries]
    orbit_ref = []
    for W, t, _ in ops:
        p = W @ pos0 + t
        if not any(mod1_equal(p, q) for q in orbit_ref):
            orbit_ref.append(p)
    orbit = [np.array(p, dtype=float) for p in D.orbit]
    if len(orbit) != len(orbit_ref) or D.num_points != len(orbit_ref) or any(
            sum(mod1_equal(p, q) for q in orbit) != 1 for p in orbit_ref):
        return {"ok": False, "key": "Dwann:orbit", "detail": where + f" {len(orbit)} points, brute force {len(orbit_ref)}"}
    if len(positions) != len(orbit) or any(np.abs(p - q).max() > 1e-12 for p, q in zip(positions, orbit)):
        return {"ok": False, "key": "Dwann:orbit_order", "detail": where + " orbit does not keep the given positions and their order"}
    npnt = len(orbit)
    nsym = len(ops)
    norb = 1 if orb == "_" else num_orbitals(orb)
    nspin = 2 if spinor else 1
    nb = norb * nspin
    if D.num_wann != npnt * nb or D.rot_orb.shape != (npnt, nsym, nb, nb):
        return {"ok": False, "key": "Dwann:dimensions", "detail": where + f" num_wann={D.num_wann} rot_orb {D.rot_orb.shape}"}
    # --- images of the centres
    Linv_T = np.linalg.inv(L).T
    amap = np.zeros((npnt, nsym), dtype=int)
    Tref = np.zeros((npnt, nsym, 3), dtype=int)
    allclosed = True
    blocks = {}
    Aref_cache = {}
    sent = {}          # the distinct rotations B2 R B1^T that Dwann asks its rotator for
    for isym, (W, t, TR) in enumerate(ops):
        Rc = L.T @ W @ Linv_T
        if np.abs(Rc @ Rc.T - np.eye(3)).max() > 1e-8:
            return {"ok": False, "key": "harness:rotation_cart", "detail": where}
        symop = sg.symmetries[isym]
        S = None
        if spinor:
            S = np.array(symop.spinor_rotation, dtype=complex)
            if np.abs(S.conj().T @ S - np.eye(2)).max() > 1e-9:
                return {"ok": False, "key": "harness:spinor_rotation_not_unitary", "detail": where}
            if TR:
                S = np.array([[0, 1], [-1, 0]]) @ S.conj()
        for ip in range(npnt):
            img = W @ orbit[ip] + t
            jps = [jp for jp in range(npnt) if mod1_equal(orbit[jp], img)]
            if len(jps) != 1:
                return {"ok": False, "key": "harness:image", "detail": where}
            jp = jps[0]
            amap[ip, isym] = jp
            Tref[ip, isym] = np.round(orbit[jp] - img).astype(int)
            if D.atommap[ip, isym] != jp:
                return {"ok": False, "key": "Dwann:atommap", "detail": where + f" isym={isym} point {ip} -> {D.atommap[ip, isym]}, image is {jp}"}
            if np.any(D.T[ip, isym] != Tref[ip, isym]):
                return {"ok": False, "key": "Dwann:T", "detail": where + f" isym={isym} point {ip}: T={D.T[ip, isym].tolist()} but "
                                                                       f"orbit[jp]-symop(orbit[ip])={Tref[ip, isym].tolist()}"}
            if orb == "_":
                A, res = np.eye(1), 0.0
            else:
                ck = (element_key(Rc),) if common_frame else (isym, ip)
                if ck not in Aref_cache:
                    Aref_cache[ck] = ref_matrix(orb, Rc, basis_list[ip], basis_list[jp])
                A, res = Aref_cache[ck]
                Rloc = basis_list[jp] @ Rc @ basis_list[ip].T
                sent.setdefault(element_key(Rloc), Rloc)
            if res >= CLOSED:
                allclosed = False
            blocks[(ip, isym)] = (np.kron(A, S) if spinor else A.astype(complex), res < CLOSED)
    # --- the alphabet itself: no two rotations of this case may sit in the tolerance band of the rotator's cache
    sent = list(sent.values())
    near_pairs = 0
    if sent:
        amb = ambiguous_pair(sent)
        if amb is not None:
            return {"ok": False, "key": "harness:rotations_in_cache_tolerance_band", "detail": where + f" items {amb}"}
        if base == "tilt":
            near_pairs = sum(1 for i in range(len(sent)) for j in range(i) if np.abs(sent[i] - sent[j]).max() > RESOLVED
                             and np.linalg.det(sent[i]) * np.linalg.det(sent[j]) > 0
                             and rotation_angle_between(sent[i], sent[j]) < NEAR_MAX)
            if near_pairs == 0:
                return {"ok": False, "key": "harness:tilt_mode_without_near_pairs", "detail": where}
    # --- matrices on k-points
    nchecked = 0
    prodtab = None
    for k in K_DWANN:
        k = np.array(k, dtype=float)
        Dk = {}
        for isym, (W, t, TR) in enumerate(ops):
            gk = (k @ np.linalg.inv(W)) * (-1 if TR else 1)
            for G in G_DWANN:
                try:
                    M = D.get_on_points(k, gk + np.array(G), isym)
                except AssertionError as e:
                    return {"ok": False, "key": "Dwann.get_on_points:refuses_image_k", "detail": where + f" isym={isym} k={k.tolist()} {e}"}
                if G == (0, 0, 0):
                    Dk[isym] = M
                elif np.abs(M - Dk[isym]).max() > 1e-12:
                    return {"ok": False, "key": "Dwann.get_on_points:depends_on_G", "detail": where + f" isym={isym}"}
            M = Dk[isym]
            if M.shape != (npnt * nb, npnt * nb):
                return {"ok": False, "key": "Dwann:dimensions", "detail": where}
            for ip in range(npnt):
                for jp in range(npnt):
                    blk = M[jp * nb:(jp + 1) * nb, ip * nb:(ip + 1) * nb]
                    if jp != amap[ip, isym]:
                        if np.abs(blk).max() > 0:
                            return {"ok": False, "key": "Dwann.get_on_points:block_outside_atommap",
                                    "detail": where + f" isym={isym} block ({jp},{ip}) non-zero, image of {ip} is {amap[ip, isym]}"}
                        continue
                    Bref, ok = blocks[(ip, isym)]
                    if not ok:
                        continue
                    phase = np.exp(2j * np.pi * np.dot(gk, Tref[ip, isym]))
                    nchecked += 1
                    if np.abs(blk - phase * Bref).max() > TOL:
                        big = np.abs(Bref) > 1e-6
                        ratio = blk[big] / (phase * Bref[big])
                        scalar = (np.abs(blk[~big]).max(initial=0) < TOL and np.abs(np.abs(ratio) - 1).max() < 1e-6
                                  and np.abs(ratio - ratio[0]).max() < 1e-6)
                        what = "phase" if scalar else "orbital_block"
                        return {"ok": False, "key": f"Dwann.get_on_points:{what}",
                                "detail": where + f" isym={isym} (TR={TR}) k={k.tolist()} block ({jp},{ip}) T={Tref[ip, isym].tolist()} "
                                                  f"max diff {np.abs(blk - phase * Bref).max():.3e}"}
            if allclosed and np.abs(M.conj().T @ M - np.eye(len(M))).max() > TOL:
                return {"ok": False, "key": "Dwann.get_on_points:not_unitary", "detail": where + f" isym={isym} k={k.tolist()}"}
        # --- representation law for all ordered pairs (h after g)
        if allclosed:
            if prodtab is None:
                prodtab = {}
                bykey = {}
                for m, (W, t, TR) in enumerate(ops):
                    bykey.setdefault((element_key(W), TR), []).append(m)
                for ig, (Wg, tg, TRg) in enumerate(ops):
                    for ih, (Wh, th, TRh) in enumerate(ops):
                        thg = Wh @ tg + th
                        ms = [m for m in bykey.get((element_key(Wh @ Wg), TRh != TRg), []) if mod1_equal(ops[m][1], thg)]
                        if len(ms) != 1:
                            return {"ok": False, "key": "harness:spacegroup_not_closed", "detail": where + f" {ih}*{ig}"}
                        prodtab[(ih, ig)] = (ms[0], np.round(thg - ops[ms[0]][1]))
            for ig, (Wg, tg, TRg) in enumerate(ops):
                gk = (k @ np.linalg.inv(Wg)) * (-1 if TRg else 1)
                for ih, (Wh, th, TRh) in enumerate(ops):
                    m, tL = prodtab[(ih, ig)]
                    hgk = (gk @ np.linalg.inv(Wh)) * (-1 if TRh else 1)
                    Dh = D.get_on_points(gk, hgk, ih)
                    Dg = Dk[ig].conj() if TRh else Dk[ig]
                    lhs = Dh @ Dg
                    rhs = np.exp(-2j * np.pi * np.dot(hgk, tL)) * Dk[m]
                    err = np.abs(lhs - rhs).max()
                    if spinor:
                        err = min(err, np.abs(lhs + rhs).max())
                    if err > 1e-8:
                        return {"ok": False, "key": "Dwann.get_on_points:not_a_representation",
                                "detail": where + f" k={k.tolist()} D(gk;h)D(k;g) != phase*D(k;hg) for g={ig}, h={ih}, hg={m}, "
                                                  f"lattice translation {tL.tolist()}: {err:.3e}"}
    nt = allclosed and (npnt > 1 or nsym > 1)
    return {"ok": True, "nontrivial": ((st, case["site"], orb, mode, spinor) if nt else False),
            "obs": {"orbit": npnt, "nsym": nsym, "all_closed": bool(allclosed), "blocks_checked": nchecked,
                    "frames": ("common" if common_frame else "per_site") + ("_custom" if custom_frame else "_global"),
                    "distinct_local_rotations": len(sent), "near_pairs": near_pairs,
                    "translations_nonzero": int(np.any(Tref != 0))}}


def element_key(R):
    return tuple(int(x) for x in np.round(np.asarray(R) * 1e6).reshape(-1))


def setup(tier, seed):
    from wannierberri.symmetry.orbitals import get_orbitals
    get_orbitals()       # sympy import + symbol tables once, before forking
    import irrep.spacegroup  # noqa: F401  (slow import, once)
    import wannierberri.symmetry.Dwann  # noqa: F401
    import wannierberri.symmetry.projections  # noqa: F401


def run_case(case, seed):
    if case["kind"] == "family":
        return run_family(case)
    if case["kind"] == "local":
        return run_local(case)
    return run_dwann(case)


def finish(tier, cases, results):
    fam = [r.get("obs", {}) for c, r in zip(cases, results) if c["kind"] == "family"]
    dw = [r.get("obs", {}) for c, r in zip(cases, results) if c["kind"] == "dwann"]
    dwc = [c for c in cases if c["kind"] == "dwann"]
    modes = {}
    for c, o in zip(dwc, dw):
        k = c["mode"].partition(":")[0] + (":<axes>" if ":" in c["mode"] else "")
        modes[k] = modes.get(k, 0) + 1
    shared_custom = sum(1 for o in dw if o.get("frames") == "common_custom")
    return {"axes": {"shells": len(BASIS_SHELLS + HYBRIDS + JOINED), "families": {f: len(family(f)) for f in families(tier)},
                     "local_rotations": 8, "frames": 3, "structures": len(STRUCTURES),
                     "dwann_site_orbital_sets": len(dwc) // 2, "dwann_cases_per_frame_mode": modes},
            "dwann_cases_one_custom_frame_on_all_sites": int(shared_custom),
            "dwann_cases_one_custom_frame_multi_site_orbit": int(sum(1 for o in dw if o.get("frames") == "common_custom"
                                                                     and o.get("orbit", 1) > 1)),
            "near_rotation_pairs_in_families": int(sum(o.get("near_pairs", 0) for o in fam)),
            "near_rotation_pairs_in_dwann_tilt_cases": int(sum(o.get("near_pairs", 0) for o in dw)),
            "rotation_matrices_vs_reference": int(sum(o.get("closed", 0) for o in fam)),
            "composition_pairs": int(sum(o.get("pairs", 0) for o in fam)),
            "dwann_blocks_checked": int(sum(o.get("blocks_checked", 0) for o in dw)),
            "dwann_cases_not_closed": int(sum(1 for o in dw if o and not o.get("all_closed", True)))}
