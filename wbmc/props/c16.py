"""C16 — result objects behave as vectors and survive saving.

Bounded exhaustive exploration of *operation sequences* on the real result classes against a plain-ndarray
reference model written here:

* EnergyResult : every sequence up to depth 3 over {+b, -b, b-, +Void, Void+, -Void, Void-, 0+, add(b) in place,
  *c, c*, /c, transform(g), mul_array} for every shape (1-2 energy axes of length 1/3, rank 0-3, declared-rank
  shapes with a non-tensor trailing axis), dtype and (TR, Inv) transform pair of the alphabet;
* KBandResult  : the same with the documented semantics ('+' stacks k-points, `add`, '-', '*' element-wise,
  '/c' is the identity);
* ResultDict   : dictionaries of energy results (and a void member) — every operation distributes over the members;
* single-operation laws on the full alphabets (all scalars, all elements of the symmetry groups, full impulse
  basis): (a+b).data=a.data+b.data …, VoidResult neutral on both sides, T_g(a+b)=T_g a+T_g b, and pairs with
  *different* declared transforms (a+b must be refused or T_g must still distribute);
* EnergyResult.save -> EnergyResult.from_npz reproduces energies, data, rank, transformations (as attributes and
  by their action on tensors), titles and comment, for every transform pair including None.
"""
import copy
import itertools
import os
import tempfile

import numpy as np

ID = "C16"
LEVEL = "exploration"
RULE = ("cases = (result class, shape, tensor rank, dtype, (TR,Inv) transform pair) x kind; a 'seq' case runs every "
        "operation sequence up to the depth bound over the operation alphabet and compares data and metadata with a plain "
        "ndarray model after every step; 'law' cases run each single operation over the full scalar / group-element / "
        "impulse alphabets; 'save' cases write and re-read the npz; non-trivial = the case executed at least one "
        "operation whose model result differs from its input (all seq/law cases) or a save/load of a result with a "
        "non-identity transform, declared rank or non-default comment")
ASSUMPTIONS = ["K-resolved results follow the documented semantics: '+' stacks k-points, '/c' is the identity, '-'/'add' need "
               "equal numbers of k-points (operands of other shapes are not offered)",
               "operands of '+', '-' share energies and smoothers; division by zero and complex scalars are not in the scalar "
               "alphabet {-1, 0, 0.5, 2, 1/3, np.float64(3), np.int64(2)}",
               "transform() with a time-reversal (inversion) operation is only applied to results whose transformTR "
               "(transformInv) is not None; None transforms are exercised with the other operations and with save/load",
               "symmetry operations: all elements of C4v1' (16) and D3d (12) [quick] + m-3m' black-white (48) and a "
               "black-white D6h (24) [thorough], built as PointSymmetry(R, TR) from matrices closed in the harness; sequences "
               "use one element of each (proper/improper x TR/no TR) class",
               "sequence depth 3; energy-axis lengths {1,3}; nk {1,2}, nband {1,3}; tensor rank <= 3 (K results <= 2); the quick "
               "tier uses a reduced operation alphabet in sequences (16 ops for EnergyResult, 14 for KBandResult; thorough 23/19)",
               "inputs at the border of the operand domain (result*np.int64, VoidResult as right operand of K/dictionary results, "
               "K__Result.add with differently chunked operands, save with transform=None) are kept out of the sequences and "
               "judged in dedicated 'edge' cases with one key each, so that one of them failing does not hide the others",
               "in K sequences the operand of the in-place add is split into the same chunks as the receiver"]

# ------------------------------------------------------------------------------------------------ alphabets
TRANSFORMS = {   # name -> (Transform kwargs or None, minimal tensor rank)
    "none": (None, 0),
    "ident": ({}, 0),
    "odd": ({"factor": -1}, 0),
    "odd_conj": ({"factor": -1, "conj": True}, 0),
    "conj": ({"conj": True}, 0),
    "trans": ({"transpose_axes": (1, 0)}, 2),
    "swap12": ({"swap_axes": (-1, -2)}, 2),
    "odd_trans_021": ({"factor": -1, "transpose_axes": (0, 2, 1)}, 3),
    "odd_trans_102": ({"factor": -1, "transpose_axes": (1, 0, 2)}, 3),
    "trans_201": ({"transpose_axes": (2, 0, 1)}, 3),
    "odd_swap13": ({"factor": -1, "swap_axes": (-1, -3)}, 3),
}
SCALARS = [["int", -1], ["int", 0], ["float", 0.5], ["int", 2], ["float", 1 / 3], ["f64", 3], ["i64", 2]]
COMMENTS = ["undocumented", "", "two\nlines # with a hash", "unicode σ_xy [S/cm]"]
GROUPS_Q = [("C4v", "grey"), ("D3d", "plain")]
GROUPS_T = GROUPS_Q + [("Oh", "bw0"), ("D6h", "bw1")]


def transforms_for(rank):
    return [n for n, (_, r) in TRANSFORMS.items() if rank >= r]


def pairs_for(rank, full=False):
    names = transforms_for(rank)
    if full:
        return [(a, b) for a in names for b in names]
    nn = [n for n in names if n != "none"]
    out = [(nn[i], nn[(i + 1) % len(nn)]) for i in range(len(nn))]   # every transform once as TR and once as Inv
    return out + [("none", "none"), ("none", "odd")]


def scalar(spec):
    k, v = spec
    return {"int": int, "float": float, "f64": np.float64, "i64": np.int64}[k](v)


def sname(spec):
    return f"{spec[0]}({spec[1]:.4g})"


ESHAPES_Q = [[1], [3], [1, 3], [3, 3]]
ESHAPES_T = [[1], [3], [1, 1], [1, 3], [3, 1], [3, 3]]
TENSORS = [[0, []], [1, []], [2, []], [3, []], [0, [2]], [1, [2]]]     # (rank, extra non-tensor trailing axes)
KSHAPES = [[1, 1], [1, 3], [2, 1], [2, 3]]


def cases(tier, seed):
    eshapes = ESHAPES_Q if tier == "quick" else ESHAPES_T
    opset = "reduced" if tier == "quick" else "full"
    # single-operation laws, full alphabets
    for es in eshapes:
        for rank, extra in TENSORS:
            for dt in ("real", "complex"):
                for tr, inv in pairs_for(rank):
                    yield {"kind": "E_law", "eshape": es, "rank": rank, "extra": extra, "dtype": dt, "tr": tr, "inv": inv,
                           "tier": tier}
    for ks in KSHAPES:
        for rank in (0, 1, 2):
            for dt in ("real", "complex"):
                for tr, inv in pairs_for(rank):
                    yield {"kind": "K_law", "kshape": ks, "rank": rank, "dtype": dt, "tr": tr, "inv": inv, "tier": tier}
    # pairs with different declared transforms
    for rank in (0, 2, 3):
        names = [n for n in transforms_for(rank) if n != "none"]
        for ta in names:
            for tb in names:
                if ta != tb:
                    for which in ("tr", "inv"):
                        for cls in ("E", "K") if rank < 3 else ("E",):
                            yield {"kind": "mismatch", "cls": cls, "rank": rank, "ta": ta, "tb": tb, "which": which}
    # save / load
    for es in eshapes + [[3, 1, 3]]:
        for rank, extra in TENSORS:
            for dt in ("real", "complex"):
                yield {"kind": "E_save", "eshape": es, "rank": rank, "extra": extra, "dtype": dt}
    # sequences
    for es in eshapes:
        for rank, extra in TENSORS:
            for dt in ("real", "complex"):
                for tr, inv in pairs_for(rank):
                    yield {"kind": "E_seq", "eshape": es, "rank": rank, "extra": extra, "dtype": dt, "tr": tr, "inv": inv,
                           "depth": 3, "ops": opset}
    for ks in KSHAPES:
        for rank in (0, 1, 2):
            for dt in ("real", "complex"):
                for tr, inv in pairs_for(rank):
                    yield {"kind": "K_seq", "kshape": ks, "rank": rank, "dtype": dt, "tr": tr, "inv": inv, "depth": 3,
                           "ops": opset}
    for rank in (0, 1, 2):
        for void_member in ("none", "x", "b", "both"):
            for tr, inv in pairs_for(rank)[:3]:
                yield {"kind": "D_seq", "rank": rank, "void": void_member, "tr": tr, "inv": inv, "depth": 3}
    for ks in KSHAPES:
        yield {"kind": "TAB", "kshape": ks}
    # border inputs
    for es in ([3], [1, 3]):
        for rank, extra in TENSORS:
            yield {"kind": "edge", "which": "E_mul_npint", "eshape": es, "rank": rank, "extra": extra, "dtype": "real",
                   "tr": "odd", "inv": "ident"}
            for dt in ("real", "complex"):
                yield {"kind": "edge", "which": "E_save_none", "eshape": es, "rank": rank, "extra": extra, "dtype": dt}
    for ks in KSHAPES:
        for rank in (0, 1, 2):
            for which in ("K_void_right", "K_add_chunked"):
                yield {"kind": "edge", "which": which, "kshape": ks, "rank": rank, "dtype": "real", "tr": "odd", "inv": "ident"}
    for rank in (0, 1, 2):
        for void_member in ("none", "x"):
            yield {"kind": "edge", "which": "D_void_right", "rank": rank, "void": void_member, "tr": "odd", "inv": "ident",
                   "depth": 0}


# ------------------------------------------------------------------------------------------------ reference model
def ref_apply(spec, x):
    """action of a Transform(**spec) on the trailing axes of x (out of place)"""
    ta = spec.get("transpose_axes")
    sa = spec.get("swap_axes")
    if ta is not None:
        n0 = x.ndim - len(ta)
        x = np.transpose(x, list(range(n0)) + [n0 + a for a in ta])
    elif sa is not None:
        x = np.swapaxes(x, sa[0], sa[1])
    if spec.get("conj", False):
        x = np.conj(x)
    return spec.get("factor", 1) * x


def ref_transform(x, rank, Rfull, TR, tr, inv):
    """tensor of rank `rank` (last axes) under the operation (Rfull, TR): every Cartesian index is rotated with the
    proper part of Rfull; time reversal / inversion act through the declared transforms"""
    improper = np.linalg.det(Rfull) < 0
    R = -Rfull if improper else Rfull
    out = np.array(x)
    for ax in range(x.ndim - rank, x.ndim):
        out = np.moveaxis(np.tensordot(R, out, axes=(1, ax)), 0, ax)
    if TR:
        out = ref_apply(TRANSFORMS[tr][0], out)
    if improper:
        out = ref_apply(TRANSFORMS[inv][0], out)
    return out


def tol(*arrs):
    return 1e-12 * max([1.0] + [float(np.abs(a).max()) for a in arrs if np.size(a)])


def close(a, b):
    a = np.asarray(a)
    b = np.asarray(b)
    return a.shape == b.shape and (a.size == 0 or np.abs(a - b).max() <= tol(a, b))


def fail(key, detail, nt=True):
    return {"ok": False, "key": key, "detail": detail, "nontrivial": nt}


_ELEMS = {}


def group_elements(tier):
    """[(label, Rfull, TR)] for all elements of the tier's groups (closure computed in wbmc.groups with numpy)"""
    if tier not in _ELEMS:
        from wbmc import groups
        out = []
        for name, var in (GROUPS_Q if tier == "quick" else GROUPS_T):
            for i, (R, TR) in enumerate(groups.reference_elements(groups.variant_generators(name, var))):
                out.append((f"{name}.{var}[{i}]", np.array(R, dtype=float), bool(TR)))
        _ELEMS[tier] = out
    return _ELEMS[tier]


def class_representatives():
    """one non-identity element per (improper, TR) class from C4v1' and D3d, preferring one that mixes x and y"""
    reps = {}
    for lab, R, TR in group_elements("quick"):
        if np.allclose(R, np.eye(3)) and not TR:
            continue
        key = (bool(np.linalg.det(R) < 0), TR)
        diag = bool(np.allclose(R, np.diag(np.diag(R))))
        if key not in reps or (reps[key][3] and not diag):
            reps[key] = (lab, R, TR, diag)
    return [(lab, R, TR) for lab, R, TR, _ in reps.values()]


def real_sym(R, TR):
    from wannierberri.symmetry.point_symmetry import PointSymmetry
    return PointSymmetry(np.array(R), TR)


def real_transform(name):
    from wannierberri.symmetry.point_symmetry import Transform
    spec = TRANSFORMS[name][0]
    return None if spec is None else Transform(**spec)


def tdict(t):
    return None if t is None else {k: (None if v is None else (tuple(int(i) for i in v) if isinstance(v, (tuple, list, np.ndarray)) else v))
                                   for k, v in t.as_dict().items()}


def spec_dict(name):
    spec = TRANSFORMS[name][0]
    if spec is None:
        return None
    return {"conj": spec.get("conj", False), "factor": spec.get("factor", 1),
            "transpose_axes": spec.get("transpose_axes"), "swap_axes": spec.get("swap_axes")}


def same_tdict(t, name):
    a, b = tdict(t), spec_dict(name)
    if a is None or b is None:
        return a is None and b is None
    return (bool(a["conj"]) == bool(b["conj"]) and int(a["factor"]) == int(b["factor"]) and
            a["transpose_axes"] == b["transpose_axes"] and a["swap_axes"] == b["swap_axes"])


def gen_data(rng, shape, dt):
    x = rng.normal(size=shape)
    if dt == "complex":
        x = x + 1j * rng.normal(size=shape)
    return x


def g_applicable(R, TR, tr, inv):
    return not ((TR and tr == "none") or (np.linalg.det(R) < 0 and inv == "none"))


# ------------------------------------------------------------------------------------------------ EnergyResult
class EFactory:
    def __init__(self, case, seed, tag=""):
        from wbmc import zoo
        self.es = tuple(case["eshape"])
        self.rank = case["rank"]
        self.extra = tuple(case["extra"])
        self.dt = case["dtype"]
        self.tr, self.inv = case["tr"], case["inv"]
        self.shape = self.es + self.extra + (3,) * self.rank
        self.energies = [np.linspace(-0.4 + 0.1 * i, 0.7 + 0.2 * i, n) for i, n in enumerate(self.es)]
        self.rng = zoo.rng_for(seed, "C16", "E", str(case["eshape"]), self.rank, str(case["extra"]), self.dt, self.tr,
                               self.inv, tag)
        self.comment = "C16 result"
        self._sm = {}

    def smoothers(self, which="operand"):
        """separately constructed (equal) smoother objects for the first operand, the other operands and the reference"""
        from wannierberri.smoother import GaussianSmoother
        if which not in self._sm:
            self._sm[which] = [(GaussianSmoother(E.copy(), 0.3) if len(E) > 1 else None) for E in self.energies]
        return self._sm[which]

    def make(self, data, tr=None, inv=None, comment=None, first=False, titles="match"):
        from wannierberri.result import EnergyResult
        kw = {}
        if titles == "match":
            kw["E_titles"] = [f"E{i}" for i in range(len(self.es))]
        elif titles == "short":         # fewer titles than energy axes (the constructor pads them)
            kw["E_titles"] = [f"E{i}" for i in range(len(self.es) - 1)]
        # titles == "default": the constructor's default titles
        return EnergyResult(Energies=[E.copy() for E in self.energies], data=np.array(data),
                            smoothers=self.smoothers("first" if first else "operand"),
                            transformTR=real_transform(tr or self.tr), transformInv=real_transform(inv or self.inv),
                            rank=(self.rank if self.extra else None),
                            comment=self.comment if comment is None else comment, **kw)

    def generic(self):
        return gen_data(self.rng, self.shape, self.dt)

    def desc(self):
        return (f"EnergyResult energies={list(self.es)} rank={self.rank} extra_axes={list(self.extra)} {self.dt} "
                f"TR={self.tr} Inv={self.inv}")

    def check_meta(self, res):
        from wannierberri.result import EnergyResult
        if type(res) is not EnergyResult:
            return f"type {type(res).__name__}"
        if len(res.Energies) != len(self.energies) or any(not np.array_equal(np.asarray(a), b)
                                                           for a, b in zip(res.Energies, self.energies)):
            return "Energies changed"
        if int(res.rank) != self.rank:
            return f"rank {res.rank} != {self.rank}"
        if not same_tdict(res.transformTR, self.tr) or not same_tdict(res.transformInv, self.inv):
            return f"transforms changed to {tdict(res.transformTR)} / {tdict(res.transformInv)}"
        sm = self.smoothers("reference")
        for i, s in enumerate(res.smoothers):
            if sm[i] is not None and not (type(s) is type(sm[i]) and s.smear == sm[i].smear and s.NE1 == sm[i].NE1):
                return f"smoother {i} lost"
        return None


def e_ops(f, B, reps, tier_scalars, full):
    """operation alphabet for sequences on EnergyResult: name -> (real function, model function)"""
    from wannierberri.result.result import VoidResult
    ops = {}
    ops["add_b"] = (lambda x: x + f.make(B), lambda X: X + B)
    ops["sub_b"] = (lambda x: x - f.make(B), lambda X: X - B)
    ops["add_void"] = (lambda x: x + VoidResult(), lambda X: X)
    ops["void_add"] = (lambda x: VoidResult() + x, lambda X: X)
    if full:
        ops["b_sub"] = (lambda x: f.make(B) - x, lambda X: B - X)
        ops["sub_void"] = (lambda x: x - VoidResult(), lambda X: X)
        ops["void_sub"] = (lambda x: VoidResult() - x, lambda X: -X)
        ops["radd0"] = (lambda x: sum([x]), lambda X: X)

    def add_inplace(x):
        y = copy.deepcopy(x)
        y.__dict__.pop("dataSmooth", None)
        y.add(f.make(B))
        return y
    ops["add_inplace"] = (add_inplace, lambda X: X + B)

    # accumulation idioms: `t += b` and running totals started from the neutral element (void / 0).  The operand x
    # must come out unchanged (explore() checks it after every operation)
    def iadd(x):
        t = copy.deepcopy(x)       # an in-place `+=` is legitimate: give it its own object
        t.__dict__.pop("dataSmooth", None)
        t += f.make(B)
        return t

    def acc_from(start):
        def g(x):
            t = start()
            t += x
            t += f.make(B)
            return t
        return g
    ops["iadd_b"] = (iadd, lambda X: X + B)
    ops["acc_from_void"] = (acc_from(VoidResult), lambda X: X + B)
    ops["acc_from_0"] = (acc_from(lambda: 0), lambda X: X + B)
    for kind, specs in tier_scalars.items():
        for sp in specs:
            c = scalar(sp)
            if kind == "mul":
                ops[f"mul[{sname(sp)}]"] = (lambda x, c=c: x * c, lambda X, c=c: X * c)
            elif kind == "rmul":
                ops[f"rmul[{sname(sp)}]"] = (lambda x, c=c: c * x, lambda X, c=c: c * X)
            else:
                ops[f"div[{sname(sp)}]"] = (lambda x, c=c: x / c, lambda X, c=c: X / c)
    for lab, R, TR in reps:
        if g_applicable(R, TR, f.tr, f.inv):
            ops[f"T[{lab}]"] = (lambda x, R=R, TR=TR: x.transform(real_sym(R, TR)),
                                lambda X, R=R, TR=TR: ref_transform(X, f.rank, R, TR, f.tr, f.inv))
    nd = len(f.shape)
    w0 = np.linspace(0.5, 2.0, f.shape[0])
    ops["mularr[axis0]"] = (lambda x: x.mul_array(w0.copy()), lambda X: X * w0.reshape((-1,) + (1,) * (nd - 1)))
    if nd >= 2:
        ax = (len(f.es) - 1, nd - 1) if nd - 1 != len(f.es) - 1 else (nd - 1,)
        ax = tuple(sorted(set(ax)))
        w = np.arange(1, 1 + int(np.prod([f.shape[a] for a in ax])), dtype=float).reshape([f.shape[a] for a in ax]) / 3
        rs = [f.shape[i] if i in ax else 1 for i in range(nd)]
        ops[f"mularr[axes={list(ax)}]"] = (lambda x: x.mul_array(w.copy(), axes=ax), lambda X: X * w.reshape(rs))
    return ops


SEQ_SCALARS = {"full": {"mul": [["int", -1], ["float", 0.5], ["int", 0]], "rmul": [["f64", 3], ["int", 2]],
                        "div": [["int", 2], ["float", 1 / 3], ["i64", 2]]},
               "reduced": {"mul": [["int", -1], ["float", 0.5]], "rmul": [["f64", 3]], "div": [["float", 1 / 3], ["i64", 2]]}}


def explore(cls, ops, x, X, depth, path, getdata, check_meta, desc, counter, isolate=False):
    """every operation of the alphabet applied to the state (x real, X model), recursively to `depth`.
    isolate: give every operation its own deep copy of the state (K results merge their chunks when `.data` is read,
    e.g. by '-', so that later operations would not see the chunked state any more)"""
    for name, (fr, fm) in ops.items():
        try:
            y = fr(copy.deepcopy(x) if isolate else x)
        except Exception as e:
            return fail(f"{cls}.{name.split('[')[0]}:raises:{type(e).__name__}",
                        f"{desc}: sequence {path + [name]} raised {type(e).__name__}: {e}")
        Y = fm(X)
        counter[0] += 1
        if not isolate and not close(getdata(x), X):
            return fail(f"{cls}.{name.split('[')[0]}:operand_modified",
                        f"{desc}: sequence {path + [name]}: the operation changed the data of its operand")
        got = getdata(y)
        if not close(got, Y):
            return fail(f"{cls}.{name.split('[')[0]}:data", f"{desc}: after sequence {path + [name]} data differ from the "
                        f"ndarray model by {np.abs(np.asarray(got) - Y).max() if np.shape(got) == Y.shape else np.shape(got)}")
        m = check_meta(y)
        if m:
            return fail(f"{cls}.{name.split('[')[0]}:meta", f"{desc}: after sequence {path + [name]}: {m}")
        if depth > 1:
            r = explore(cls, ops, y, Y, depth - 1, path + [name], getdata, check_meta, desc, counter, isolate)
            if r:
                return r
    return None


def explore_deepening(cls, ops, make_x, X, depth, getdata, check_meta, desc, counter, isolate=False):
    """shortest failing sequence first: depth 1, then 2, ... (the last pass contains the earlier ones)"""
    for d in range(1, depth + 1):
        counter[0] = 0
        r = explore(cls, ops, make_x(), X, d, [], getdata, check_meta, desc, counter, isolate)
        if r:
            return r
    return None


def run_E_seq(case, seed):
    f = EFactory(case, seed)
    A, B = f.generic(), f.generic()
    full = case.get("ops", "full") == "full"
    ops = e_ops(f, B, class_representatives(), SEQ_SCALARS["full" if full else "reduced"], full)
    counter = [0]
    r = explore_deepening("EnergyResult", ops, lambda: f.make(A, first=True), A, case["depth"], lambda y: y.data,
                          f.check_meta, f.desc(), counter)
    if r:
        return r
    return {"ok": True, "nontrivial": True, "obs": {"ops": len(ops), "applications": counter[0]}}


def run_E_law(case, seed):
    from wannierberri.result.result import VoidResult
    f = EFactory(case, seed, "law")
    desc = f.desc()
    A, B = f.generic(), f.generic()
    n = 0
    # scalars, both sides, and division
    for sp in SCALARS:
        c = scalar(sp)
        for side in ("mul", "rmul", "div"):
            if side == "div" and c == 0:
                continue
            if sp[0] == "i64" and side == "mul":
                continue      # result * np.int64 : its own 'edge' cases
            try:
                y = f.make(A) * c if side == "mul" else (c * f.make(A) if side == "rmul" else f.make(A) / c)
            except Exception as e:
                return fail(f"EnergyResult.{side}:raises:{type(e).__name__}", f"{desc}: scalar {sname(sp)}: {e}")
            Y = A / c if side == "div" else A * c
            n += 1
            if not close(y.data, Y):
                return fail(f"EnergyResult.{side}:data", f"{desc}: scalar {sname(sp)}: data differ by {np.abs(y.data - Y).max()}")
            m = f.check_meta(y)
            if m:
                return fail(f"EnergyResult.{side}:meta", f"{desc}: scalar {sname(sp)}: {m}")
    # impulse basis: + and - are element-wise
    N = int(np.prod(f.shape))
    for j in range(N):
        e = np.zeros(N, dtype=A.dtype)
        e[j] = 1.0 if f.dt == "real" else 1j
        e = e.reshape(f.shape)
        s, d = f.make(A) + f.make(e), f.make(e) - f.make(A)
        n += 2
        if not close(s.data, A + e) or not close(d.data, e - A):
            return fail("EnergyResult.add_sub:data", f"{desc}: impulse {[int(i) for i in np.unravel_index(j, f.shape)]}")
    # void neutral on both sides; sum() over a list; in-place add
    a = f.make(A)
    for name, fn, Y in (("x+Void", lambda: a + VoidResult(), A), ("Void+x", lambda: VoidResult() + a, A),
                        ("x-Void", lambda: a - VoidResult(), A), ("Void-x", lambda: VoidResult() - a, -A),
                        ("sum", lambda: sum([f.make(A), f.make(B), VoidResult(), f.make(A)]), 2 * A + B),
                        ("sum_void_start", lambda: sum([f.make(A), f.make(B)], VoidResult()), A + B),
                        ("Void*c", lambda: a + VoidResult() * 3, A), ("Void/c", lambda: a + VoidResult() / 3, A)):
        try:
            y = fn()
        except Exception as e:
            return fail(f"EnergyResult.void:{name}:raises", f"{desc}: {name} raised {type(e).__name__}: {e}")
        n += 1
        if not close(y.data, Y) or f.check_meta(y):
            return fail(f"EnergyResult.void:{name}", f"{desc}: {name}: data/meta differ ({f.check_meta(y)})")
    # transformation distributes over + for every group element, and matches the reference action
    for lab, R, TR in group_elements(case["tier"]):
        if not g_applicable(R, TR, f.tr, f.inv):
            continue
        g = real_sym(R, TR)
        lhs = (f.make(A) + f.make(B)).transform(g)
        rhs = f.make(A).transform(g) + f.make(B).transform(g)
        n += 3
        if not close(lhs.data, rhs.data):
            return fail("EnergyResult.transform:not_additive", f"{desc}: {lab}: T(a+b) != T(a)+T(b) by "
                        f"{np.abs(lhs.data - rhs.data).max()}")
        Y = ref_transform(A + B, f.rank, R, TR, f.tr, f.inv)
        if not close(lhs.data, Y):
            return fail("EnergyResult.transform:data", f"{desc}: {lab} (TR={TR}, det={np.linalg.det(R):+.0f}): transformed "
                        f"data differ from the reference action by {np.abs(lhs.data - Y).max()}")
        m = f.check_meta(lhs)
        if m:
            return fail("EnergyResult.transform:meta", f"{desc}: {lab}: {m}")
        v = VoidResult().transform(g)
        if not isinstance(v, VoidResult):
            return fail("VoidResult.transform", f"transform of the void result is {type(v).__name__}")
    return {"ok": True, "nontrivial": True, "obs": {"operations": n}}


# ------------------------------------------------------------------------------------------------ KBandResult
class KFactory:
    def __init__(self, case, seed, tag=""):
        from wbmc import zoo
        self.nk, self.nb = case["kshape"]
        self.rank = case["rank"]
        self.dt = case["dtype"]
        self.tr, self.inv = case["tr"], case["inv"]
        self.rng = zoo.rng_for(seed, "C16", "K", str(case["kshape"]), self.rank, self.dt, self.tr, self.inv, tag)

    def shape(self, nk=None):
        return (self.nk if nk is None else nk, self.nb) + (3,) * self.rank

    def make(self, data, tr=None, inv=None):
        from wannierberri.result import KBandResult
        return KBandResult(np.array(data), transformTR=real_transform(tr or self.tr),
                           transformInv=real_transform(inv or self.inv))

    def generic(self, nk=None):
        return gen_data(self.rng, self.shape(nk), self.dt)

    def desc(self):
        return f"KBandResult nk={self.nk} nband={self.nb} rank={self.rank} {self.dt} TR={self.tr} Inv={self.inv}"

    def check_meta(self, res):
        from wannierberri.result import KBandResult
        if type(res) is not KBandResult:
            return f"type {type(res).__name__}"
        if int(res.rank) != self.rank:
            return f"rank {res.rank} != {self.rank}"
        if not same_tdict(res.transformTR, self.tr) or not same_tdict(res.transformInv, self.inv):
            return f"transforms changed to {tdict(res.transformTR)} / {tdict(res.transformInv)}"
        if res.nband != self.nb:
            return "nband changed"
        return None


def kdata(y):
    """non-perturbing observation (the .data property merges the chunks in place)"""
    return np.vstack([np.asarray(d) for d in y.data_list])


def k_ops(f, B, reps, full):
    from wannierberri.result.result import VoidResult
    ops = {}
    ops["stack_b"] = (lambda x: x + f.make(B), lambda X: np.vstack([X, B]))
    ops["b_stack"] = (lambda x: f.make(B) + x, lambda X: np.vstack([B, X]))

    def same_shape(X):   # a deterministic operand of the current shape (single chunk)
        return np.cos(np.arange(X.size).reshape(X.shape) * 0.7 + 0.3) * (1 if f.dt == "real" else (1 + 0.5j))
    ops["sub_y"] = (lambda x: x - f.make(same_shape(kdata(x))), lambda X: X - same_shape(X))
    if full:
        ops["y_sub"] = (lambda x: f.make(same_shape(kdata(x))) - x, lambda X: same_shape(X) - X)

    def add_inplace(x):
        # the operand is split into the same chunks as x (operands with a different chunking: 'edge' K_add_chunked)
        y = copy.deepcopy(x)
        other = f.make(same_shape(kdata(x)))
        cuts = np.cumsum([np.shape(d)[0] for d in x.data_list])[:-1]
        other.data_list = [np.array(c) for c in np.split(other.data_list[0], cuts, axis=0)]
        y.add(other)
        return y
    ops["add_inplace"] = (add_inplace, lambda X: X + same_shape(X))
    ops["void_add"] = (lambda x: VoidResult() + x, lambda X: X)
    if full:
        ops["void_sub"] = (lambda x: VoidResult() - x, lambda X: -X)
    for sp in ([["int", -1], ["float", 0.5], ["i64", 2]] if full else [["int", -1], ["i64", 2]]):
        c = scalar(sp)
        ops[f"mul[{sname(sp)}]"] = (lambda x, c=c: x * c, lambda X, c=c: X * c)
    for sp in ([["f64", 3], ["int", 0]] if full else [["f64", 3]]):
        c = scalar(sp)
        ops[f"rmul[{sname(sp)}]"] = (lambda x, c=c: c * x, lambda X, c=c: c * X)
    ops["div[int(2)]"] = (lambda x: x / 2, lambda X: X)          # documented: tabulated values are not rescaled
    for lab, R, TR in reps:
        if g_applicable(R, TR, f.tr, f.inv):
            ops[f"T[{lab}]"] = (lambda x, R=R, TR=TR: x.transform(real_sym(R, TR)),
                                lambda X, R=R, TR=TR: ref_transform(X, f.rank, R, TR, f.tr, f.inv))
    w = np.linspace(0.5, 2.0, f.nb)
    ops["mularr[band]"] = (lambda x: x.mul_array(w.copy()), lambda X: X * w.reshape((1, -1) + (1,) * f.rank))
    if f.rank >= 1:
        w2 = np.arange(1, 1 + 3 * f.nb, dtype=float).reshape(f.nb, 3) / 4
        ops["mularr[band,last]"] = (lambda x: x.mul_array(w2.copy(), axes=(0, f.rank)),
                                    lambda X: X * w2.reshape((1, f.nb) + (1,) * (f.rank - 1) + (3,)))
    return ops


def run_K_seq(case, seed):
    f = KFactory(case, seed)
    A, B = f.generic(), f.generic()
    ops = k_ops(f, B, class_representatives(), case.get("ops", "full") == "full")
    counter = [0]

    def getdata(y):
        d = kdata(y)
        return d

    r = explore_deepening("KBandResult", ops, lambda: f.make(A), A, case["depth"], getdata, f.check_meta, f.desc(), counter,
                          isolate=True)
    if r:
        return r
    # the public .data property after a stack
    x = f.make(A) + f.make(B) + f.make(A)
    if not close(x.data, np.vstack([A, B, A])) or x.nk != 3 * f.nk:
        return fail("KBandResult.data:stack", f"{f.desc()}: .data / .nk after stacking three results")
    return {"ok": True, "nontrivial": True, "obs": {"ops": len(ops), "applications": counter[0]}}


def run_K_law(case, seed):
    from wannierberri.result.result import VoidResult
    f = KFactory(case, seed, "law")
    desc = f.desc()
    A, B = f.generic(), f.generic()
    n = 0
    for sp in SCALARS:
        c = scalar(sp)
        for side in ("mul", "rmul", "div"):
            if side == "div" and c == 0:
                continue
            try:
                y = f.make(A) * c if side == "mul" else (c * f.make(A) if side == "rmul" else f.make(A) / c)
            except Exception as e:
                return fail(f"KBandResult.{side}:raises:{type(e).__name__}", f"{desc}: scalar {sname(sp)}: {e}")
            Y = A if side == "div" else A * c
            n += 1
            if not close(kdata(y), Y) or f.check_meta(y):
                return fail(f"KBandResult.{side}:data", f"{desc}: scalar {sname(sp)} ({f.check_meta(y)})")
    N = int(np.prod(f.shape()))
    for j in range(N):
        e = np.zeros(N, dtype=A.dtype)
        e[j] = 1.0 if f.dt == "real" else 1j
        e = e.reshape(f.shape())
        d = f.make(e) - f.make(A)
        s = f.make(A)
        s.add(f.make(e))
        n += 2
        if not close(d.data, e - A) or not close(s.data, A + e):
            return fail("KBandResult.add_sub:data", f"{desc}: impulse {[int(i) for i in np.unravel_index(j, f.shape())]}")
    # void neutral
    a = f.make(A)
    for name, fn, Y in (("Void+x", lambda: VoidResult() + a, A), ("Void-x", lambda: VoidResult() - a, -A),
                        ("sum_void_start", lambda: sum([f.make(A), f.make(B)], VoidResult()), np.vstack([A, B]))):
        try:
            y = fn()
        except Exception as e:
            return fail(f"KBandResult.void:{name}:raises", f"{desc}: {name} raised {type(e).__name__}: {e}")
        n += 1
        if not close(kdata(y), Y) or f.check_meta(y):
            return fail(f"KBandResult.void:{name}", f"{desc}: {name}: data/meta differ ({f.check_meta(y)})")
    for lab, R, TR in group_elements(case["tier"]):
        if not g_applicable(R, TR, f.tr, f.inv):
            continue
        g = real_sym(R, TR)
        lhs = (f.make(A) + f.make(B)).transform(g)                 # stacked
        rhs = f.make(A).transform(g) + f.make(B).transform(g)
        x = f.make(A)
        x.add(f.make(B))                                           # element-wise sum
        lhs2 = x.transform(g)
        rhs2 = f.make(A).transform(g)
        rhs2.add(f.make(B).transform(g))
        n += 6
        if not close(kdata(lhs), kdata(rhs)) or not close(kdata(lhs2), kdata(rhs2)):
            return fail("KBandResult.transform:not_additive", f"{desc}: {lab}")
        if not close(kdata(lhs2), ref_transform(A + B, f.rank, R, TR, f.tr, f.inv)) or f.check_meta(lhs2):
            return fail("KBandResult.transform:data", f"{desc}: {lab} (TR={TR}, det={np.linalg.det(R):+.0f}) "
                        f"({f.check_meta(lhs2)})")
    return {"ok": True, "nontrivial": True, "obs": {"operations": n}}


# ------------------------------------------------------------------------------------------------ mismatching transforms
def run_mismatch(case, seed):
    """a and b declare different TR (or Inv) transforms: a+b must be refused, or T_g must distribute"""
    rank, ta, tb, which = case["rank"], case["ta"], case["tb"], case["which"]
    base = {"eshape": [3], "kshape": [2, 3], "rank": rank, "extra": [], "dtype": "complex", "tr": ta, "inv": ta}
    f = EFactory(base, seed, "mm") if case["cls"] == "E" else KFactory(base, seed, "mm")
    A, B = f.generic(), f.generic()
    kw_a = {"tr": ta, "inv": "ident"} if which == "tr" else {"tr": "ident", "inv": ta}
    kw_b = {"tr": tb, "inv": "ident"} if which == "tr" else {"tr": "ident", "inv": tb}
    # do the two transforms act differently on these data at all?
    differ = not close(ref_apply(TRANSFORMS[ta][0], A + B), ref_apply(TRANSFORMS[ta][0], A) + ref_apply(TRANSFORMS[tb][0], B))
    try:
        s = f.make(A, **kw_a) + f.make(B, **kw_b)
    except (AssertionError, RuntimeError):
        return {"ok": True, "nontrivial": differ, "obs": "refused"}
    R = np.eye(3) if which == "tr" else -np.eye(3)
    g = real_sym(R, which == "tr")
    lhs = s.transform(g)
    rhs = f.make(A, **kw_a).transform(g)
    rb = f.make(B, **kw_b).transform(g)
    get = (lambda y: y.data) if case["cls"] == "E" else kdata
    expected = get(rhs) + get(rb) if case["cls"] == "E" else np.vstack([get(rhs), get(rb)])
    if not close(get(lhs), expected):
        sa, sb = spec_dict(ta), spec_dict(tb)
        attrs = [k for k in ("factor", "conj", "transpose_axes", "swap_axes") if sa[k] != sb[k]]
        cl = "EnergyResult" if case["cls"] == "E" else "KBandResult"
        return fail(f"Transform.__eq__:ignores:{'+'.join(attrs)}",
                    f"{cl} rank {rank}: a declares transform{'TR' if which == 'tr' else 'Inv'}={ta} {sa}, b declares {tb} {sb}; "
                    f"a+b is accepted (Transform.__eq__ says equal) and T_g(a+b) != T_g(a)+T_g(b) for g="
                    f"{'TimeReversal' if which == 'tr' else 'Inversion'}")
    return {"ok": True, "nontrivial": differ, "obs": "accepted, distributes"}


# ------------------------------------------------------------------------------------------------ save / load
def run_E_save(case, seed):
    from wannierberri.result import EnergyResult
    rank = case["rank"]
    n = 0
    nontrivial = False
    with tempfile.TemporaryDirectory(prefix="agC_c16_") as tmp:
        none_pairs = case.get("none_pairs", False)     # transforms = None : their own 'edge' cases
        for (tr, inv), comment, titles in itertools.product(pairs_for(rank, full=True), COMMENTS, ("match", "short", "default")):
            if ("none" in (tr, inv)) != none_pairs:
                continue
            if comment != COMMENTS[0] and not (tr == inv or (tr, inv) in pairs_for(rank)):
                continue    # comments x the reduced pair list; the default comment x the full pair product
            if titles != "match" and not (comment == COMMENTS[0] and tr == inv):
                continue    # title variants (fewer titles than axes / constructor defaults) x the diagonal pairs
            c = dict(case, tr=tr, inv=inv)
            f = EFactory(c, seed, "save")
            A = f.generic()
            a = f.make(A, comment=comment, titles=titles)
            name = os.path.join(tmp, f"r{n}")
            n += 1
            desc = f"{f.desc()} comment={comment!r}" + ("" if titles == "match" else f" E_titles={titles}")
            try:
                a.save(name)
            except Exception as e:
                if none_pairs and isinstance(e, AttributeError):
                    return fail("EnergyResult.save:transform_None",
                                f"{desc}: save() raised {type(e).__name__}: {e} (transformTR/transformInv=None is the "
                                f"constructor default and from_npz maps a missing transform to None)")
                return fail(f"EnergyResult.save:raises:{type(e).__name__}", f"{desc}: {e}")
            if not os.path.isfile(name + ".npz"):
                return fail("EnergyResult.save:no_file", f"{desc}: {name}.npz not written")
            try:
                b = EnergyResult.from_npz(name + ".npz")
            except Exception as e:
                return fail(f"EnergyResult.from_npz:raises:{type(e).__name__}", f"{desc}: {e}")
            if type(b) is not EnergyResult:
                return fail("EnergyResult.from_npz:type", f"{desc}: loaded object is {type(b).__name__}")
            if len(b.Energies) != len(f.energies) or any(not np.array_equal(np.asarray(x), y) for x, y in zip(b.Energies, f.energies)):
                return fail("EnergyResult.from_npz:energies", f"{desc}: energies not reproduced")
            if np.asarray(b.data).shape != A.shape or not np.array_equal(np.asarray(b.data), A) or np.asarray(b.data).dtype != A.dtype:
                return fail("EnergyResult.from_npz:data", f"{desc}: data not reproduced bit for bit")
            try:
                rk = int(b.rank)
            except Exception:
                rk = None
            if rk != rank:
                return fail("EnergyResult.from_npz:rank", f"{desc}: rank {b.rank!r} instead of {rank}")
            for nm, t, want in (("transformTR", b.transformTR, tr), ("transformInv", b.transformInv, inv)):
                from wannierberri.symmetry.point_symmetry import Transform
                if not (t is None or isinstance(t, Transform)) or not same_tdict(t, want):
                    return fail(f"EnergyResult.from_npz:{nm}", f"{desc}: {nm} loaded as {t!r} "
                                f"({tdict(t) if isinstance(t, Transform) else ''}) instead of {spec_dict(want)}")
            if str(b.comment) != comment:
                return fail("EnergyResult.from_npz:comment", f"{desc}: comment {b.comment!r}")
            if titles == "match" and [str(s) for s in b.E_titles] != [f"E{i}" for i in range(len(f.es))]:
                return fail("EnergyResult.from_npz:E_titles", f"{desc}: titles {b.E_titles}")
            # the loaded transforms act like the saved ones (a loaded result is used through transform())
            for R, TR in ((np.eye(3), True), (-np.eye(3), False), (np.array([[0., -1, 0], [1, 0, 0], [0, 0, 1]]), False),
                          (-np.array([[0., -1, 0], [1, 0, 0], [0, 0, 1]]), True)):
                if not g_applicable(R, TR, tr, inv):
                    continue
                try:
                    got = b.transform(real_sym(R, TR)).data
                except Exception as e:
                    return fail("EnergyResult.from_npz:transform_unusable", f"{desc}: loaded.transform raised {type(e).__name__}: {e}")
                if not close(got, ref_transform(A, rank, R, TR, tr, inv)):
                    return fail("EnergyResult.from_npz:transform_action", f"{desc}: loaded result transforms differently")
            # and it can be added to the original
            if "none" not in (tr, inv):
                b.set_smoother(f.smoothers())       # smoothers are not stored in the file (and not part of the statement)
                if not close((a + b).data, 2 * A):
                    return fail("EnergyResult.from_npz:add_original", f"{desc}: original + loaded")
            if tr not in ("ident",) or case["extra"] or comment != COMMENTS[0]:
                nontrivial = True
    return {"ok": True, "nontrivial": nontrivial, "obs": {"files": n}}


# ------------------------------------------------------------------------------------------------ ResultDict
def run_D_seq(case, seed):
    from wannierberri.result import ResultDict
    from wannierberri.result.result import VoidResult
    rank, void = case["rank"], case["void"]
    c1 = {"eshape": [3], "rank": rank, "extra": [], "dtype": "real", "tr": case["tr"], "inv": case["inv"]}
    c2 = {"eshape": [1, 3], "rank": max(rank - 1, 0), "extra": [], "dtype": "complex", "tr": case["tr"] if rank - 1 >= TRANSFORMS[case["tr"]][1] else "odd",
          "inv": case["inv"] if rank - 1 >= TRANSFORMS[case["inv"]][1] else "ident"}
    f1, f2 = EFactory(c1, seed, "D1"), EFactory(c2, seed, "D2")
    fs = {"p": f1, "q": f2, "v": f1}
    XA = {"p": f1.generic(), "q": f2.generic(), "v": (None if void in ("x", "both") else f1.generic())}
    XB = {"p": f1.generic(), "q": f2.generic(), "v": (None if void in ("b", "both") else f1.generic())}

    def make(X, order=None):
        # `order`: insertion order of the keys (a dictionary result is keyed by name, not by position)
        keys = list(X) if order is None else order
        return ResultDict({k: (VoidResult() if X[k] is None else fs[k].make(X[k])) for k in keys})

    def lift(fn2):      # model: member-wise with None = void (neutral)
        def g(X, Y):
            out = {}
            for k in X:
                out[k] = fn2(X[k], Y[k])
            return out
        return g

    def madd(x, y):
        return y if x is None else (x if y is None else x + y)

    def msub(x, y):
        return (None if y is None else -y) if x is None else (x if y is None else x - y)

    reps = class_representatives()
    ops = {}
    ops["add_b"] = (lambda x: x + make(XB), lambda X: lift(madd)(X, XB))
    ops["sub_b"] = (lambda x: x - make(XB), lambda X: lift(msub)(X, XB))
    ops["b_sub"] = (lambda x: make(XB) - x, lambda X: lift(msub)(XB, X))
    # the same operand with its keys inserted in another order (e.g. calculators listed differently at a restart)
    ops["add_b_reordered"] = (lambda x: x + make(XB, ["v", "q", "p"]), lambda X: lift(madd)(X, XB))
    ops["b_reordered_sub"] = (lambda x: make(XB, ["q", "p", "v"]) - x, lambda X: lift(msub)(XB, X))
    ops["void_add"] = (lambda x: VoidResult() + x, lambda X: X)
    ops["radd0"] = (lambda x: sum([x]), lambda X: X)

    def d_iadd(x):
        t = copy.deepcopy(x)       # an in-place `+=` is legitimate: give it its own object
        t += make(XB)
        return t

    def d_acc_void(x):
        t = VoidResult()
        t += x
        t += make(XB)
        return t
    ops["iadd_b"] = (d_iadd, lambda X: lift(madd)(X, XB))
    ops["acc_from_void"] = (d_acc_void, lambda X: lift(madd)(X, XB))
    for sp in (["int", -1], ["float", 0.5]):
        c = scalar(sp)
        ops[f"mul[{sname(sp)}]"] = (lambda x, c=c: x * c, lambda X, c=c: {k: (None if v is None else v * c) for k, v in X.items()})
    ops["rmul[float(3)]"] = (lambda x: 3.0 * x, lambda X: {k: (None if v is None else v * 3.0) for k, v in X.items()})
    ops["div[int(2)]"] = (lambda x: x / 2, lambda X: {k: (None if v is None else v / 2) for k, v in X.items()})
    for lab, R, TR in reps:
        if g_applicable(R, TR, c1["tr"], c1["inv"]) and g_applicable(R, TR, c2["tr"], c2["inv"]):
            ops[f"T[{lab}]"] = (lambda x, R=R, TR=TR: x.transform(real_sym(R, TR)),
                                lambda X, R=R, TR=TR: {k: (None if v is None else
                                                           ref_transform(v, fs[k].rank, R, TR, (c2 if k == "q" else c1)["tr"],
                                                                         (c2 if k == "q" else c1)["inv"])) for k, v in X.items()})
    desc = f"ResultDict{{p: rank {rank}, q: rank {c2['rank']} complex, v: void in {void}}} TR={case['tr']} Inv={case['inv']}"
    counter = [0]

    def walk(x, X, depth, path):
        for name, (fr, fm) in ops.items():
            try:
                y = fr(x)
            except Exception as e:
                return fail(f"ResultDict.{name.split('[')[0]}:raises:{type(e).__name__}", f"{desc}: sequence {path + [name]}: {e}")
            Y = fm(X)
            counter[0] += 1
            for k, v in X.items():          # the operand must come out unchanged
                m = x.results[k]
                if (v is None) != isinstance(m, VoidResult) or (v is not None and not close(m.data, v)):
                    return fail(f"ResultDict.{name.split('[')[0]}:operand_modified",
                                f"{desc}: sequence {path + [name]}: the operation changed member {k} of its operand")
            if type(y) is not ResultDict or set(y.results) != set(Y):
                return fail(f"ResultDict.{name.split('[')[0]}:keys", f"{desc}: sequence {path + [name]}: {type(y).__name__}")
            for k, v in Y.items():
                m = y.results[k]
                if v is None:
                    if not isinstance(m, VoidResult):
                        return fail(f"ResultDict.{name.split('[')[0]}:void_member", f"{desc}: sequence {path + [name]}: member {k}")
                elif isinstance(m, VoidResult) or not close(m.data, v):
                    return fail(f"ResultDict.{name.split('[')[0]}:data", f"{desc}: sequence {path + [name]}: member {k} differs")
            if depth > 1:
                r = walk(y, Y, depth - 1, path + [name])
                if r:
                    return r
        return None

    if not case.get("edge"):
        for d in range(1, case["depth"] + 1):      # shortest failing sequence first
            counter[0] = 0
            r = walk(make(XA), XA, d, [])
            if r:
                return r
    if case.get("edge"):     # the void result on the right of a dictionary
        d = make(XA)
        for name, fn in (("x+Void", lambda: d + VoidResult()), ("x-Void", lambda: d - VoidResult())):
            try:
                y = fn()
            except Exception as e:
                return fail("ResultDict.void:right_operand_raises", f"{desc}: {name} raised {type(e).__name__}: {e}  "
                            f"(VoidResult()+x works)")
            for k, v in XA.items():
                if v is not None and not close(y.results[k].data, v):
                    return fail(f"ResultDict.void:{name}", f"{desc}: member {k}")
    return {"ok": True, "nontrivial": True, "obs": {"ops": len(ops), "applications": counter[0]}}


# ------------------------------------------------------------------------------------------------ TABresult
def run_TAB(case, seed):
    from wannierberri.result import TABresult, KBandResult
    from wbmc import zoo
    nk, nb = case["kshape"]
    rng = zoo.rng_for(seed, "C16", "TAB", nk, nb)
    recip = np.array([[1.0, 0.1, 0.0], [0.0, 1.2, 0.0], [0.0, 0.0, 0.9]]) * 2 * np.pi
    tI, tO = "ident", "odd"

    def tab(k, E, V):
        return TABresult(kpoints=k, recip_lattice=recip,
                         results={"Energy": KBandResult(E.copy(), transformTR=real_transform(tI), transformInv=real_transform(tI)),
                                  "V": KBandResult(V.copy(), transformTR=real_transform(tO), transformInv=real_transform(tO))},
                         mode="path")
    k1, k2 = rng.random((nk, 3)), rng.random((nk, 3))
    E1, E2 = rng.normal(size=(nk, nb)), rng.normal(size=(nk, nb))
    V1, V2 = rng.normal(size=(nk, nb, 3)), rng.normal(size=(nk, nb, 3))
    s = tab(k1, E1, V1) + tab(k2, E2, V2)
    if not close(s.kpoints, np.vstack([k1, k2]) % 1) or not close(s.results["Energy"].data, np.vstack([E1, E2])) \
            or not close(s.results["V"].data, np.vstack([V1, V2])):
        return fail("TABresult.__add__:stack", f"nk={nk} nb={nb}: k-points / data not stacked in order")
    t = tab(k1, E1, V1)
    for name, y in (("*2", t * 2), ("/2", t / 2), ("+0", t + 0), ("sum", sum([t]))):
        if not close(y.results["V"].data, V1) or not close(y.kpoints, k1 % 1):
            return fail(f"TABresult:{name}", f"nk={nk} nb={nb}: tabulated values changed by {name}")
    for lab, R, TR in group_elements("quick"):
        g = real_sym(R, TR)
        lhs = (tab(k1, E1, V1) + tab(k2, E2, V2)).transform(g)
        rhs = tab(k1, E1, V1).transform(g) + tab(k2, E2, V2).transform(g)
        if not close(lhs.kpoints, rhs.kpoints) or not close(lhs.results["V"].data, rhs.results["V"].data):
            return fail("TABresult.transform:not_additive", f"nk={nk} nb={nb}: {lab}")
        if not close(lhs.results["V"].data, ref_transform(np.vstack([V1, V2]), 1, R, TR, tO, tO)):
            return fail("TABresult.transform:data", f"nk={nk} nb={nb}: {lab}")
    return {"ok": True, "nontrivial": True}


# ------------------------------------------------------------------------------------------------ edges
def run_edge(case, seed):
    """inputs at the border of the operand domain; each has its own key"""
    from wannierberri.result.result import VoidResult
    which = case["which"]
    if which == "E_mul_npint":
        f = EFactory(case, seed, "edge")
        A = f.generic()
        for c in (np.int64(2), np.int32(-3)):
            try:
                y = f.make(A) * c
            except TypeError as e:
                return fail("EnergyResult.__mul__:numpy_integer_rejected",
                            f"{f.desc()}: result * {type(c).__name__}({c}) raises TypeError('{e}') although "
                            f"{type(c).__name__}({c}) * result, result * {int(c)} and result / {type(c).__name__}({c}) work")
            if not close(y.data, A * int(c)) or f.check_meta(y):
                return fail("EnergyResult.mul:data", f"{f.desc()}: scalar {c!r}")
            if not close((c * f.make(A)).data, A * int(c)) or not close((f.make(A) / c).data, A / int(c)):
                return fail("EnergyResult.rmul:data", f"{f.desc()}: scalar {c!r} on the left / as divisor")
        return {"ok": True, "nontrivial": True}
    if which in ("K_void_right", "K_add_chunked"):
        f = KFactory(case, seed, "edge")
        A, B = f.generic(), f.generic()
        desc = f.desc()
        if which == "K_void_right":
            a = f.make(A)
            for name, fn in (("x+Void", lambda: a + VoidResult()), ("x-Void", lambda: a - VoidResult())):
                try:
                    y = fn()
                except Exception as e:
                    return fail("KBandResult.void:right_operand_raises",
                                f"{desc}: {name} raised {type(e).__name__}: {e}  (VoidResult()+x works)")
                if not close(kdata(y), A) or f.check_meta(y):
                    return fail(f"KBandResult.void:{name}", f"{desc}: {name}: data/meta differ ({f.check_meta(y)})")
            return {"ok": True, "nontrivial": True}
        # in-place add on a stacked (chunked) result with an operand holding the same k-points in one array
        x = f.make(A) + f.make(B)
        Y = f.generic(2 * f.nk)
        try:
            x.add(f.make(Y))
            ok, why = close(kdata(x), np.vstack([A, B]) + Y), "wrong data"
        except Exception as e:
            ok, why = False, f"{type(e).__name__}: {e}"
        if not ok:
            return fail("K__Result.add:chunked_operands", f"{desc}: (a+b).add(y), y holding the same k-points in one array, "
                        f"does not give vstack(a,b)+y ({why})")
        return {"ok": True, "nontrivial": True}
    if which == "E_save_none":
        return run_E_save(dict(case, none_pairs=True), seed)
    if which == "D_void_right":
        return run_D_seq(dict(case, edge=True), seed)
    raise ValueError(which)


# ------------------------------------------------------------------------------------------------ dispatch
def setup(tier, seed):
    group_elements("quick")
    group_elements(tier)


def run_case(case, seed):
    kind = case["kind"]
    if kind in ("E_law", "K_law") and "tier" not in case:
        case = dict(case, tier="quick")
    return {"E_seq": run_E_seq, "E_law": run_E_law, "K_seq": run_K_seq, "K_law": run_K_law, "mismatch": run_mismatch,
            "E_save": run_E_save, "D_seq": run_D_seq, "TAB": run_TAB, "edge": run_edge}[kind](case, seed)


def finish(tier, cases, results):
    apps = sum(int((r.get("obs") or {}).get("applications", 0)) for r in results if isinstance(r.get("obs"), dict))
    single = sum(int((r.get("obs") or {}).get("operations", 0)) for r in results if isinstance(r.get("obs"), dict))
    files = sum(int((r.get("obs") or {}).get("files", 0)) for r in results if isinstance(r.get("obs"), dict))
    kinds = {}
    for c in cases:
        kinds[c["kind"]] = kinds.get(c["kind"], 0) + 1
    return {"cases_by_kind": kinds, "sequence_operation_applications": apps, "single_operation_checks": single,
            "npz_round_trips": files, "group_elements": len(group_elements(tier)), "scalars": len(SCALARS),
            "transforms": len(TRANSFORMS)}
