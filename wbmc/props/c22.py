"""C22 — finite-difference b-vectors: completeness, +-b closure, whole shells, neighbour table.

Exhaustive product  lattice alphabet x mesh alphabet x k-point ordering family, every element run through the
real `BKVectors.from_kpoints(recip_lattice, mp_grid, kpoints_red)` and judged by a reference written here:

  * completeness      sum_b w_b b_i b_j = delta_ij                                   (1e-8, dimensionless)
  * +-b closure       the integer multiset {b} equals -{b}, no vector twice, w(b) = w(-b)
  * whole shells      every selected length class equals the brute-force set of *all* mesh vectors of that
                      length (enumerated in a box derived from the length, independent of the code's own box)
  * neighbour table   k_int[ik] + b_int[ib] == k_int[nb] + G * mp_grid   exactly, in integers, for every ik, ib

A search that refuses to choose ("Could not find a complete set of bk vectors") does not contradict the
statement (which is about the chosen vectors); such (lattice, mesh) pairs are reported as `no_solution`.

Two more case families (added after two seeded changes were missed):

  * sheared   the same Bravais lattices described by strongly sheared, unreduced unit cells  a_j -> a_j + s*a_i
              (the b-vectors then have integer coordinates beyond the default search box +-2*mp_grid, so the part of
              `find_bk_vectors` that decides whether the box was large enough becomes decisive); same four oracles
              (the whole-shell reference box is derived here from the column norms of inv(basis), independently of
              the code); whether the Cartesian b-vectors equal those of the compact cell is *observed* (counted in
              the evidence), not judged: the statement does not forbid a different complete choice.
  * nnkp      `BKVectors.from_nnkp` on harness-written Wannier90 .nnkp files (temporary directory per case, removed
              afterwards) that list the b-vectors found by `from_kpoints` in every order of an explicit alphabet
              (the format does not prescribe an order); same four oracles on the object that was read, plus the
              differential relation  {(b, w_b)} from_nnkp == {(b, w_b)} from_kpoints.
"""
import itertools
import os
import shutil
import tempfile

import numpy as np

ID = "C22"
LEVEL = "exploration"
RULE = ("cases = (lattice, mesh, ordering family); families: id, rev (reversed list), fortran (first index fastest), "
        "transp (every adjacent transposition of the list, all inside one case), irr (kptirr = even / odd positions, "
        "on the identity and the reversed list), digits8 (coordinates truncated / rounded to 8 decimals as in a "
        "Wannier90 text file); each ordering is one call of BKVectors.from_kpoints; non-trivial = "
        "the search returned b-vectors (all four oracles applied) and, for families other than id, NK>1; "
        "(lattice, mesh) pairs where the search refuses are counted in no_solution and are not non-trivial; "
        "family sheared: cases = (lattice, shear a_j -> a_j + s*a_i, mesh), one from_kpoints call on the sheared cell "
        "(identity k order) judged by the same four oracles, non-trivial key = (lattice, shear, mesh) when b-vectors "
        "were returned (beyond_default_box counts the cases where a whole shell reaches outside +-2*mp_grid, i.e. where "
        "the code's box-sufficiency bound is decisive); family nnkp: cases = (lattice, mesh), inside one case one "
        ".nnkp file per neighbour ordering (shell: shell by shell as from_kpoints returns them; rev; pm_split: all b "
        "then all -b, 'x y z -x -y -z'; interleave: round robin over the shells; rot1, rot3: list rotated by 1 and by "
        "NNB//3; perk: a different rotation of pm_split for every k-point; krev: pm_split with the k-point list "
        "reversed so that k-point 1 is not Gamma) read by BKVectors.from_nnkp; non-trivial key = (lattice, mesh, "
        "'nnkp', ordering) only when the b-vectors form at least two shells with different weights")
ASSUMPTIONS = [
    "lattice alphabet: the 8 zoo cells, hexagonal and tetragonal cells with c/a in {0.5, 1, sqrt(8/3), 3} "
    "(tetragonal c/a=1 is the zoo 'sc' and is not repeated); thorough adds c/a in {1/3, 2, 4}, rhombohedral, "
    "body-centred tetragonal and a sheared description of the cubic cell; all cells have |a| ~ 1 so that the code's "
    "absolute kmesh_tol=1e-7 is far below every distinct-length gap (near-ties between 1e-9 and 1e-5 relative are "
    "asserted absent and would be reported as ambiguous, not judged)",
    "meshes up to 4x4x4 (quick) / 6x6x6 (thorough) plus anisotropic ones; k-points exactly i/n in [0,1), or (family "
    "digits8) truncated / rounded to 8 decimals; default kmesh_tol, bk_complete_tol, search_supercell",
    "a refusal of the shell search (RuntimeError 'Could not find a complete set') is not a violation of the "
    "statement; it is counted (no_solution) and listed in the evidence",
    "orderings: for NK>64 the transposition family is restricted to the first 64 adjacent pairs",
    "weights are not required to be positive or non-zero (the statement does not say so); zero/negative weights "
    "are counted in the evidence",
    "sheared cells: elementary shears a_j -> a_j + s*a_i of the lattice alphabet, all 6 ordered axis pairs, s in {3, 5} "
    "(thorough adds s in {-4, 7}); meshes (1,1,1) (2,2,2) (3,3,3) (2,3,4) (1,2,3) (1,1,4) (5,1,1) (4,4,1) "
    "(thorough adds (4,4,4) (3,5,2)); in quick s=5 is combined only with the meshes (2,2,2) (3,3,3) (2,3,4) (1,2,3) (on the "
    "meshes with N_i=1 s=3 already exceeds the default box 2*N_i), and in thorough |s|>=5 is not combined with (5,1,1) "
    "(4,4,1) (4,4,4) (3,5,2), because the code's second, enlarged search box makes these cases cost seconds each; no "
    "compound shears, no |s| > 7",
    "sheared cells: the search refuses (RuntimeError) much more often than for the compact cell of the same lattice, "
    "because a refusal inside the default box is not followed by a larger box; refusals (both messages, 'Could not find a "
    "complete set' and 'Could not find a set of complete shells') are counted (coverage.sheared.no_solution, "
    ".refusals_where_compact_cell_succeeds), not judged; the dependence of the Cartesian b-vector set and weights on "
    "the cell description (compared when both cells generate the same mesh lattice) is counted "
    "(coverage.sheared.cell_dependent_choice), not judged",
    "nnkp: the files contain real_lattice with 17 significant digits (exact round trip; a 7-decimal lattice would split "
    "symmetric shells by ~1e-7, which is outside the statement), k-points i/n with 8 decimals, the b-vector set that "
    "from_kpoints chose for the same lattice and mesh, every k-point listed; default kmesh_tol/bk_complete_tol of "
    "from_nnkp, lattice taken from the file, kptirr=None; meshes with NK<=32 in quick (no 4x4x4); the order of "
    "bk_grid relative to the file is not judged (not in the statement); weights of from_nnkp and from_kpoints are "
    "compared per vector to 1e-9 of the largest weight (the weights of a fixed set of whole shells are unique); only k-point 1 of the file determines the "
    "b-vector order inside the code, the per-k ordering therefore only tests that the other lists are not trusted "
    "blindly",
]

SQ3 = np.sqrt(3.0)


def lattices(tier):
    from wbmc import zoo
    L = {k: np.array(v, dtype=float) for k, v in zoo.LATTICES.items()}
    cas = {"0.5": 0.5, "1": 1.0, "r83": np.sqrt(8.0 / 3.0), "3": 3.0}
    if tier != "quick":
        cas.update({"1_3": 1.0 / 3.0, "2": 2.0, "4": 4.0})
    for tag, ca in cas.items():
        L["hex_ca" + tag] = np.array([[1, 0, 0], [-0.5, SQ3 / 2, 0], [0, 0, ca]])
        if tag != "1":
            L["tet_ca" + tag] = np.array([[1, 0, 0], [0, 1, 0], [0, 0, ca]])
    if tier != "quick":
        al = np.deg2rad(70.0)
        # rhombohedral, angle 70 degrees
        cx = np.cos(al)
        cy = (np.cos(al) - cx * np.cos(al)) / np.sin(al)
        L["rhomb70"] = np.array([[1, 0, 0], [np.cos(al), np.sin(al), 0], [cx, cy, np.sqrt(1 - cx ** 2 - cy ** 2)]])
        L["bct_ca1.5"] = np.array([[-0.5, 0.5, 0.75], [0.5, -0.5, 0.75], [0.5, 0.5, -0.75]])
        L["sc_shear1"] = np.array([[1, 0, 0], [1, 1, 0], [0, 0, 1.0]])
    return L


def meshes(tier):
    m = [(1, 1, 1), (2, 2, 2), (3, 3, 3), (4, 4, 4), (2, 3, 4), (5, 1, 1), (1, 1, 4), (4, 4, 1)]
    if tier != "quick":
        m += [(5, 5, 5), (6, 6, 6), (1, 2, 3), (3, 5, 2), (1, 7, 1), (6, 6, 1), (2, 2, 6)]
    return m


KINDS = ("id", "rev", "fortran", "transp", "irr", "digits8")

# ---------------------------------------------------------------- sheared / unreduced descriptions of the lattices
EXPENSIVE_SHEAR_MESHES = ((5, 1, 1), (4, 4, 1), (4, 4, 4), (3, 5, 2))
SHEAR5_MESHES_QUICK = ((2, 2, 2), (3, 3, 3), (2, 3, 4), (1, 2, 3))


def shear_meshes(tier):
    m = [(1, 1, 1), (2, 2, 2), (3, 3, 3), (2, 3, 4), (1, 2, 3), (1, 1, 4), (5, 1, 1), (4, 4, 1)]
    if tier != "quick":
        m += [(4, 4, 4), (3, 5, 2)]
    return m


def shears(tier, mesh):
    """tags 'a<j>+<s>a<i>' :  a_j -> a_j + s*a_i  (unimodular, the lattice is unchanged)"""
    svals = [3, 5] if tier == "quick" else [3, 5, -4, 7]
    if tuple(mesh) in EXPENSIVE_SHEAR_MESHES or (tier == "quick" and tuple(mesh) not in SHEAR5_MESHES_QUICK):
        svals = [s for s in svals if abs(s) < 5]
    for s in svals:
        for i, j in itertools.permutations(range(3), 2):
            yield f"a{j + 1}{s:+d}a{i + 1}"


def shear_matrix(tag):
    j, rest = int(tag[1]) - 1, tag[2:]
    s, i = rest.split("a")
    U = np.eye(3, dtype=int)
    U[j, int(i) - 1] = int(s)
    return U


# ---------------------------------------------------------------- .nnkp files
NNKP_ORDERS = ("shell", "rev", "pm_split", "interleave", "rot1", "rot3", "perk", "krev")


def nnkp_meshes(tier):
    return [m for m in meshes(tier) if tier != "quick" or int(np.prod(m)) <= 32]


def cases(tier, seed):
    L = lattices(tier)
    for mesh in meshes(tier):
        nk = int(np.prod(mesh))
        for lat in L:
            for kind in KINDS:
                if nk == 1 and kind != "id":
                    continue
                yield {"lat": lat, "mesh": list(mesh), "kind": kind}
    for mesh in nnkp_meshes(tier):
        for lat in L:
            yield {"lat": lat, "mesh": list(mesh), "kind": "nnkp"}
    for mesh in shear_meshes(tier):
        for lat in L:
            for sh in shears(tier, mesh):
                yield {"lat": lat, "mesh": list(mesh), "kind": "sheared", "shear": sh}


def grid_points(mesh):
    return np.array(list(itertools.product(*(range(n) for n in mesh))), dtype=int)


def orderings(kind, mesh):
    """yield (name, permutation, kptirr); the name prefix 'digits8' asks for coordinates truncated / rounded to 8
    decimals, as read from a Wannier90 text file (0.33333333)"""
    nk = int(np.prod(mesh))
    ident = list(range(nk))
    if kind == "id":
        yield "id", ident, None
    elif kind == "digits8":
        yield "digits8_trunc", ident, None
        yield "digits8_round_rev", ident[::-1], None
    elif kind == "rev":
        yield "rev", ident[::-1], None
    elif kind == "fortran":
        idx = np.arange(nk).reshape(mesh)
        yield "fortran", [int(i) for i in idx.transpose(2, 1, 0).reshape(-1)], None
    elif kind == "transp":
        for i in range(min(nk - 1, 64)):
            p = list(ident)
            p[i], p[i + 1] = p[i + 1], p[i]
            yield f"transp{i}", p, None
    elif kind == "irr":
        yield "irr_even", ident, list(range(0, nk, 2))
        yield "irr_odd_rev", ident[::-1], list(range(1, nk, 2))
    else:
        raise KeyError(kind)


def brute_force_vectors(basis, lmax):
    """all non-zero integer vectors n with |n @ basis| <= lmax; the box follows from |n_i| <= |k| * |col_i(basis^-1)|"""
    c = np.linalg.norm(np.linalg.inv(basis), axis=0)
    lim = np.floor(lmax * c * (1 + 1e-9) + 1e-9).astype(int)
    rng = [np.arange(-l, l + 1) for l in lim]
    n = np.array(np.meshgrid(*rng, indexing="ij")).reshape(3, -1).T
    ln = np.linalg.norm(n @ basis, axis=1)
    sel = (ln <= lmax) & (np.abs(n).sum(axis=1) > 0)
    return n[sel], ln[sel]


def check_shells(recip, mesh, wk, bk_cart, bk_grid, search_supercell=2):
    """returns (failure dict or None, observation dict)"""
    mp = np.array(mesh, dtype=int)
    basis = recip / mp[:, None]
    nnb = len(wk)
    obs = {"NNB": int(nnb)}
    scale = np.linalg.norm(basis, axis=1).max()
    bk_grid = np.asarray(bk_grid)
    if bk_grid.shape != (nnb, 3) or np.asarray(bk_cart).shape != (nnb, 3) or not np.issubdtype(bk_grid.dtype, np.integer):
        return {"key": "attributes:shape_or_dtype", "detail": f"bk_grid {bk_grid.shape} {bk_grid.dtype} bk_cart {np.shape(bk_cart)}"}, obs
    ref_cart = bk_grid @ basis
    if np.abs(ref_cart - bk_cart).max() > 1e-10 * scale:
        return {"key": "attributes:bk_cart_vs_bk_grid", "detail": f"max diff {np.abs(ref_cart - bk_cart).max()}"}, obs
    # completeness
    M = np.einsum("b,bi,bj->ij", wk, ref_cart, ref_cart)
    err = float(np.abs(M - np.eye(3)).max())
    obs["completeness_err"] = err
    if not err <= 1e-8:
        return {"key": "completeness", "detail": f"sum_b w b b^T - 1 = {err:.3e}; M={M.tolist()}"}, obs
    # closure under b -> -b, equal weights, no repeated vector
    tup = [tuple(int(x) for x in b) for b in bk_grid]
    if len(set(tup)) != nnb:
        return {"key": "closure:repeated_vector", "detail": f"bk_grid={tup}"}, obs
    if (0, 0, 0) in tup:
        return {"key": "closure:zero_vector", "detail": f"bk_grid={tup}"}, obs
    pos = {t: i for i, t in enumerate(tup)}
    wscale = max(np.abs(wk).max(), 1e-300)
    for i, t in enumerate(tup):
        j = pos.get((-t[0], -t[1], -t[2]))
        if j is None:
            return {"key": "closure:minus_b_missing", "detail": f"b={t} present, -b absent; bk_grid={tup}"}, obs
        if abs(wk[i] - wk[j]) > 1e-12 * wscale:
            return {"key": "closure:unequal_weights", "detail": f"b={t}: w(b)={wk[i]!r} w(-b)={wk[j]!r}"}, obs
    # whole shells (brute force)
    ln = np.linalg.norm(ref_cart, axis=1)
    lmax = ln.max() * (1 + 1e-4)
    allv, alll = brute_force_vectors(basis, lmax)
    tol = 1e-7 * scale
    amb = 1e-4 * scale
    chosen = set(tup)
    srt = np.argsort(ln)
    groups = []
    for i in srt:
        if groups and ln[i] - groups[-1][1] <= tol:
            groups[-1][0].append(i)
            groups[-1][1] = ln[i]
        else:
            groups.append([[i], ln[i]])
    obs["shells"] = [[len(g[0]), float(np.round(wk[g[0][0]], 10))] for g in groups]
    obs["zero_weight_shell"] = bool(any(abs(wk[g[0][0]]) < 1e-10 * wscale for g in groups))
    obs["negative_weight_shell"] = bool(any(wk[g[0][0]] < -1e-10 * wscale for g in groups))
    for idx, _ in groups:
        l0 = ln[idx].mean()
        d = np.abs(alll - l0)
        if np.any((d > tol) & (d < amb)):
            obs["ambiguous"] = True
            return None, obs
        full = {tuple(int(x) for x in v) for v in allv[d <= tol]}
        have = {tup[i] for i in idx}
        if not have <= full:
            return {"key": "whole_shells:vector_not_on_mesh_shell", "detail": f"{sorted(have - full)}"}, obs
        missing = sorted(full - have)
        if missing:
            box = search_supercell * mp
            outside = [m for m in missing if np.any(np.abs(m) > box)]
            key = ("whole_shells:truncated_by_search_box" if len(outside) == len(missing)
                   else "whole_shells:incomplete_shell")
            return {"key": key,
                    "detail": f"shell |b|={l0:.6f} (w={wk[idx[0]]:.6g}) has {len(have)} of {len(full)} mesh vectors of "
                              f"that length; chosen {sorted(have)}, missing {missing} (code search box +-{box.tolist()})"}, obs
        if not full <= chosen:
            return {"key": "whole_shells:incomplete_shell", "detail": f"missing {sorted(full - chosen)}"}, obs
    return None, obs


def check_neighbours(bkv, kint, mesh, kptirr, nnb):
    mp = np.array(mesh, dtype=int)
    nk = len(kint)
    want = list(range(nk)) if kptirr is None else list(kptirr)
    if np.asarray(bkv.kpt_grid).shape != (nk, 3) or np.any(np.asarray(bkv.kpt_grid) != kint):
        return {"key": "neighbours:kpt_grid", "detail": "kpt_grid differs from the integer coordinates of the input"}
    for name in ("neighbours", "G"):
        d = getattr(bkv, name)
        if sorted(int(k) for k in d.keys()) != sorted(want):
            return {"key": f"neighbours:keys_{name}", "detail": f"keys {sorted(d.keys())} expected {want}"}
    if [int(i) for i in bkv.kptirr] != want:
        return {"key": "neighbours:kptirr", "detail": f"{bkv.kptirr} vs {want}"}
    bg = np.asarray(bkv.bk_grid)
    for ik in want:
        nb = np.asarray(bkv.neighbours[ik])
        G = np.asarray(bkv.G[ik])
        if nb.shape != (nnb,) or G.shape != (nnb, 3):
            return {"key": "neighbours:shape", "detail": f"ik={ik} {nb.shape} {G.shape}"}
        if not (np.issubdtype(nb.dtype, np.integer) and np.issubdtype(G.dtype, np.integer)):
            return {"key": "neighbours:not_integer", "detail": f"ik={ik} dtypes {nb.dtype} {G.dtype}"}
        if np.any(nb < 0) or np.any(nb >= nk):
            return {"key": "neighbours:index_out_of_range", "detail": f"ik={ik} nb={nb.tolist()}"}
        lhs = kint[ik][None, :] + bg
        rhs = kint[nb] + G * mp[None, :]
        bad = np.where(np.any(lhs != rhs, axis=1))[0]
        if len(bad):
            ib = int(bad[0])
            return {"key": "neighbours:k_plus_b",
                    "detail": f"ik={ik} k={kint[ik].tolist()} b={bg[ib].tolist()} nb={int(nb[ib])} "
                              f"k_nb={kint[nb[ib]].tolist()} G={G[ib].tolist()} mesh={mp.tolist()}: k+b != k_nb+G*mesh"}
    return None


REFUSALS = ("Could not find a complete set", "Could not find a set of complete shells")


def shell_groups(bk_cart, scale):
    """indices of the b-vectors grouped by length (ascending), same tolerance as check_shells"""
    ln = np.linalg.norm(bk_cart, axis=1)
    groups = []
    for i in np.argsort(ln, kind="stable"):
        if groups and ln[i] - ln[groups[-1][-1]] <= 1e-7 * scale:
            groups[-1].append(int(i))
        else:
            groups.append([int(i)])
    return groups


def run_sheared(case):
    """the lattice `lat` described by the unreduced cell U @ A: same oracles as for the compact cell"""
    from wannierberri.w90files.bkvectors import BKVectors
    lat, mesh, sh = case["lat"], tuple(case["mesh"]), case["shear"]
    A0 = lattices("thorough")[lat]
    U = shear_matrix(sh)
    A = U @ A0
    mp = np.array(mesh, dtype=int)
    recip0 = 2 * np.pi * np.linalg.inv(A0).T
    recip = 2 * np.pi * np.linalg.inv(A).T
    kint = grid_points(mesh)
    tag = f"lattice={lat} shear={sh} real_lattice={A.tolist()} mesh={list(mesh)}"
    nt = [[lat, sh, list(mesh), "sheared"]]
    # the compact cell of the same lattice (only observed: does the search succeed, does it give the same vectors)
    try:
        base = BKVectors.find_bk_vectors(recip0.copy(), mp.copy())
    except RuntimeError as e:
        if not any(m in str(e) for m in REFUSALS):
            raise
        base = None
    try:
        bkv = BKVectors.from_kpoints(recip.copy(), mp.copy(), kint / mp[None, :])
    except RuntimeError as e:
        if any(m in str(e) for m in REFUSALS):
            return {"ok": True, "nontrivial": False,
                    "obs": {"no_solution": True, "sheared": True, "compact_cell_has_solution": base is not None}}
        if "Could not find a neighbour" in str(e):
            return {"ok": False, "key": "neighbours:not_found", "nontrivial": nt, "detail": f"{tag}: {str(e)[:200]}"}
        raise
    fail, obs = check_shells(recip, mesh, np.asarray(bkv.wk), np.asarray(bkv.bk_cart), bkv.bk_grid)
    obs["sheared"] = True
    if fail:
        fail["detail"] = f"{tag}: " + fail["detail"]
        return {"ok": False, "nontrivial": nt, **fail, "obs": obs}
    fail = check_neighbours(bkv, kint, mesh, None, len(bkv.wk))
    if fail:
        fail["detail"] = f"{tag}: " + fail["detail"]
        return {"ok": False, "nontrivial": nt, **fail, "obs": obs}
    bg = np.asarray(bkv.bk_grid)
    obs["beyond_default_box"] = bool(np.any(np.abs(bg) > 2 * mp[None, :]))
    obs["max_G"] = int(max(np.abs(np.asarray(g)).max() for g in bkv.G.values()))
    # observation: is the choice the same set of Cartesian vectors (and weights) as for the compact cell?  Only
    # comparable when both cells generate the same mesh lattice (always for NxNxN, otherwise iff T is unimodular).
    T = (recip / mp[:, None]) @ np.linalg.inv(recip0 / mp[:, None])     # b_grid(compact) = b_grid(sheared) @ T
    same_mesh = bool(np.abs(T - np.rint(T)).max() < 1e-9 and abs(abs(np.linalg.det(T)) - 1) < 1e-9)
    obs["same_mesh_lattice"] = same_mesh
    if same_mesh and base is not None:
        Ti = np.rint(T).astype(int)
        mine = {tuple(int(x) for x in b @ Ti): float(w) for b, w in zip(bg, bkv.wk)}
        ref = {tuple(int(x) for x in b): float(w) for b, w in zip(base[2], base[0])}
        wsc = max(abs(w) for w in ref.values())
        obs["cell_dependent_choice"] = not (set(mine) == set(ref) and
                                            all(abs(mine[b] - ref[b]) <= 1e-9 * wsc for b in ref))
    if obs.get("ambiguous"):
        return {"ok": True, "nontrivial": False, "obs": obs}
    return {"ok": True, "nontrivial": nt, "obs": obs}


def nnkp_orderings(bk_grid, groups, nk):
    """yield (name, reverse_k_list, [for every k-point the permutation of range(NNB) in which its neighbours are
    listed]); `groups` = shells (index lists) of the reference order, which is shell by shell"""
    nnb = len(bk_grid)
    ident = list(range(nnb))
    tup = [tuple(int(x) for x in b) for b in bk_grid]
    pos = {t: i for i, t in enumerate(tup)}

    def positive(t):
        return next(x for x in t if x != 0) > 0
    plus = [i for i in ident if positive(tup[i])]
    pm_split = plus + [pos[tuple(-x for x in tup[i])] for i in plus]
    inter = [g[i] for i in range(max(len(g) for g in groups)) for g in groups if i < len(g)]

    def rot(p, n):
        n %= len(p)
        return p[n:] + p[:n]
    yield "shell", False, [ident] * nk
    yield "rev", False, [ident[::-1]] * nk
    yield "pm_split", False, [pm_split] * nk
    yield "interleave", False, [inter] * nk
    yield "rot1", False, [rot(ident, 1)] * nk
    yield "rot3", False, [rot(ident, nnb // 3)] * nk
    yield "perk", False, [rot(pm_split, ik + 1) for ik in range(nk)]
    yield "krev", True, [pm_split] * nk


def write_nnkp(path, A, mesh, kint, bk_grid, perms):
    """a Wannier90 .nnkp file: k-point ik lists its neighbours k+b for b = bk_grid[perms[ik]] (reference arithmetic:
    k + b = k_nb + G*mesh by integer divmod)"""
    mp = np.array(mesh, dtype=int)
    recip = 2 * np.pi * np.linalg.inv(A).T
    index = {tuple(int(x) for x in k % mp): i for i, k in enumerate(kint)}
    lines = ["File written by /verif/wbmc/props/c22.py", "", "calc_only_A  :  F", "", "begin real_lattice"]
    lines += [" ".join(repr(float(x)) for x in row) for row in A]
    lines += ["end real_lattice", "", "begin recip_lattice"]
    lines += [" ".join(f"{x:12.7f}" for x in row) for row in recip]
    lines += ["end recip_lattice", "", "begin kpoints", f"{len(kint):6d}"]
    lines += ["".join(f"{x:14.8f}" for x in k / mp) for k in kint]
    lines += ["end kpoints", "", "begin projections", "     0", "end projections", "",
              "begin nnkpts", f"{len(bk_grid):4d}"]
    for ik, k in enumerate(kint):
        for ib in perms[ik]:
            G, k2 = np.divmod(k + bk_grid[ib], mp)
            lines.append(f"{ik + 1:6d}{index[tuple(int(x) for x in k2)] + 1:6d}   {G[0]:4d}{G[1]:4d}{G[2]:4d}")
    lines += ["end nnkpts", "", "begin exclude_bands", "   0", "end exclude_bands", ""]
    with open(path, "w") as f:
        f.write("\n".join(lines))


def run_nnkp(case):
    from wannierberri.w90files.bkvectors import BKVectors
    lat, mesh = case["lat"], tuple(case["mesh"])
    A = lattices("thorough")[lat]
    recip = 2 * np.pi * np.linalg.inv(A).T
    mp = np.array(mesh, dtype=int)
    pts = grid_points(mesh)
    nk = len(pts)
    tag = f"lattice={lat} real_lattice={A.tolist()} mesh={list(mesh)}"
    try:
        ref = BKVectors.from_kpoints(recip.copy(), mp.copy(), pts / mp[None, :])
    except RuntimeError as e:
        if any(m in str(e) for m in REFUSALS):
            return {"ok": True, "nontrivial": False, "obs": {"no_solution": True, "nnkp": True}}
        raise
    ref_grid = np.array(ref.bk_grid)
    ref_w = {tuple(int(x) for x in b): float(w) for b, w in zip(ref_grid, ref.wk)}
    wsc = max(abs(w) for w in ref_w.values())
    scale = np.linalg.norm(recip / mp[:, None], axis=1).max()
    groups = shell_groups(ref_grid @ (recip / mp[:, None]), scale)
    wshell = [ref.wk[g[0]] for g in groups]
    several = len(groups) >= 2 and max(wshell) - min(wshell) > 1e-6 * wsc
    obs = None
    done = []
    root = "/dev/shm" if os.path.isdir("/dev/shm") and os.access("/dev/shm", os.W_OK) else None
    tmp = tempfile.mkdtemp(prefix="wbmc_c22_nnkp_", dir=root)
    try:
        for name, krev, perms in nnkp_orderings(ref_grid, groups, nk):
            kint = pts[::-1] if krev else pts
            where = f"{tag} nnkp_order={name} (k-point 1 lists b={ref_grid[perms[0]].tolist()})"
            nt = [[lat, list(mesh), "nnkp", name]]
            path = os.path.join(tmp, f"{name}.nnkp")
            write_nnkp(path, A, mesh, kint, ref_grid, perms)
            try:
                bkv = BKVectors.from_nnkp(path)
            except Exception as e:      # the file lists a set that from_kpoints itself found complete
                return {"ok": False, "key": "nnkp:from_nnkp_raises", "nontrivial": nt,
                        "detail": f"{where}: {type(e).__name__}: {str(e)[:300]}"}
            if tuple(int(x) for x in bkv.mp_grid) != mesh:
                return {"ok": False, "key": "nnkp:mp_grid", "nontrivial": nt, "detail": f"{where}: mp_grid={bkv.mp_grid}"}
            fail, obs1 = check_shells(recip, mesh, np.asarray(bkv.wk), np.asarray(bkv.bk_cart), bkv.bk_grid)
            if fail:
                fail["detail"] = f"{where}: " + fail["detail"]
                fail["key"] = "nnkp:" + fail["key"]
                return {"ok": False, "nontrivial": nt, **fail, "obs": obs1}
            obs = obs or obs1
            fail = check_neighbours(bkv, kint, mesh, None, len(bkv.wk))
            if fail:
                fail["detail"] = f"{where}: " + fail["detail"]
                fail["key"] = "nnkp:" + fail["key"]
                return {"ok": False, "nontrivial": nt, **fail}
            got = {tuple(int(x) for x in b): float(w) for b, w in zip(bkv.bk_grid, bkv.wk)}
            if set(got) != set(ref_w):
                return {"ok": False, "key": "nnkp:bvectors_differ_from_file", "nontrivial": nt,
                        "detail": f"{where}: from_nnkp has {sorted(got)}, the file lists {sorted(ref_w)}"}
            bad = [b for b in ref_w if abs(got[b] - ref_w[b]) > 1e-9 * wsc]
            if bad:
                return {"ok": False, "key": "nnkp:weights_differ_from_from_kpoints", "nontrivial": nt,
                        "detail": f"{where}: b={bad[0]} w(from_nnkp)={got[bad[0]]!r} w(from_kpoints)={ref_w[bad[0]]!r}"}
            done.append(name)
    finally:
        shutil.rmtree(tmp, ignore_errors=True)
    obs["nnkp"] = True
    obs["nnkp_files"] = len(done)
    obs["several_weights"] = bool(several)
    if obs.get("ambiguous") or not several:
        return {"ok": True, "nontrivial": False, "obs": obs}
    return {"ok": True, "nontrivial": [[lat, list(mesh), "nnkp", name] for name in done], "obs": obs}


def run_case(case, seed):
    from wannierberri.w90files.bkvectors import BKVectors
    lat, mesh, kind = case["lat"], tuple(case["mesh"]), case["kind"]
    if kind == "sheared":
        return run_sheared(case)
    if kind == "nnkp":
        return run_nnkp(case)
    L = lattices("thorough")
    A = L[lat]
    recip = 2 * np.pi * np.linalg.inv(A).T
    mp = np.array(mesh, dtype=int)
    pts = grid_points(mesh)
    tag = f"lattice={lat} real_lattice={A.tolist()} mesh={list(mesh)}"
    obs = None
    norder = 0
    for name, perm, kptirr in orderings(kind, mesh):
        kint = pts[perm]
        kred = kint / mp[None, :]
        if name.startswith("digits8_trunc"):
            kred = np.floor(kred * 1e8) / 1e8
        elif name.startswith("digits8_round"):
            kred = np.round(kred, 8)
        try:
            bkv = BKVectors.from_kpoints(recip.copy(), mp.copy(), kred.copy(), kptirr=kptirr)
        except RuntimeError as e:
            if "Could not find a complete set" in str(e):
                return {"ok": True, "nontrivial": False, "obs": {"no_solution": True}}
            if "Could not find a neighbour" in str(e):
                return {"ok": False, "key": "neighbours:not_found", "nontrivial": [[lat, list(mesh), kind]],
                        "detail": f"{tag} ordering={name}: {str(e)[:200]}"}
            raise
        norder += 1
        if obs is None:       # the shell choice does not depend on the ordering: judge it once per case ...
            fail, obs = check_shells(recip, mesh, np.asarray(bkv.wk), np.asarray(bkv.bk_cart), bkv.bk_grid)
            if fail:
                fail["detail"] = f"{tag}: " + fail["detail"]
                return {"ok": False, "nontrivial": [[lat, list(mesh), kind]], **fail, "obs": obs}
            first = (np.array(bkv.wk), np.array(bkv.bk_grid))
        else:                 # ... but it must be the same for every ordering
            if not (np.array_equal(first[1], bkv.bk_grid) and np.array_equal(first[0], bkv.wk)):
                return {"ok": False, "key": "shells:depend_on_k_ordering", "detail": f"{tag} ordering={name}",
                        "nontrivial": [[lat, list(mesh), kind]]}
        fail = check_neighbours(bkv, kint, mesh, kptirr, len(bkv.wk))
        if fail:
            fail["detail"] = f"{tag} ordering={name}: " + fail["detail"]
            return {"ok": False, "nontrivial": [[lat, list(mesh), kind]], **fail}
    obs["orderings"] = norder
    if obs.get("ambiguous"):
        return {"ok": True, "nontrivial": False, "obs": obs}
    return {"ok": True, "nontrivial": [[lat, list(mesh), kind]], "obs": obs}


def finish(tier, cases, results):
    nosol, amb, zero, neg, norder = set(), set(), set(), set(), 0
    pairs = set()
    sh = {"cases": 0, "no_solution": 0, "refusals_where_compact_cell_succeeds": 0, "judged": 0,
          "beyond_default_box": 0, "same_mesh_lattice_compared": 0, "cell_dependent_choice": 0, "max_G": 0}
    sh_dep, sh_amb = [], 0
    nn = {"cases": 0, "files_read_and_judged": 0, "cases_with_several_weights": 0, "no_solution": 0}
    for c, r in zip(cases, results):
        o = r.get("obs") or {}
        p = f"{c['lat']}:{'x'.join(map(str, c['mesh']))}"
        if c["kind"] == "sheared":
            sh["cases"] += 1
            if o.get("no_solution"):
                sh["no_solution"] += 1
                sh["refusals_where_compact_cell_succeeds"] += bool(o.get("compact_cell_has_solution"))
                continue
            if o.get("ambiguous"):
                sh_amb += 1
                continue
            sh["judged"] += 1
            sh["beyond_default_box"] += bool(o.get("beyond_default_box"))
            sh["max_G"] = max(sh["max_G"], int(o.get("max_G", 0)))
            if "cell_dependent_choice" in o:
                sh["same_mesh_lattice_compared"] += 1
                if o["cell_dependent_choice"]:
                    sh["cell_dependent_choice"] += 1
                    sh_dep.append(f"{p}:{c['shear']}")
            continue
        if c["kind"] == "nnkp":
            nn["cases"] += 1
            nn["files_read_and_judged"] += int(o.get("nnkp_files", 0))
            nn["cases_with_several_weights"] += bool(o.get("several_weights"))
            nn["no_solution"] += bool(o.get("no_solution"))
            continue
        pairs.add(p)
        if o.get("no_solution"):
            nosol.add(p)
        if o.get("ambiguous"):
            amb.add(p)
        if o.get("zero_weight_shell"):
            zero.add(p)
        if o.get("negative_weight_shell"):
            neg.add(p)
        norder += int(o.get("orderings", 0))
    sh["ambiguous_near_tie"] = sh_amb
    sh["cell_dependent_choice_list"] = sh_dep[:40]
    return {"lattices": len({c["lat"] for c in cases}), "meshes": len({tuple(c["mesh"]) for c in cases}),
            "lattice_mesh_pairs": len(pairs), "from_kpoints_calls_judged": norder,
            "no_solution": sorted(nosol), "ambiguous_near_tie": sorted(amb),
            "pairs_with_zero_weight_shell": len(zero), "pairs_with_negative_weight_shell": len(neg),
            "sheared": sh, "nnkp": nn, "nnkp_orderings": list(NNKP_ORDERS)}
