"""C22 — finite-difference b-vectors: completeness, +-b closure, whole shells, neighbour table.

Exhaustive product  lattice alphabet x mesh alphabet x k-point ordering family, every element run through the
real `BKVectors.from_kpoints(recip_lattice, mp_grid, kpoints_red)` and judged by a reference written here:

  * completeness      sum_b w_b b_i b_j = delta_ij                                   (1e-8, dimensionless)
  * +-b closure       the integer multiset {b} equals -{b}, no vector twice, w(b) = w(-b)
  * whole shells      every selected length class equals the brute-force set of *all* mesh vectors of that
                      length (enumerated in a box derived from the length, independent of the code's own box)
  * neighbour table   k_int[ik] + b_int[ib] == k_int[nb] + G * mp_grid   exactly, in integers, for every ik, ib

A search that refuses to choose ("Could not find a complete set of bk vectors") does not contradict the
statement (which is about the chosen vectors); such (lattice, mesh) pairs are reported as `no_solution`.
"""
import itertools

import numpy as np

ID = "C22"
LEVEL = "exploration"
RULE = ("cases = (lattice, mesh, ordering family); families: id, rev (reversed list), fortran (first index fastest), "
        "transp (every adjacent transposition of the list, all inside one case), irr (kptirr = even / odd positions, "
        "on the identity and the reversed list), digits8 (coordinates truncated / rounded to 8 decimals as in a "
        "Wannier90 text file); each ordering is one call of BKVectors.from_kpoints; non-trivial = "
        "the search returned b-vectors (all four oracles applied) and, for families other than id, NK>1; "
        "(lattice, mesh) pairs where the search refuses are counted in no_solution and are not non-trivial")
ASSUMPTIONS = [
    "lattice alphabet: the 8 zoo cells, hexagonal and tetragonal cells with c/a in {0.5, 1, sqrt(8/3), 3} "
    "(tetragonal c/a=1 is the zoo 'sc' and is not repeated); thorough adds c/a in {1/3, 2, 4}, rhombohedral, "
    "body-centred tetragonal and a sheared description of the cubic cell; all cells have |a| ~ 1 so that the code's "
    "absolute kmesh_tol=1e-7 is far below every distinct-length gap (near-ties between 1e-9 and 1e-5 relative are "
    "asserted absent and would be reported as ambiguous, not judged)",
    "meshes up to 4x4x4 (quick) / 6x6x6 (thorough) plus anisotropic ones; k-points exactly i/n in [0,1), or (family "
    "digits8) truncated / rounded to 8 decimals; default kmesh_tol, bk_complete_tol, search_supercell",
    "a refusal of the shell search (RuntimeError 'Could not find a complete set') is not a violation of the "
    "statement; it is counted (no_solution) and listed in the evidence",
    "orderings: for NK>64 the transposition family is restricted to the first 64 adjacent pairs",
    "weights are not required to be positive or non-zero (the statement does not say so); zero/negative weights "
    "are counted in the evidence",
]

SQ3 = np.sqrt(3.0)


def lattices(tier):
    from wbmc import zoo
    L = {k: np.array(v, dtype=float) for k, v in zoo.LATTICES.items()}
    cas = {"0.5": 0.5, "1": 1.0, "r83": np.sqrt(8.0 / 3.0), "3": 3.0}
    if tier != "quick":
        cas.update({"1_3": 1.0 / 3.0, "2": 2.0, "4": 4.0})
    for tag, ca in cas.items():
        L["hex_ca" + tag] = np.array([[1, 0, 0], [-0.5, SQ3 / 2, 0], [0, 0, ca]])
        if tag != "1":
            L["tet_ca" + tag] = np.array([[1, 0, 0], [0, 1, 0], [0, 0, ca]])
    if tier != "quick":
        al = np.deg2rad(70.0)
        # rhombohedral, angle 70 degrees
        cx = np.cos(al)
        cy = (np.cos(al) - cx * np.cos(al)) / np.sin(al)
        L["rhomb70"] = np.array([[1, 0, 0], [np.cos(al), np.sin(al), 0], [cx, cy, np.sqrt(1 - cx ** 2 - cy ** 2)]])
        L["bct_ca1.5"] = np.array([[-0.5, 0.5, 0.75], [0.5, -0.5, 0.75], [0.5, 0.5, -0.75]])
        L["sc_shear1"] = np.array([[1, 0, 0], [1, 1, 0], [0, 0, 1.0]])
    return L


def meshes(tier):
    m = [(1, 1, 1), (2, 2, 2), (3, 3, 3), (4, 4, 4), (2, 3, 4), (5, 1, 1), (1, 1, 4), (4, 4, 1)]
    if tier != "quick":
        m += [(5, 5, 5), (6, 6, 6), (1, 2, 3), (3, 5, 2), (1, 7, 1), (6, 6, 1), (2, 2, 6)]
    return m


KINDS = ("id", "rev", "fortran", "transp", "irr", "digits8")


def cases(tier, seed):
    L = lattices(tier)
    for mesh in meshes(tier):
        nk = int(np.prod(mesh))
        for lat in L:
            for kind in KINDS:
                if nk == 1 and kind != "id":
                    continue
                yield {"lat": lat, "mesh": list(mesh), "kind": kind}


def grid_points(mesh):
    return np.array(list(itertools.product(*(range(n) for n in mesh))), dtype=int)


def orderings(kind, mesh):
    """yield (name, permutation, kptirr); the name prefix 'digits8' asks for coordinates truncated / rounded to 8
    decimals, as read from a Wannier90 text file (0.33333333)"""
    nk = int(np.prod(mesh))
    ident = list(range(nk))
    if kind == "id":
        yield "id", ident, None
    elif kind == "digits8":
        yield "digits8_trunc", ident, None
        yield "digits8_round_rev", ident[::-1], None
    elif kind == "rev":
        yield "rev", ident[::-1], None
    elif kind == "fortran":
        idx = np.arange(nk).reshape(mesh)
        yield "fortran", [int(i) for i in idx.transpose(2, 1, 0).reshape(-1)], None
    elif kind == "transp":
        for i in range(min(nk - 1, 64)):
            p = list(ident)
            p[i], p[i + 1] = p[i + 1], p[i]
            yield f"transp{i}", p, None
    elif kind == "irr":
        yield "irr_even", ident, list(range(0, nk, 2))
        yield "irr_odd_rev", ident[::-1], list(range(1, nk, 2))
    else:
        raise KeyError(kind)


def brute_force_vectors(basis, lmax):
    """all non-zero integer vectors n with |n @ basis| <= lmax; the box follows from |n_i| <= |k| * |col_i(basis^-1)|"""
    c = np.linalg.norm(np.linalg.inv(basis), axis=0)
    lim = np.floor(lmax * c * (1 + 1e-9) + 1e-9).astype(int)
    rng = [np.arange(-l, l + 1) for l in lim]
    n = np.array(np.meshgrid(*rng, indexing="ij")).reshape(3, -1).T
    ln = np.linalg.norm(n @ basis, axis=1)
    sel = (ln <= lmax) & (np.abs(n).sum(axis=1) > 0)
    return n[sel], ln[sel]


def check_shells(recip, mesh, wk, bk_cart, bk_grid, search_supercell=2):
    """returns (failure dict or None, observation dict)"""
    mp = np.array(mesh, dtype=int)
    basis = recip / mp[:, None]
    nnb = len(wk)
    obs = {"NNB": int(nnb)}
    scale = np.linalg.norm(basis, axis=1).max()
    bk_grid = np.asarray(bk_grid)
    if bk_grid.shape != (nnb, 3) or np.asarray(bk_cart).shape != (nnb, 3) or not np.issubdtype(bk_grid.dtype, np.integer):
        return {"key": "attributes:shape_or_dtype", "detail": f"bk_grid {bk_grid.shape} {bk_grid.dtype} bk_cart {np.shape(bk_cart)}"}, obs
    ref_cart = bk_grid @ basis
    if np.abs(ref_cart - bk_cart).max() > 1e-10 * scale:
        return {"key": "attributes:bk_cart_vs_bk_grid", "detail": f"max diff {np.abs(ref_cart - bk_cart).max()}"}, obs
    # completeness
    M = np.einsum("b,bi,bj->ij", wk, ref_cart, ref_cart)
    err = float(np.abs(M - np.eye(3)).max())
    obs["completeness_err"] = err
    if not err <= 1e-8:
        return {"key": "completeness", "detail": f"sum_b w b b^T - 1 = {err:.3e}; M={M.tolist()}"}, obs
    # closure under b -> -b, equal weights, no repeated vector
    tup = [tuple(int(x) for x in b) for b in bk_grid]
    if len(set(tup)) != nnb:
        return {"key": "closure:repeated_vector", "detail": f"bk_grid={tup}"}, obs
    if (0, 0, 0) in tup:
        return {"key": "closure:zero_vector", "detail": f"bk_grid={tup}"}, obs
    pos = {t: i for i, t in enumerate(tup)}
    wscale = max(np.abs(wk).max(), 1e-300)
    for i, t in enumerate(tup):
        j = pos.get((-t[0], -t[1], -t[2]))
        if j is None:
            return {"key": "closure:minus_b_missing", "detail": f"b={t} present, -b absent; bk_grid={tup}"}, obs
        if abs(wk[i] - wk[j]) > 1e-12 * wscale:
            return {"key": "closure:unequal_weights", "detail": f"b={t}: w(b)={wk[i]!r} w(-b)={wk[j]!r}"}, obs
    # whole shells (brute force)
    ln = np.linalg.norm(ref_cart, axis=1)
    lmax = ln.max() * (1 + 1e-4)
    allv, alll = brute_force_vectors(basis, lmax)
    tol = 1e-7 * scale
    amb = 1e-4 * scale
    chosen = set(tup)
    srt = np.argsort(ln)
    groups = []
    for i in srt:
        if groups and ln[i] - groups[-1][1] <= tol:
            groups[-1][0].append(i)
            groups[-1][1] = ln[i]
        else:
            groups.append([[i], ln[i]])
    obs["shells"] = [[len(g[0]), float(np.round(wk[g[0][0]], 10))] for g in groups]
    obs["zero_weight_shell"] = bool(any(abs(wk[g[0][0]]) < 1e-10 * wscale for g in groups))
    obs["negative_weight_shell"] = bool(any(wk[g[0][0]] < -1e-10 * wscale for g in groups))
    for idx, _ in groups:
        l0 = ln[idx].mean()
        d = np.abs(alll - l0)
        if np.any((d > tol) & (d < amb)):
            obs["ambiguous"] = True
            return None, obs
        full = {tuple(int(x) for x in v) for v in allv[d <= tol]}
        have = {tup[i] for i in idx}
        if not have <= full:
            return {"key": "whole_shells:vector_not_on_mesh_shell", "detail": f"{sorted(have - full)}"}, obs
        missing = sorted(full - have)
        if missing:
            box = search_supercell * mp
            outside = [m for m in missing if np.any(np.abs(m) > box)]
            key = ("whole_shells:truncated_by_search_box" if len(outside) == len(missing)
                   else "whole_shells:incomplete_shell")
            return {"key": key,
                    "detail": f"shell |b|={l0:.6f} (w={wk[idx[0]]:.6g}) has {len(have)} of {len(full)} mesh vectors of "
                              f"that length; chosen {sorted(have)}, missing {missing} (code search box +-{box.tolist()})"}, obs
        if not full <= chosen:
            return {"key": "whole_shells:incomplete_shell", "detail": f"missing {sorted(full - chosen)}"}, obs
    return None, obs


def check_neighbours(bkv, kint, mesh, kptirr, nnb):
    mp = np.array(mesh, dtype=int)
    nk = len(kint)
    want = list(range(nk)) if kptirr is None else list(kptirr)
    if np.asarray(bkv.kpt_grid).shape != (nk, 3) or np.any(np.asarray(bkv.kpt_grid) != kint):
        return {"key": "neighbours:kpt_grid", "detail": "kpt_grid differs from the integer coordinates of the input"}
    for name in ("neighbours", "G"):
        d = getattr(bkv, name)
        if sorted(int(k) for k in d.keys()) != sorted(want):
            return {"key": f"neighbours:keys_{name}", "detail": f"keys {sorted(d.keys())} expected {want}"}
    if [int(i) for i in bkv.kptirr] != want:
        return {"key": "neighbours:kptirr", "detail": f"{bkv.kptirr} vs {want}"}
    bg = np.asarray(bkv.bk_grid)
    for ik in want:
        nb = np.asarray(bkv.neighbours[ik])
        G = np.asarray(bkv.G[ik])
        if nb.shape != (nnb,) or G.shape != (nnb, 3):
            return {"key": "neighbours:shape", "detail": f"ik={ik} {nb.shape} {G.shape}"}
        if not (np.issubdtype(nb.dtype, np.integer) and np.issubdtype(G.dtype, np.integer)):
            return {"key": "neighbours:not_integer", "detail": f"ik={ik} dtypes {nb.dtype} {G.dtype}"}
        if np.any(nb < 0) or np.any(nb >= nk):
            return {"key": "neighbours:index_out_of_range", "detail": f"ik={ik} nb={nb.tolist()}"}
        lhs = kint[ik][None, :] + bg
        rhs = kint[nb] + G * mp[None, :]
        bad = np.where(np.any(lhs != rhs, axis=1))[0]
        if len(bad):
            ib = int(bad[0])
            return {"key": "neighbours:k_plus_b",
                    "detail": f"ik={ik} k={kint[ik].tolist()} b={bg[ib].tolist()} nb={int(nb[ib])} "
                              f"k_nb={kint[nb[ib]].tolist()} G={G[ib].tolist()} mesh={mp.tolist()}: k+b != k_nb+G*mesh"}
    return None


def run_case(case, seed):
    from wannierberri.w90files.bkvectors import BKVectors
    lat, mesh, kind = case["lat"], tuple(case["mesh"]), case["kind"]
    L = lattices("thorough")
    A = L[lat]
    recip = 2 * np.pi * np.linalg.inv(A).T
    mp = np.array(mesh, dtype=int)
    pts = grid_points(mesh)
    tag = f"lattice={lat} real_lattice={A.tolist()} mesh={list(mesh)}"
    obs = None
    norder = 0
    for name, perm, kptirr in orderings(kind, mesh):
        kint = pts[perm]
        kred = kint / mp[None, :]
        if name.startswith("digits8_trunc"):
            kred = np.floor(kred * 1e8) / 1e8
        elif name.startswith("digits8_round"):
            kred = np.round(kred, 8)
        try:
            bkv = BKVectors.from_kpoints(recip.copy(), mp.copy(), kred.copy(), kptirr=kptirr)
        except RuntimeError as e:
            if "Could not find a complete set" in str(e):
                return {"ok": True, "nontrivial": False, "obs": {"no_solution": True}}
            if "Could not find a neighbour" in str(e):
                return {"ok": False, "key": "neighbours:not_found", "nontrivial": [[lat, list(mesh), kind]],
                        "detail": f"{tag} ordering={name}: {str(e)[:200]}"}
            raise
        norder += 1
        if obs is None:       # the shell choice does not depend on the ordering: judge it once per case ...
            fail, obs = check_shells(recip, mesh, np.asarray(bkv.wk), np.asarray(bkv.bk_cart), bkv.bk_grid)
            if fail:
                fail["detail"] = f"{tag}: " + fail["detail"]
                return {"ok": False, "nontrivial": [[lat, list(mesh), kind]], **fail, "obs": obs}
            first = (np.array(bkv.wk), np.array(bkv.bk_grid))
        else:                 # ... but it must be the same for every ordering
            if not (np.array_equal(first[1], bkv.bk_grid) and np.array_equal(first[0], bkv.wk)):
                return {"ok": False, "key": "shells:depend_on_k_ordering", "detail": f"{tag} ordering={name}",
                        "nontrivial": [[lat, list(mesh), kind]]}
        fail = check_neighbours(bkv, kint, mesh, kptirr, len(bkv.wk))
        if fail:
            fail["detail"] = f"{tag} ordering={name}: " + fail["detail"]
            return {"ok": False, "nontrivial": [[lat, list(mesh), kind]], **fail}
    obs["orderings"] = norder
    if obs.get("ambiguous"):
        return {"ok": True, "nontrivial": False, "obs": obs}
    return {"ok": True, "nontrivial": [[lat, list(mesh), kind]], "obs": obs}


def finish(tier, cases, results):
    nosol, amb, zero, neg, norder = set(), set(), set(), set(), 0
    pairs = set()
    for c, r in zip(cases, results):
        o = r.get("obs") or {}
        p = f"{c['lat']}:{'x'.join(map(str, c['mesh']))}"
        pairs.add(p)
        if o.get("no_solution"):
            nosol.add(p)
        if o.get("ambiguous"):
            amb.add(p)
        if o.get("zero_weight_shell"):
            zero.add(p)
        if o.get("negative_weight_shell"):
            neg.add(p)
        norder += int(o.get("orderings", 0))
    return {"lattices": len({c["lat"] for c in cases}), "meshes": len({tuple(c["mesh"]) for c in cases}),
            "lattice_mesh_pairs": len(pairs), "from_kpoints_calls_judged": norder,
            "no_solution": sorted(nosol), "ambiguous_near_tie": sorted(amb),
            "pairs_with_zero_weight_shell": len(zero), "pairs_with_negative_weight_shell": len(neg)}
