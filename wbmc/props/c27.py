"""C27 -- Berry-curvature sum rule and Chern quantisation.

Three exhaustive families (nothing is sampled):

* kind="sum_k"  : every system of the zoo product (num_wann x lattice x R-set x centres, Ham+AA present) and every
                  bundled model, at every k of the k-alphabet and k+G: the *internal* Berry curvature tabulated by
                  evaluate_k(..., 'berry_curvature_internal_terms') summed over all bands is 0 (1e-10 of the largest
                  single-band value).
* kind="ahc_top": AHC (internal terms) through run() on 3 grids x {tetra, no tetra}, Fermi level above all bands (both on
                  a Fermi-level axis that lies entirely above the spectrum -- the calculator then merges all bands into
                  one group -- and as the last point of an axis that starts below the spectrum -- bands traced one by
                  one) = 0 on
                  the natural scale  |factor_ahc|/V * mean_k sum_n |Omega_n(k)|  (obtained from a grid tabulation in the
                  same run, which is also checked point-wise).
* kind="chern"  : gapped 2D models -- Haldane_ptb / Haldane_tbm on the full (delta, hop2, phi) grid, Qi-Wu-Zhang C=+-1,
                  a winding-2 variant C=+-2, a coupled 4-band stack (3 fillings) on several lattices/centres, Kane-Mele --
                  AHC through run() at NK=48 and NK=96 with the Fermi level in the gap:
                  q = sigma_n * (V/|a1 x a2|) / (e^2/h) is within 1e-3 of an integer at NK=96, not further from it than
                  at NK=48, and equals  -C  where C is the Chern number of the occupied bands computed in the harness by
                  the Fukui link method from the stored Ham_R (convention validated against the sum-over-states
                  curvature integral in the same case).
"""
import itertools

import numpy as np

ID = "C27"
LEVEL = "exploration"
RULE = ("cases = (a) system x all k of the alphabet (7 k x 6 G-shifts) for the band-sum rule; (b) system x 3 grids x tetra "
        "for AHC above all bands; (c) every model of the 2D parameter grids x every filling, kept when the indirect gap "
        ">= 0.3 (others are reported as trivial). non-trivial = (a,b) some band has |Omega_n| > 1e-6 so that the sum is a "
        "real cancellation, counted per system; (c) gapped case with Chern number != 0, counted per (model family, "
        "parameters, filling); C = 0 cases are run and judged but not counted; (d) every sequence of 2 (thorough: 3) runs over a "
        "5-letter alphabet of (model, NKdiv, NKFFT) that share one dictionary of AHC calculators (tetra and not): every run "
        "equals the run with a fresh calculator")
ASSUMPTIONS = [
    "quantisation: 'adequate grid' is fixed to NK=96 (48 for the two-grid comparison); models with indirect gap < 0.3 "
    "(in units where |hop1| = 1) are excluded, not explored",
    "the Chern oracle trusts system.rvec.iRvec / get_R_mat('Ham') and the convention H(k)=sum_R H(R)exp(+2 pi i k.R) "
    "(checked in every case against the energies returned by evaluate_k at a generic k)",
    "sign convention: sigma = -(e^2/h) C / c with Omega = curl(i<u|grad u>), as documented for calculators.static.AHC",
    "the Hamiltonian under test is whatever the builder returns (read back from the System_R): a builder defect such as "
    "Haldane_ptb ignoring its delta argument (C32, since fixed) changes the set of gapped cases, not the verdicts",
    "seed drives only the generic matrix entries of zoo systems and a 0.02 perturbation of the explicit Chern models",
    "design deviation: random zoo 2D models were replaced by explicit multi-band Chern models (random ones are all C=0 "
    "and their gaps depend on the seed)",
]

GAPMIN = 0.3
K_SHIFTS = [(0, 0, 0), (1, 0, 0), (0, 1, 0), (0, 0, 1), (1, -1, 0), (2, 0, -3)]

ZOO_QUICK = [(nw, lat, rs, cen) for nw in (1, 2, 3, 4) for lat in ("sc", "hex", "fcc", "tric")
             for rs, cen in (("shell1", "generic"), ("lopsided", "half"), ("shell2", "zero"))]
ZOO_THOROUGH = [(nw, lat, rs, cen) for nw in (1, 2, 3, 4, 6)
                for lat in ("sc", "tet", "orth", "hex", "fcc", "bcc", "mono", "tric")
                for rs in ("R0", "shell1", "shell2", "lopsided", "cube2")
                for cen in ("zero", "generic", "half", "outside")]
BUNDLED = ["Haldane_ptb", "Haldane_tbm", "Chiral", "KaneMele_even", "KaneMele_odd", "CuMnAs_2d", "SSH_ptb",
           "Chiral_OSD", "model_1d"]

HALDANE_DELTA = (0, 0.2, 0.7, 2.5)
HALDANE_HOP2 = (0.05, 0.15, 0.3)
HALDANE_PHI = ("pi/2", "-pi/2", "pi/4", "0.9pi")
PHI = {"pi/2": np.pi / 2, "-pi/2": -np.pi / 2, "pi/4": np.pi / 4, "0.9pi": 0.9 * np.pi,
       "-pi/4": -np.pi / 4, "pi/3": np.pi / 3, "0.6pi": 0.6 * np.pi, "-0.8pi": -0.8 * np.pi}


def setup(tier, seed):
    """parent process, before the fork: pay the one-time costs once instead of once per worker -- the first run()
    imports ray (~1.5 s), the first tetrahedron call compiles the numba kernels (~7 s), the first evaluate_k ~2 s"""
    warm = ["zoo", 2, "sc", "shell1", "generic"]
    run_sum_k({"kind": "sum_k", "sys": warm}, seed)
    for tetra in (False, True):
        run_ahc_top({"kind": "ahc_top", "sys": warm, "NK": [2, 2, 2], "tetra": tetra}, seed)


def cases(tier, seed):
    quick = tier == "quick"
    # (a) band-sum rule at k
    for z in (ZOO_QUICK if quick else ZOO_THOROUGH):
        yield {"kind": "sum_k", "sys": ["zoo"] + list(z)}
    for b in BUNDLED:
        yield {"kind": "sum_k", "sys": ["bundled", b]}
    # (b) AHC above all bands, 3 grids
    ahc_sys = [["zoo", 2, "tric", "shell1", "generic"], ["zoo", 3, "hex", "lopsided", "half"],
               ["zoo", 4, "fcc", "shell1", "generic"], ["bundled", "Chiral"], ["bundled", "Haldane_tbm"],
               ["bundled", "KaneMele_odd"], ["bundled", "CuMnAs_2d"]]
    if not quick:
        ahc_sys += [["zoo", 3, "bcc", "shell2", "outside"], ["zoo", 6, "mono", "shell1", "shared"],
                    ["bundled", "Chiral_OSD"], ["bundled", "Haldane_ptb"], ["bundled", "KaneMele_even"]]
    for s in ahc_sys:
        for nk in ([3, 3, 3], [4, 4, 4], [6, 4, 2]):
            for tetra in (False, True):
                yield {"kind": "ahc_top", "sys": s, "NK": nk, "tetra": tetra}
    # (c) quantisation
    nks = [48, 96] if quick else [48, 96, 144]
    deltas = HALDANE_DELTA if quick else HALDANE_DELTA + (1.2,)
    phis = HALDANE_PHI if quick else HALDANE_PHI + ("-pi/4", "0.6pi")
    for b in ("Haldane_tbm", "Haldane_ptb"):
        for d, h2, ph in itertools.product(deltas, HALDANE_HOP2, phis):
            # third grid (144) for the tbmodels builder only: the pythtb builder yields the same Hamiltonians
            yield {"kind": "chern", "model": [b, d, h2, ph], "NK": nks if b == "Haldane_tbm" else [48, 96]}
    lats = ("sc", "hex") if quick else ("sc", "hex", "mono", "orth")
    cens = ("generic",) if quick else ("generic", "zero", "outside")
    for lat, cen in itertools.product(lats, cens):
        for m in ((-3.0, -1.5, -0.5, 0.5, 1.5) if quick else (-3.0, -1.5, -1.0, -0.5, 0.5, 1.0, 1.5, 3.0)):
            yield {"kind": "chern", "model": ["qwz", m, lat, cen], "NK": nks}
        for m in ((-1.0, 1.0) if quick else (-1.5, -1.0, 1.0, 1.5, 3.0)):
            yield {"kind": "chern", "model": ["qwz2", m, lat, cen], "NK": nks}
        for m1, m2 in (((1.2, -1.0),) if quick else ((1.2, -1.0), (-0.7, 1.0), (1.0, 3.0))):
            yield {"kind": "chern", "model": ["stack", m1, m2, lat, cen], "NK": nks}
    for b in ("KaneMele_even", "KaneMele_odd"):
        yield {"kind": "chern", "model": [b], "NK": nks}
    # (d) one calculator object used for several runs (grid-convergence loops, scans over models)
    for first in range(len(REUSE_LETTERS)):
        yield {"kind": "reuse", "first": first, "depth": 2 if quick else 3}


# ----------------------------------------------------------------------------------------- systems

def build_system(spec, seed):
    from wbmc import zoo, models2d
    if spec[0] == "zoo":
        _, nw, lat, rs, cen = spec
        return zoo.make_system(nw, lat, rs, cen, seed=seed, matrices=("Ham", "AA"), tag="c27")
    return models2d.bundled(spec[1])


def build_chern_model(model, seed):
    from wbmc import zoo, models2d as m2
    name = model[0]
    if name in ("Haldane_ptb", "Haldane_tbm"):
        _, d, h2, ph = model
        return m2.bundled(name, delta=d, hop2=h2, phi=PHI[ph])
    if name in ("KaneMele_even", "KaneMele_odd"):
        return m2.bundled(name)
    pert = (zoo.rng_for(seed, "c27", *[str(x) for x in model]), 0.02)
    if name == "qwz":
        _, m, lat, cen = model
        return m2.system_from_hops(m2.qwz_hops(m), lat, zoo.centres(cen, 2), perturb=pert)
    if name == "qwz2":
        _, m, lat, cen = model
        return m2.system_from_hops(m2.qwz2_hops(m), lat, zoo.centres(cen, 2), perturb=pert)
    if name == "stack":
        _, m1, m2_, lat, cen = model
        h = m2.stack_hops(m2.qwz_hops(m1), m2.qwz2_hops(m2_), 8.0, 0.3)
        return m2.system_from_hops(h, lat, zoo.centres(cen, 4), perturb=pert)
    raise KeyError(name)


def syskey(spec):
    return "/".join(str(x) for x in spec)


# ----------------------------------------------------------------------------------------- (a)

def run_sum_k(case, seed):
    import wannierberri as wb
    from wbmc import zoo
    s = build_system(case["sys"], seed)
    worst = 0.0
    omax = 0.0
    nk = 0
    for k in zoo.K_ALPHABET.values():
        for G in K_SHIFTS:
            kk = tuple(float(a + b) for a, b in zip(k, G))
            res = wb.evaluate_k(s, k=kk, quantities=["berry_curvature_internal_terms", "energy"],
                                return_single_as_dict=True)
            O = np.array(res["berry_curvature_internal_terms"])          # [nb,3]
            if O.shape != (s.num_wann, 3):
                return {"ok": False, "key": "evaluate_k:berry_shape", "detail": f"{syskey(case['sys'])} shape {O.shape}"}
            if not np.all(np.isfinite(O)):
                return {"ok": False, "key": "berry_curvature_internal:not_finite",
                        "detail": f"{syskey(case['sys'])} k={kk} Omega={O.tolist()}"}
            tot = np.abs(O.sum(axis=0)).max()
            scale = max(1.0, np.abs(O).max())
            omax = max(omax, float(np.abs(O).max()))
            worst = max(worst, tot / scale)
            nk += 1
            if tot > 1e-10 * scale:
                return {"ok": False, "key": "berry_curvature_internal:band_sum_nonzero",
                        "nontrivial": ("sum_k", syskey(case["sys"])),
                        "detail": f"{syskey(case['sys'])} k={kk} sum_n Omega_n={O.sum(axis=0).tolist()} "
                                  f"max|Omega_n|={np.abs(O).max():.3e} E={np.array(res['energy']).tolist()}"}
    nt = ("sum_k", syskey(case["sys"])) if omax > 1e-6 else False
    return {"ok": True, "nontrivial": nt, "obs": {"k_points": nk, "max_Omega": omax, "worst_rel_sum": worst}}


# ----------------------------------------------------------------------------------------- (b)

def run_ahc_top(case, seed):
    import wannierberri as wb
    from wannierberri import factors
    from wannierberri.calculators import static, tabulate
    from wbmc import berry_harness as bh
    s = build_system(case["sys"], seed)
    NK = [n if p else 1 for n, p in zip(case["NK"], s.periodic)]
    iR, HR = bh.ham_R(s)
    # a rigorous upper bound of the spectrum: ||H(k)|| <= sum_R ||H(R)||
    top = float(sum(np.linalg.norm(h, 2) for h in HR)) + 1.0
    bottom = -top
    Ef = np.array([top, top + 1.0])            # far above: the calculator merges all bands into one group
    Ef_span = np.linspace(bottom, top, 41)      # from below the spectrum to above it: bands are traced one by one
    kwf = {"external_terms": False}
    tab = tabulate.TabulatorAll({"berry": tabulate.BerryCurvature(kwargs_formula=kwf, print_comment=False)},
                                mode="grid", print_comment=False)
    calcs = {"ahc": static.AHC(Efermi=Ef, tetra=case["tetra"], kwargs_formula=kwf, print_comment=False),
             "ahc_span": static.AHC(Efermi=Ef_span, tetra=case["tetra"], kwargs_formula=kwf, print_comment=False), "tab": tab}
    with bh.case_tmpdir() as tmp:
        grid = wb.Grid(s, NK=NK, NKFFT=1) if case["tetra"] else wb.Grid(s, NK=NK)
        dense = [int(x) for x in grid.dense]
        res = bh.tmp_run(s, grid, calcs, tmp)
        ahc = np.array(res.results["ahc"].data)               # [nEf,3]
        ahc_span = np.array(res.results["ahc_span"].data)
        O = np.array(res.results["tab"].results["berry"].data)  # [nk,nb,3]
        E = np.array(res.results["tab"].results["Energy"].data)
    if E.max() >= top - 0.5 or E.min() <= bottom + 0.5:
        return {"ok": False, "key": "harness:spectrum_bound", "detail": f"[{E.min()},{E.max()}] vs +-{top}"}
    nkexp = int(np.prod(dense))          # the Grid may enlarge the requested NK (minimal FFT grid of the R-set)
    if O.shape != (nkexp, s.num_wann, 3):
        return {"ok": False, "key": "tabulate:grid_shape", "detail": f"{syskey(case['sys'])} NK={NK} dense={dense} shape {O.shape}"}
    ksum = np.abs(O.sum(axis=1)).max(axis=1)                    # per k
    kscale = np.maximum(1.0, np.abs(O).max(axis=(1, 2)))
    if np.any(ksum > 1e-10 * kscale):
        i = int(np.argmax(ksum / kscale))
        return {"ok": False, "key": "berry_curvature_internal:band_sum_nonzero:grid",
                "detail": f"{syskey(case['sys'])} NK={NK} grid point #{i} sum={O[i].sum(axis=0).tolist()} "
                          f"max|Omega_n|={np.abs(O[i]).max():.3e}"}
    natural = abs(factors.factor_ahc) / abs(np.linalg.det(s.real_lattice)) * max(1.0, np.abs(O).sum(axis=1).max(axis=1).mean())
    if np.abs(ahc_span[0]).max() != 0:
        return {"ok": False, "key": "AHC:nonzero_below_all_bands", "detail": f"{syskey(case['sys'])} NK={NK} {ahc_span[0].tolist()}"}
    worst = max(np.abs(ahc).max(), np.abs(ahc_span[-1]).max())
    if worst > 1e-10 * natural:
        return {"ok": False, "key": f"AHC:nonzero_above_all_bands:tetra={case['tetra']}",
                "nontrivial": ("ahc_top", syskey(case["sys"])),
                "detail": f"{syskey(case['sys'])} NK={NK} tetra={case['tetra']} Efermi={Ef.tolist()} AHC={ahc.tolist()}; on the axis from {bottom:.2f}: AHC(top)={ahc_span[-1].tolist()} "
                          f"natural scale={natural:.3e}"}
    omax = float(np.abs(O).max())
    return {"ok": True, "nontrivial": (("ahc_top", syskey(case["sys"])) if omax > 1e-6 else False),
            "obs": {"max_Omega": omax, "ahc_over_scale": float(worst / natural),
                    "max_ahc_inside_bands_over_scale": float(np.abs(ahc_span).max() / natural)}}


# ----------------------------------------------------------------------------------------- (c)

def run_chern(case, seed):
    import wannierberri as wb
    from scipy.constants import elementary_charge, h, angstrom
    from wannierberri.calculators import static
    from wbmc import berry_harness as bh
    model = case["model"]
    s = build_chern_model(model, seed)
    if tuple(bool(x) for x in s.periodic) != (True, True, False):
        return {"ok": False, "key": "harness:not_2d", "detail": str(model)}
    nw = s.num_wann
    iR, HR = bh.ham_R(s)
    # premise: the harness H(k) is the model's H(k) (k sign / R convention)
    kgen = (0.123, -0.271, 0.0)
    Ecode = np.sort(np.array(wb.evaluate_k(s, k=kgen, quantities=["energy"])).reshape(-1))
    Eh = np.linalg.eigvalsh(bh.ham_k_many(iR, HR, [kgen])[0])
    if np.abs(Ecode - Eh).max() > 1e-9 * max(1.0, np.abs(Eh).max()):
        return {"ok": False, "key": "harness:hamiltonian_convention", "detail": f"{model}: {Ecode} vs {Eh}"}
    E, herm = bh.bands_2d(iR, HR, 96)
    if herm > 1e-12 * max(1.0, np.abs(E).max()):
        return {"ok": False, "key": "model:not_hermitian", "detail": f"{model}: |H-H^+|={herm}"}
    L = np.array(s.real_lattice)
    normal = np.cross(L[0], L[1])
    area = np.linalg.norm(normal)
    normal = normal / area
    c_out = abs(np.linalg.det(L)) / area                    # out-of-plane lattice constant (Angstrom)
    sgn = np.sign(np.linalg.det(L))                         # orientation of (a1,a2,a3); all alphabets are right-handed
    fillings = []
    for nocc in range(1, nw):
        gap = float(E[..., nocc].min() - E[..., nocc - 1].max())
        if gap >= GAPMIN:
            fillings.append((nocc, gap, 0.5 * float(E[..., nocc].min() + E[..., nocc - 1].max())))
    if not fillings:
        gaps = [round(float(E[..., n].min() - E[..., n - 1].max()), 4) for n in range(1, nw)]
        return {"ok": True, "nontrivial": False, "obs": {"skipped": "no gap >= 0.3", "gaps": gaps}}
    # one AHC calculator on an evenly spaced Fermi-level axis (the calculator requires even spacing) of step 0.05
    # from below the spectrum to above it; each gap >= 0.3 then contains a level >= 0.125 away from both band edges
    dEf = 0.05
    Efgrid = np.arange(float(E.min()) - 0.5, float(E.max()) + 1.0 + dEf, dEf)
    iEf = []
    for nocc, gap, mid in fillings:
        j = int(np.argmin(np.abs(Efgrid - mid)))
        assert E[..., nocc - 1].max() + 0.1 < Efgrid[j] < E[..., nocc].min() - 0.1
        iEf.append(j)
    iEf.append(len(Efgrid) - 1)
    assert Efgrid[-1] > E.max() + 0.9
    Efs = [float(Efgrid[j]) for j in iEf]
    fillings = [(n, g, ef) for (n, g, m), ef in zip(fillings, Efs)]
    top = Efs[-1]
    q = {}
    with bh.case_tmpdir() as tmp:
        for NK in case["NK"]:
            calc = {"ahc": static.AHC(Efermi=Efgrid, print_comment=False)}
            res = bh.tmp_run(s, wb.Grid(s, NK=[NK, NK, 1]), calc, tmp)
            vals = np.array(res.results["ahc"].data)[iEf]
            q[NK] = vals * (c_out * angstrom) / (elementary_charge ** 2 / h)      # [nEf,3]
    nt = []
    obs = []
    NKd = case["NK"][-1] if len(case["NK"]) == 2 else 96
    for i, (nocc, gap, ef) in enumerate(fillings):
        C1, f1 = bh.fukui_chern(iR, HR, nocc, 48)
        C2, f2 = bh.fukui_chern(iR, HR, nocc, 96)
        Ck = bh.kubo_chern(iR, HR, nocc, 96)
        Ci = int(round(C2))
        if abs(C1 - C2) > 1e-6 or abs(C2 - Ci) > 1e-6 or f2 > 1.0 or abs(Ck - Ci) > 0.05:
            return {"ok": False, "key": "harness:chern_oracle_inconsistent",
                    "detail": f"{model} nocc={nocc}: Fukui48={C1} Fukui96={C2} maxflux={f2} sum-over-states={Ck}"}
        qn = {NK: float(sgn * q[NK][i] @ normal) for NK in case["NK"]}
        inplane = max(float(np.abs(q[NK][i] - (q[NK][i] @ normal) * normal).max()) for NK in case["NK"])
        where = f"{model} filling={nocc}/{nw} gap={gap:.3f} Ef={ef:.4f} Chern(Fukui)={Ci}"
        qd = qn[NKd]
        n_int = int(round(qd))
        err = {NK: abs(qn[NK] - n_int) for NK in case["NK"]}
        obs.append({"nocc": nocc, "gap": round(gap, 4), "C": Ci, "q": {str(k_): v for k_, v in qn.items()},
                    "in_plane_part": inplane})       # observed only: the statement is about the out-of-plane component
        if err[NKd] > 1e-3:
            return {"ok": False, "key": "AHC:not_quantised", "nontrivial": ("chern",) + tuple(map(str, model)),
                    "detail": f"{where}: sigma*c/(e^2/h)={qn} (NK -> value)"}
        if n_int != -Ci:
            kind = "sign" if (n_int == Ci and Ci != 0) else "value"
            return {"ok": False, "key": f"AHC:chern_mismatch:{kind}", "nontrivial": ("chern",) + tuple(map(str, model)),
                    "detail": f"{where}: sigma*c/(e^2/h)={qn}, expected -C={-Ci}"}
        ks = sorted(case["NK"])
        for a, b in zip(ks[:-1], ks[1:]):
            if err[b] > max(err[a], 1e-8):
                return {"ok": False, "key": "AHC:two_grid_divergence",
                        "detail": f"{where}: |q-n| grows with the grid: {err}"}
        if Ci != 0:
            nt.append(("chern",) + tuple(map(str, model)) + (nocc, Ci))
    # Fermi level above all bands
    for NK in case["NK"]:
        if np.abs(q[NK][-1]).max() > 1e-9:
            return {"ok": False, "key": "AHC:nonzero_above_all_bands:2d",
                    "detail": f"{model} NK={NK} Ef={top}: sigma*c/(e^2/h)={q[NK][-1].tolist()}"}
    return {"ok": True, "nontrivial": nt if nt else False, "obs": obs}


# (d) every ordered pair (and, thorough, triple) of runs that share ONE dictionary of AHC calculators: each run must
#     give what a fresh calculator gives for the same (model, grid) -- the quantised value included
REUSE_LETTERS = [
    (["qwz", -1.5, "sc", "generic"], [3, 3, 1], [4, 4, 1]),
    (["qwz", -1.5, "sc", "generic"], [2, 2, 1], [6, 6, 1]),          # same k-points, other FFT grid
    (["qwz", -1.5, "hex", "generic"], [3, 3, 1], [4, 4, 1]),         # other cell volume
    (["Haldane_tbm", 0.2, 0.15, "pi/2"], [2, 2, 1], [5, 5, 1]),      # other model, volume and FFT grid
    (["stack", 1.2, -1.0, "sc", "generic"], [2, 2, 1], [6, 6, 1]),    # other number of bands
]
REUSE_EF = np.linspace(-6.0, 6.0, 25)


def run_reuse(case, seed, depth=2):
    import wannierberri as wb
    from wannierberri.calculators import static
    from wbmc import berry_harness as bh

    def calcs():
        return {"ahc": static.AHC(Efermi=REUSE_EF, print_comment=False),
                "ahc_tetra": static.AHC(Efermi=REUSE_EF, tetra=True, print_comment=False)}

    systems = {}

    def one(letter, cc, tmp):
        model, div, fft = REUSE_LETTERS[letter]
        key = repr(model)
        if key not in systems:
            systems[key] = build_chern_model(model, seed)
        s = systems[key]
        res = bh.tmp_run(s, wb.Grid(s, NKdiv=div, NKFFT=fft), cc, tmp)
        return {k: np.array(res.results[k].data) for k in cc}

    n = len(REUSE_LETTERS)
    nexec = 0
    with bh.case_tmpdir() as tmp:
        fresh = {i: one(i, calcs(), tmp) for i in range(n)}
        scale = {i: {k: max(np.abs(v).max(), 1e-300) for k, v in fresh[i].items()} for i in range(n)}
        for rest in itertools.product(range(n), repeat=depth - 1):
            seq = (case["first"],) + rest
            shared = calcs()
            for pos, letter in enumerate(seq):
                got = one(letter, shared, tmp)
                nexec += 1
                for k in got:
                    err = np.abs(got[k] - fresh[letter][k]).max() / scale[letter][k]
                    if not err <= 1e-12:
                        return {"ok": False, "key": f"AHC:calculator_reuse:{k}",
                                "detail": f"one calculator object used for the runs {[REUSE_LETTERS[i] for i in seq[:pos + 1]]}: "
                                          f"the last run differs from a fresh calculator by {err:.3g} (relative); e.g. "
                                          f"{np.ravel(got[k])[np.argmax(np.abs(np.ravel(got[k] - fresh[letter][k])))]!r} vs "
                                          f"{np.ravel(fresh[letter][k])[np.argmax(np.abs(np.ravel(got[k] - fresh[letter][k])))]!r}",
                                "replay_case": dict(case)}
    return {"ok": True, "nontrivial": ("reuse", case["first"]), "obs": {"sequences": n ** (depth - 1), "runs": nexec},
            "states": n ** (depth - 1), "transitions": nexec}


def run_case(case, seed):
    if case["kind"] == "reuse":
        return run_reuse(case, seed, depth=case.get("depth", 2))
    if case["kind"] == "sum_k":
        return run_sum_k(case, seed)
    if case["kind"] == "ahc_top":
        return run_ahc_top(case, seed)
    return run_chern(case, seed)


def finish(tier, cases, results):
    ch = [(c, r) for c, r in zip(cases, results) if c["kind"] == "chern"]
    gapped = sum(1 for c, r in ch if r.get("ok") and isinstance(r.get("obs"), list))
    cvals = {}
    for c, r in ch:
        if isinstance(r.get("obs"), list):
            for o in r["obs"]:
                cvals[str(o["C"])] = cvals.get(str(o["C"]), 0) + 1
    return {"axes": {"sum_k_systems": sum(1 for c in cases if c["kind"] == "sum_k"), "k_per_system": 7 * len(K_SHIFTS),
                     "ahc_top_runs": sum(1 for c in cases if c["kind"] == "ahc_top"),
                     "chern_models": len(ch), "chern_models_gapped": gapped},
            "chern_number_histogram_over_fillings": cvals}
