"""C25 — spin doubling and spin-orbit assembly preserve the spectrum; rotated Pauli algebra.

Four exhaustive sub-spaces (every element is run; nothing sampled):
  pauli    : (theta, phi) on a 7 x 8 grid including both poles and phi = 0, 2pi-ish ->
             sigma'_a sigma'_b = delta_ab + i eps_abc sigma'_c, Hermitian, n.sigma' = diag(+1,-1), C unitary
  double   : spinless zoo systems x k alphabet -> every level of the original appears exactly twice
             (energies and band gradients), SS(R=0) = 1 (x) sigma
  union    : up/down pairs (nspin 1, equal, permuted, longer, shorter, different R lists) x {no SOC object,
             alpha_soc = 0} x (theta, phi) -> spectrum = sorted union of the spin-up and spin-down spectra
             (reference: plain Fourier sums written here)
  assembly : up/down pairs x SOC data {every element of the Hermitian impulse basis, generic smooth}
             x alpha_soc {0, .5, 1} x (theta, phi) subset x gauge matrices {identity, generic unitary}:
               Data_K_soc.HH_K  = blockdiag(H_up, H_dn) + alpha * sum_c V_c^{ss'} sigma'_c[s,s']   (reference model)
               Data_K_soc Xbar('SS') (Wannier gauge) = reference spin operator
               get_system_R(): same HH_K, SS, energies and band gradients at every k of the alphabet
               H(alpha) affine in alpha
"""
import itertools

import numpy as np

ID = "C25"
LEVEL = "exploration"
RULE = ("cases = pauli:(theta,phi) | double:(system) | union:(pair relation, base, soc-mode, axis) | "
        "assembly:(pair relation, base, SOC datum, axis, gauge); each case loops over the k alphabet and alpha_soc; "
        "non-trivial = the case itself (every case runs one of the four mechanisms on a distinct input); union cases with "
        "nspin=2 and different spin-up/spin-down R lists are keyed by (relation, mode); the classes (relation, spin-coupling "
        "or spin-diagonal datum, impulse or generic) seen by the assembly cases are listed in the coverage")
ASSUMPTIONS = [
    "systems: in-memory zoo (num_wann 1-3 per spin; tric/hex lattices; R-sets shell1/shell2/lopsided), generic Hermitian Ham",
    "SOC data synthetic: complete Hermitian impulse basis constant in k (lands on R=0, valid at every k) and a generic smooth datum "
    "compared on the k-points of the 2x2x2 mesh it was defined on (where the q->R->k round trip is exact)",
    "(theta,phi): 7x8 grid for the Pauli algebra; 4 axes (both poles, equator, generic) for the assembly",
    "a SystemSOC that never received set_soc_R has rvec=None and cannot go through evaluate_k/Grid; it is observed through Data_K_soc with the spin-up grid",
]

THETAS = [0.0, np.pi / 6, np.pi / 3, np.pi / 2, 2 * np.pi / 3, 0.7, np.pi]
PHIS = [0.0, np.pi / 4, np.pi / 2, np.pi, 3 * np.pi / 2, 1.9, -0.6, 2 * np.pi]
AXES = {"z": (0.0, 0.0), "-z": (np.pi, 0.0), "equator": (np.pi / 2, np.pi / 3), "generic": (0.7, 1.9)}
KPTS = ["G", "X", "M", "R", "gen", "gen2"]          # the first four belong to the 2x2x2 mesh
MP_K = ["G", "X", "M", "R"]
ALPHAS = [0.0, 0.5, 1.0]
TOL = 1e-10

PAIR_REL = {  # label -> (rs_up, rs_down, order of the down list)
    "nspin1": ("shell1", None, None),
    "equal": ("shell1", "shell1", "id"),
    "permuted": ("shell1", "shell1", "rev"),
    "down_longer": ("shell1", "shell2", "id"),
    "down_shorter": ("shell2", "shell1", "rot1"),
    "different": ("shell1", "lopsided", "id"),
}
BASES = [(1, "tric"), (2, "tric"), (2, "hex")]
DOUBLE_SYSTEMS = [(1, "sc", "shell1", "zero"), (2, "tric", "shell1", "generic"), (3, "tric", "lopsided", "generic"),
                  (2, "hex", "shell2", "thirds"), (2, "fcc", "shell1", "shared"), (3, "hex", "lopsided", "outside")]


def cases(tier, seed):
    from wbmc import socsynth as ss
    out = []
    for it, ip in itertools.product(range(len(THETAS)), range(len(PHIS))):
        out.append({"kind": "pauli", "it": it, "ip": ip})
    for i in range(len(DOUBLE_SYSTEMS)):
        out.append({"kind": "double", "sys": i})
    for rel in PAIR_REL:
        for ib in range(len(BASES)):
            for mode in ("no_soc_object", "alpha0"):
                for ax in AXES:
                    if mode == "no_soc_object" and ax != "z":
                        continue
                    out.append({"kind": "union", "rel": rel, "base": ib, "mode": mode, "axis": ax})
    # assembly
    for rel in PAIR_REL:
        nspin = 1 if rel == "nspin1" else 2
        for ib, (nw, lat) in enumerate(BASES):
            if tier == "quick" and rel in ("permuted", "down_shorter") and ib == 2:
                continue
            data = ["generic"]
            if (tier == "thorough") or (rel in ("nspin1", "different") and lat == "tric") or (rel == "equal" and nw == 1):
                data += [list(x) for x in ss.soc_impulse_basis(nw, nspin)]
            for dat in data:
                axes = list(AXES) if (dat == "generic" or tier == "thorough") else ["equator", "generic"]
                for ax in axes:
                    for v in ("identity", "generic"):
                        if v == "generic" and dat != "generic" and tier == "quick":
                            continue
                        out.append({"kind": "assembly", "rel": rel, "base": ib, "soc": dat, "axis": ax, "v": v})
    # the full (theta,phi) grid on one pair with generic data
    for it, ip in itertools.product(range(len(THETAS)), range(len(PHIS))):
        out.append({"kind": "assembly", "rel": "different", "base": 0, "soc": "generic", "axis": [it, ip], "v": "identity"})
    return out


# ------------------------------------------------------------------------------------------------ pauli

def nvec(theta, phi):
    return np.array([np.sin(theta) * np.cos(phi), np.sin(theta) * np.sin(phi), np.cos(theta)])


def run_pauli(case):
    from wannierberri.w90files.soc import SOC
    from wbmc.socsynth import LEVI
    theta, phi = THETAS[case["it"]], PHIS[case["ip"]]
    C = np.array(SOC.get_C_ss(theta, phi))
    P = np.array(SOC.get_pauli_rotated(theta, phi))      # [s, s', c]
    ctx = f"theta={theta:.6g} phi={phi:.6g}"
    if P.shape != (2, 2, 3):
        return {"ok": False, "key": "get_pauli_rotated:shape", "detail": f"{ctx}: shape {P.shape}"}
    if np.abs(C.conj().T @ C - np.eye(2)).max() > 1e-12:
        return {"ok": False, "key": "get_C_ss:not_unitary", "detail": f"{ctx}: C^+C = {(C.conj().T @ C).tolist()}"}
    sig = [P[:, :, c] for c in range(3)]
    for c in range(3):
        if np.abs(sig[c] - sig[c].conj().T).max() > 1e-12:
            return {"ok": False, "key": "get_pauli_rotated:not_hermitian", "detail": f"{ctx}: component {c}"}
    for a in range(3):
        for b in range(3):
            ref = (1.0 if a == b else 0.0) * np.eye(2) + 1j * sum(LEVI[a, b, c] * sig[c] for c in range(3))
            err = np.abs(sig[a] @ sig[b] - ref).max()
            if err > 1e-12:
                return {"ok": False, "key": "get_pauli_rotated:algebra",
                        "detail": f"{ctx}: sigma'_{a} sigma'_{b} differs from delta + i eps sigma' by {err:.3g}"}
    n = nvec(theta, phi)
    along = sum(n[c] * sig[c] for c in range(3))
    err = np.abs(along - np.diag([1.0, -1.0])).max()
    if err > 1e-12:
        return {"ok": False, "key": "get_pauli_rotated:axis_component_not_diag(1,-1)",
                "detail": f"{ctx}: n.sigma' = {np.round(along, 6).tolist()}"}
    # the rotated matrices are the Pauli matrices in the basis of the columns of C
    for c in range(3):
        from wbmc.socsynth import PAULI
        if np.abs(C.conj().T @ PAULI[c] @ C - sig[c]).max() > 1e-12:
            return {"ok": False, "key": "get_pauli_rotated:not_C+sigmaC", "detail": f"{ctx}: component {c}"}
    return {"ok": True, "nontrivial": True}


# ------------------------------------------------------------------------------------------------ helpers

def data_k(system, k, gsys=None):
    from wannierberri.data_K import get_data_k_class_from_system
    from wannierberri.grid import Grid
    grid = Grid(gsys if gsys is not None else system, NK=1, NKFFT=1, use_symmetry=False)
    return get_data_k_class_from_system(system)(system, dK=np.array(k, dtype=float), grid=grid)


def wannier_gauge(d, name, der=0):
    Xb = d.Xbar(name, der)
    U = d.UU_K
    return np.einsum("kab,kbc...,kdc->kad...", U, Xb, U.conj())


def tabulator_safe(E):
    """the tabulators average bands closer than degen_thresh=1e-4: only exact multiplets or gaps > 1e-3 are compared"""
    g = np.diff(np.sort(np.asarray(E).ravel()))
    return not np.any((g > 1e-9) & (g < 1e-3))


def multiset_close(a, b, tol):
    a, b = np.sort(np.asarray(a).ravel()), np.sort(np.asarray(b).ravel())
    return a.shape == b.shape and float(np.abs(a - b).max()) <= tol


def build_pair(case, seed, mats=("Ham",)):
    from wbmc import zoo, socsynth as ss
    nw, lat = BASES[case["base"]]
    rs_up, rs_dn, order = PAIR_REL[case["rel"]]
    up = zoo.make_system(nw, lat, rs_up, "generic", seed=seed, matrices=mats, tag="c25up")
    dn = None
    if rs_dn is not None:
        dn = zoo.make_system(nw, lat, rs_dn, "generic", seed=seed, matrices=mats, tag="c25dn")
        if order != "id":
            dn = ss.reordered_copy(dn, ss.order_of(order, dn.rvec.nRvec))
    return up, dn


# ------------------------------------------------------------------------------------------------ double

def run_double(case, seed):
    import copy
    import wannierberri as wb
    from wbmc import zoo, socsynth as ss
    nw, lat, rs, cen = DOUBLE_SYSTEMS[case["sys"]]
    s = zoo.make_system(nw, lat, rs, cen, seed=seed, matrices=("Ham", "AA"), tag="c25dbl")
    s.spinor = False
    d = copy.deepcopy(s)
    d.double_spin()
    if d.num_wann != 2 * nw:
        return {"ok": False, "key": "double_spin:num_wann", "detail": f"{case}: {d.num_wann}"}
    for kn in KPTS:
        k = zoo.K_ALPHABET[kn]
        E0 = np.linalg.eigvalsh(ss.H_plain(s, k))                      # independent reference
        r = wb.evaluate_k(d, k=k, quantities=["energy", "band_gradients", "spin"], return_single_as_dict=True)
        E2 = np.array(r["energy"]).ravel()
        scale = max(1.0, np.abs(E0).max())
        Eraw = np.array(data_k(d, k).E_K).ravel()        # untabulated energies of the doubled system
        if Eraw.shape != (2 * nw,) or np.abs(np.sort(Eraw) - np.repeat(E0, 2)).max() > TOL * scale:
            return {"ok": False, "key": "double_spin:spectrum",
                    "detail": f"{case} k={kn}: doubled {np.sort(Eraw).tolist()} original {E0.tolist()}"}
        if tabulator_safe(E0) and (E2.shape != (2 * nw,) or np.abs(np.sort(E2) - np.repeat(E0, 2)).max() > TOL * scale):
            return {"ok": False, "key": "double_spin:spectrum",
                    "detail": f"{case} k={kn}: doubled {np.sort(E2).tolist()} original {E0.tolist()}"}
        r0 = wb.evaluate_k(s, k=k, quantities=["energy", "band_gradients"], return_single_as_dict=True)
        if tabulator_safe(E0) and np.abs(np.array(r0["energy"]).ravel() - E0).max() > TOL * scale:
            return {"ok": False, "key": "reference:H_plain_vs_evaluate_k", "detail": f"{case} k={kn}"}
        gaps = np.diff(E0)
        if len(gaps) == 0 or gaps.min() > 1e-3:
            V0 = np.array(r0["band_gradients"])
            V2 = np.array(r["band_gradients"])
            if np.abs(V2 - np.repeat(V0, 2, axis=0)).max() > 1e-8 * max(1.0, np.abs(V0).max()):
                return {"ok": False, "key": "double_spin:band_gradients",
                        "detail": f"{case} k={kn}: gradients of the doubled bands differ from the original ones"}
            # total spin of each degenerate pair vanishes, sigma is traceless
            S = np.array(r["spin"]).reshape(nw, 2, 3).sum(axis=1)
            if np.abs(S).max() > 1e-8:
                return {"ok": False, "key": "double_spin:pair_spin_not_opposite", "detail": f"{case} k={kn}: {S.tolist()}"}
    # the spin operator set by double_spin is 1 (x) sigma at R=0
    SS = d.get_R_mat("SS")
    ref = np.zeros_like(SS)
    for i in range(nw):
        ref[d.rvec.iR0, 2 * i:2 * i + 2, 2 * i:2 * i + 2, :] = ss.PAULI.transpose(1, 2, 0)
    if np.abs(SS - ref).max() > 1e-14:
        return {"ok": False, "key": "double_spin:SS", "detail": f"{case}: SS(R) is not 1 (x) sigma at R=0"}
    return {"ok": True, "nontrivial": True}


# ------------------------------------------------------------------------------------------------ union

def run_union(case, seed):
    import wannierberri as wb
    from wbmc import zoo, socsynth as ss
    up, dn = build_pair(case, seed)
    theta, phi = AXES[case["axis"]]
    if case["mode"] == "no_soc_object":
        s = ss.make_soc_system(up, dn, with_soc=False)
        gsys = up
    else:
        s = ss.make_soc_system(up, dn, with_soc=True, soc_kind="generic", theta=theta, phi=phi, alpha_soc=0.0,
                               overlap="generic", seed=seed, tag="c25union")
        gsys = None
    down = dn if dn is not None else up
    for kn in KPTS:
        k = zoo.K_ALPHABET[kn]
        ref = np.sort(np.concatenate([np.linalg.eigvalsh(ss.H_plain(up, k)), np.linalg.eigvalsh(ss.H_plain(down, k))]))
        scale = max(1.0, np.abs(ref).max())
        d = data_k(s, k, gsys)
        got = np.linalg.eigvalsh(np.array(d.HH_K)[0])
        if not multiset_close(got, ref, TOL * scale):
            return {"ok": False, "key": f"SystemSOC:{case['mode']}:spectrum_not_union:HH_K",
                    "detail": f"{case} k={kn}: HH_K spectrum {got.tolist()} union {ref.tolist()}"}
        EK = np.array(d.E_K).ravel()
        if not multiset_close(EK, ref, TOL * scale):
            return {"ok": False, "key": f"SystemSOC:{case['mode']}:spectrum_not_union:E_K",
                    "detail": f"{case} k={kn}: E_K {EK.tolist()} union {ref.tolist()}"}
        if gsys is None and tabulator_safe(ref):
            E = np.array(wb.evaluate_k(s, k=k, quantities=["energy"], return_single_as_dict=True)["energy"]).ravel()
            if not multiset_close(E, ref, TOL * scale):
                return {"ok": False, "key": f"SystemSOC:{case['mode']}:spectrum_not_union:evaluate_k",
                        "detail": f"{case} k={kn}: evaluate_k {E.tolist()} union {ref.tolist()}"}
    nt = ("union", case["rel"], case["mode"]) if dn is not None and case["rel"] != "equal" else True
    return {"ok": True, "nontrivial": nt}


# ------------------------------------------------------------------------------------------------ assembly

def reference_soc_k(nw, nspin, data_k_dict, ovl_k, vup, vdn, P):
    """reference spin-orbit block V(k) (2nw x 2nw, interlaced) and spin operator S(k) for one mesh point"""
    n = 2 * nw
    V = np.zeros((n, n), dtype=complex)
    S = np.zeros((n, n, 3), dtype=complex)
    vs = [vup, vdn]
    for s1 in range(2):
        for s2 in range(2):
            if nspin == 2:
                if s1 <= s2:
                    D = data_k_dict[s1, s2]                     # (3, NB, NB)
                    W = np.array([vs[s1].conj().T @ D[c] @ vs[s2] for c in range(3)])
                else:
                    D = data_k_dict[s2, s1]
                    W = np.array([(vs[s2].conj().T @ D[c] @ vs[s1]).conj().T for c in range(3)])
            else:
                D = data_k_dict[0, 0]
                W = np.array([vup.conj().T @ D[c] @ vup for c in range(3)])
            V[s1::2, s2::2] = sum(W[c] * P[s1, s2, c] for c in range(3))
    eye = np.eye(nw)
    if nspin == 2:
        O = vup.conj().T @ ovl_k @ vdn
    else:
        O = eye
    for c in range(3):
        S[0::2, 0::2, c] = eye * P[0, 0, c]
        S[1::2, 1::2, c] = eye * P[1, 1, c]
        S[0::2, 1::2, c] = O * P[0, 1, c]
        S[1::2, 0::2, c] = O.conj().T * P[1, 0, c]
    return V, S


def run_assembly(case, seed):
    import wannierberri as wb
    from wannierberri.w90files.soc import SOC
    from wbmc import zoo, socsynth as ss
    nw, lat = BASES[case["base"]]
    mats = ("Ham", "AA")
    up, dn = build_pair(case, seed, mats=mats)
    nspin = 1 if dn is None else 2
    down = dn if dn is not None else up
    if isinstance(case["axis"], str):
        theta, phi = AXES[case["axis"]]
    else:
        theta, phi = THETAS[case["axis"][0]], PHIS[case["axis"][1]]
    soc_kind = case["soc"] if case["soc"] == "generic" else tuple(case["soc"])
    impulse = soc_kind != "generic"
    mp = (2, 2, 2)
    ovl_kind = "generic" if not impulse else "identity"
    tag = "c25asm"
    # rebuild the very same synthetic inputs that make_soc_system feeds to set_soc_R (for the reference model)
    rng = zoo.rng_for(seed, "socsynth", nw, nspin, tuple(mp), str(soc_kind), tag)
    data = ss.soc_data(nw, nspin, mp, soc_kind, rng)
    ovl = ss.overlap_data(nw, mp, ovl_kind, rng) if nspin == 2 else None
    rngv = None if case["v"] == "identity" else zoo.rng_for(seed, "socsynth-v", nw, tag)
    chk_up = ss.fake_chk(nw, mp, rngv)
    chk_dn = ss.fake_chk(nw, mp, rngv) if nspin == 2 else None
    if impulse and case["v"] != "identity":
        # an impulse stays k-independent only if the gauge matrices are k-independent
        chk_up.v_matrix = [chk_up.v_matrix[0]] * len(chk_up.v_matrix)
        if chk_dn is not None:
            chk_dn.v_matrix = [chk_dn.v_matrix[1 % len(chk_dn.v_matrix)]] * len(chk_dn.v_matrix)
    systems = {}
    for alpha in ALPHAS:
        s = ss.make_soc_system(up, dn, with_soc=False)
        soc = SOC(data={i: d.copy() for i, d in data.items()}, NK=len(data),
                  overlap=({i: o.copy() for i, o in ovl.items()} if ovl is not None else {i: np.eye(nw, dtype=complex) for i in data}))
        s.set_soc_R(soc, chk_up=chk_up, chk_down=chk_dn, theta=theta, phi=phi, alpha_soc=alpha)
        systems[alpha] = s
    P = np.array(SOC.get_pauli_rotated(theta, phi))
    kmesh = ss.mp_kpoints(mp)
    klist = KPTS
    couples = (nspin == 2 and (not impulse or soc_kind[0] == "o")) or (nspin == 1 and abs(np.sin(theta)) > 1e-9)
    Hk = {}
    for kn in klist:
        k = np.array(zoo.K_ALPHABET[kn], dtype=float)
        ik = int(np.argmin(np.abs(((kmesh - k[None]) + 0.5) % 1 - 0.5).sum(axis=1))) if kn in MP_K else 0
        H0 = np.zeros((2 * nw, 2 * nw), dtype=complex)
        H0[::2, ::2] = ss.H_plain(up, k)
        H0[1::2, 1::2] = ss.H_plain(down, k)
        vdn = chk_dn.v_matrix[ik] if chk_dn is not None else chk_up.v_matrix[ik]
        on_mesh = impulse or kn in MP_K
        if on_mesh:      # reference from the raw synthetic data (covers set_soc_R + set_soc_axis)
            V, S = reference_soc_k(nw, nspin, data[ik], (ovl[ik] if ovl is not None else None), chk_up.v_matrix[ik], vdn, P)
        # reference valid at every k: the stored spin-resolved R-space matrices, Fourier-summed here, assembled with sigma'
        s1_ = systems[1.0]
        eye = np.eye(nw, dtype=complex)
        dk = {}
        for a_, b_ in ((0, 0), (0, 1), (1, 1)):
            if s1_.has_R_mat(f"dV_soc_wann_{a_}_{b_}"):
                W = ss.fourier_plain(s1_.rvec.iRvec, s1_.get_R_mat(f"dV_soc_wann_{a_}_{b_}"), k)     # (nw,nw,3)
                dk[a_, b_] = np.array([W[:, :, c] for c in range(3)])
        O_lib = ss.fourier_plain(s1_.rvec.iRvec, s1_.get_R_mat("overlap_up_down"), k) if nspin == 2 else None
        V2, S2 = reference_soc_k(nw, nspin, dk, O_lib, eye, eye, P)
        if on_mesh:
            e1, e2 = float(np.abs(V - V2).max()), float(np.abs(S - S2).max())
            if max(e1, e2) > 1e-9:
                return {"ok": False, "key": "SystemSOC.set_soc_R:R_matrices_vs_raw_data",
                        "detail": f"{case} k={kn}: Fourier sums of dV_soc_wann_*/overlap_up_down differ from the raw data by {e1:.3g}/{e2:.3g}"}
        else:
            V, S = V2, S2
        for alpha in ALPHAS:
            s = systems[alpha]
            d = data_k(s, k)
            got = np.array(d.HH_K)[0]
            ref = H0 + alpha * V
            scale = max(1.0, np.abs(ref).max())
            if np.abs(got - got.conj().T).max() > TOL * scale:
                return {"ok": False, "key": "Data_K_soc.HH_K:not_hermitian", "detail": f"{case} k={kn} alpha={alpha}"}
            err = float(np.abs(got - ref).max())
            if err > TOL * scale:
                blk = [(a, b) for a in (0, 1) for b in (0, 1) if np.abs((got - ref)[a::2, b::2]).max() > TOL * scale]
                return {"ok": False, "key": "SystemSOC.set_soc_axis:Ham_SOC_vs_reference",
                        "detail": f"{case} k={kn} alpha_soc={alpha}: |HH_K - (H_updown + alpha sum_c V_c sigma'_c)| = {err:.3g} in spin blocks {blk}",
                        "nontrivial": True}
            Hk[(kn, alpha)] = got
            Sg = wannier_gauge(d, "SS")[0]
            err = float(np.abs(Sg - S).max())
            if err > TOL:
                return {"ok": False, "key": "SystemSOC.set_soc_axis:SS_vs_reference",
                        "detail": f"{case} k={kn} alpha_soc={alpha}: |SS(k) - reference| = {err:.3g}", "nontrivial": True}
            # spin component along the axis: diagonal +1/-1 in the Wannier basis when the up/down orbitals coincide
            if nspin == 1 or ovl_kind == "identity":
                along = np.tensordot(Sg, nvec(theta, phi), axes=(2, 0))
                ref_al = np.diag(np.tile([1.0, -1.0], nw))
                if (case["v"] == "identity" or nspin == 1) and np.abs(along - ref_al).max() > TOL:
                    return {"ok": False, "key": "SystemSOC.set_soc_axis:axis_spin_not_diag(1,-1)",
                            "detail": f"{case} k={kn}: n.S = {np.round(along, 6).tolist()}"}
            # ---- plain real-space system derived from the spin-orbit system
            sR = s.get_system_R()
            dR = data_k(sR, k)
            HR = np.array(dR.HH_K)[0]
            err = float(np.abs(HR - got).max())
            if err > TOL * scale:
                return {"ok": False, "key": "SystemSOC.get_system_R:HH_K",
                        "detail": f"{case} k={kn} alpha_soc={alpha}: |HH_K(get_system_R) - HH_K(soc)| = {err:.3g}", "nontrivial": True}
            err = float(np.abs(wannier_gauge(dR, "SS")[0] - Sg).max())
            if err > TOL:
                return {"ok": False, "key": "SystemSOC.get_system_R:SS",
                        "detail": f"{case} k={kn} alpha_soc={alpha}: |SS(get_system_R) - SS(soc)| = {err:.3g}"}
            for der in (1,):
                A, B = wannier_gauge(dR, "Ham", der)[0], wannier_gauge(d, "Ham", der)[0]
                err = float(np.abs(A - B).max())
                if err > 1e-9 * max(1.0, np.abs(B).max()):
                    return {"ok": False, "key": f"SystemSOC.get_system_R:Ham_der{der}",
                            "detail": f"{case} k={kn} alpha_soc={alpha}: |dH/dk(get_system_R) - dH/dk(soc)| = {err:.3g}"}
            E = np.sort(np.linalg.eigvalsh(ref))
            if len(E) < 2 or np.diff(E).min() > 1e-3:
                q = ["energy", "band_gradients", "spin"]
                r1 = wb.evaluate_k(s, k=k, quantities=q, return_single_as_dict=True)
                r2 = wb.evaluate_k(sR, k=k, quantities=q, return_single_as_dict=True)
                if np.abs(np.array(r1["energy"]).ravel() - E).max() > TOL * scale:
                    return {"ok": False, "key": "SystemSOC:evaluate_k_energy_vs_reference", "detail": f"{case} k={kn} alpha={alpha}"}
                for qq in q:
                    err = float(np.abs(np.array(r1[qq]) - np.array(r2[qq])).max())
                    if err > 1e-8 * max(1.0, float(np.abs(np.array(r1[qq])).max())):
                        return {"ok": False, "key": f"SystemSOC.get_system_R:{qq}",
                                "detail": f"{case} k={kn} alpha_soc={alpha}: {qq} differs by {err:.3g}"}
        # scaling factor: H(alpha) affine
        err = float(np.abs(Hk[(kn, 0.5)] - 0.5 * (Hk[(kn, 0.0)] + Hk[(kn, 1.0)])).max())
        if err > TOL * max(1.0, np.abs(Hk[(kn, 1.0)]).max()):
            return {"ok": False, "key": "SystemSOC.set_soc_axis:alpha_soc_not_linear", "detail": f"{case} k={kn}: {err:.3g}"}
    # re-assembly history on ONE object: every sequence of <= 2 set_soc_axis calls over a 4-letter alphabet (same axis with
    # alpha 0.5 / 1 / 0, another axis), then the axis and each alpha of the alphabet again: Ham_SOC and SS must be those of
    # a freshly assembled system (alpha applied once, nothing left over from the earlier settings)
    hs = ss.make_soc_system(up, dn, with_soc=False)
    soc = SOC(data={i: d.copy() for i, d in data.items()}, NK=len(data),
              overlap=({i: o.copy() for i, o in ovl.items()} if ovl is not None else {i: np.eye(nw, dtype=complex) for i in data}))
    hs.set_soc_R(soc, chk_up=chk_up, chk_down=chk_dn, theta=theta, phi=phi, alpha_soc=0.5)
    letters = [(theta, phi, 0.5), (theta, phi, 1.0), (theta + 0.4, phi + 0.3, 0.5), (theta, phi, 0.0)]
    for n in (1, 2):
        for seq in itertools.product(range(len(letters)), repeat=n):
            for alpha in ALPHAS:
                for i in seq:
                    hs.set_soc_axis(theta=letters[i][0], phi=letters[i][1], alpha_soc=letters[i][2])
                hs.set_soc_axis(theta=theta, phi=phi, alpha_soc=alpha)
                for key in ("Ham_SOC", "SS"):
                    a, b = np.array(hs.get_R_mat(key)), np.array(systems[alpha].get_R_mat(key))
                    err = float(np.abs(a - b).max()) if a.shape == b.shape else np.inf
                    if err > 1e-12 * max(1.0, float(np.abs(b).max())):
                        return {"ok": False, "key": f"SystemSOC.set_soc_axis:history:{key}",
                                "detail": f"{case}: after set_soc_axis calls {[letters[i] for i in seq]} (theta, phi, alpha_soc) on one object, "
                                          f"set_soc_axis(theta={theta}, phi={phi}, alpha_soc={alpha}) gives {key} different by {err:.3g} from a "
                                          f"freshly assembled system", "nontrivial": True}
    nt = [("assembly", case["rel"], "couples_spins" if couples else "spin_diagonal", "impulse" if impulse else "generic")]
    return {"ok": True, "nontrivial": True, "obs": {"class": nt[0]}}


def run_case(case, seed):
    kind = case["kind"]
    if kind == "pauli":
        return run_pauli(case)
    if kind == "double":
        return run_double(case, seed)
    if kind == "union":
        return run_union(case, seed)
    return run_assembly(case, seed)


def finish(tier, cases, results):
    kinds = {}
    classes = set()
    for c, r in zip(cases, results):
        kinds[c["kind"]] = kinds.get(c["kind"], 0) + 1
        cl = (r.get("obs") or {}).get("class")
        if cl:
            classes.add(tuple(cl))
    return {"axes": {"cases_per_kind": kinds, "thetas": len(THETAS), "phis": len(PHIS), "alphas_soc": ALPHAS,
                     "k_points": KPTS, "pair_relations": list(PAIR_REL)},
            "assembly_classes_seen": sorted(classes)}
