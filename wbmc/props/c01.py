"""C01 — q -> R -> k round trip on the ab-initio mesh, X(-R) = X(R)^dagger, replica weights.

Three kinds of cases, all driven through the real code:

* kind "rvec": Rvectors(lattice, shifts_left_red).set_Rvec(mp_grid, ws_tolerance) ->
  set_fft_q_to_R(kpt_red | kpt_grid, fftlib) -> q_to_R.  One case = (lattice, mesh, centre pattern);
  inside the case the complete product  ws_tolerance x fftlib x k-point representation x ordering of
  the mesh points  is run, each with the *complete Hermitian impulse basis* (E_aa, E_ab+E_ba,
  i(E_ab-E_ba) at every mesh point; the maps are real-linear, so this decides all Hermitian data)
  plus one generic element; the baseline configuration additionally runs the basis as true scalar,
  vector(3) and tensor(3,3) valued arrays.  Oracles: (a) explicit sum  sum_R exp(2 pi i q.R) X_R  at
  every mesh point == input, and the library's own k-list transform (set_fft_R_to_k(k_list=mesh) /
  R_to_k) == input; (b) conj_XX_R(X_R) == X_R; (c) replica weight table: every pair sums to
  prod(mp_grid), every grid cell of every pair receives total weight 1, every replica is congruent
  to its cell; (d) the replicas chosen are the exact minimal images (independent search through the
  rational Gram matrix, ties decided with Fractions) with equal weights 1/multiplicity.
  Centre patterns include centres outside the home cell, coinciding, nearly coinciding (4e-5) and many cells apart
  ("far": 6.6 / 9.7 cells, beyond the code's search window of 3 supercells on small meshes); k-point representations
  include k+G and coordinates off by 1e-10 ("noisy", file precision).
* kind "wsdist": System_R.do_ws_dist on zoo systems (Ham, AA, GG): H(q), AA(q), GG(q) on the mesh are
  unchanged, X(-R)=X(R)^dagger afterwards.
* kind "w90": get_system_w90 on a synthetic WannierData (CheckPoint + EIG; v_matrix = eigenvectors of
  the target H(q), so any Hermitian H(q) can be fed): Ham interpolated back on the mesh == H(q).
"""
import itertools

import numpy as np

ID = "C01"
LEVEL = "exploration"
RULE = ("rvec cases = (lattice, mesh, centre pattern); each runs ws_tolerance x fftlib x k-representation x mesh "
        "ordering (all permutations for <=4 points, else identity, reversal, every adjacent transposition, every "
        "cyclic shift) x full Hermitian impulse basis (+generic element; scalar/vector/tensor shapes on the baseline); "
        "non-trivial = some pair of Wannier functions has a replica exactly on the Wigner-Seitz boundary "
        "(multiplicity>1, decided by the exact reference), counted per distinct (lattice, mesh, centres, multiplicity "
        "set), or a minimal image beyond the code's 3-supercell search window (pattern 'far'). wsdist cases = (lattice, mesh, centres, R-set, tolerance); non-trivial = the old R-set aliases on the "
        "mesh or replicas lie on the boundary. w90 cases = (lattice, mesh, centres, tolerance, fftlib); non-trivial = "
        "boundary replicas present")
ASSUMPTIONS = [
    "lattices: the 8 zoo lattices (rational Gram matrices); meshes up to 4 points per direction, <= 27 (quick) / 32 "
    "(thorough) points; 3 Wannier functions (4 for two patterns in thorough); centre patterns: on lattice points, generic, "
    "halves, thirds, outside the home cell, coinciding, nearly coinciding (4e-5), many cells apart (6.6 / 9.7 cells)",
    "ws_tolerance in {1e-3, 1e-5, 1e-8, -1e-5}; a tolerance of exactly 0 is rejected by the code itself (empty selection)",
    "mesh orderings beyond 4 points: a generating set of the symmetric group (adjacent transpositions, cyclic shifts, "
    "reversal; thorough adds every transposition for <=16 points), not all N! orders; the placement loop treats list "
    "positions independently. Non-baseline (ordering, k-representation) configurations carry position impulses with a "
    "generic Hermitian matrix + a generic element instead of the full band-resolved basis (placement is blind to band "
    "and Cartesian indices); quick runs the ordering x representation product for meshes > 12 points with the first "
    "tolerance only (baseline for the others), thorough for all four",
    "k-points are given as multiples of 1/mp_grid, exact or off by 1e-10 (file precision; the code accepts np.allclose), "
    "plus integer reciprocal vectors; the round trip is judged at the nominal mesh points; mp_grid is passed as a numpy "
    "array as get_system_w90 does",
    "minimal-image clause (d) is only judged when the exact minimum lies inside the code's search range (|n|<=3 "
    "supercells) and outside an ambiguity band of +-50% around the tolerance; minimality is not part of the statement "
    "for more skewed cells",
    "data: Hermitian impulse basis closes the data dimension by (real) linearity; generic element seeded by VERIF_SEED",
]

TOLS = (1e-3, 1e-5, 1e-8, -1e-5)
FFTLIBS = ("fftw", "numpy")
MODES = (("red", "unit"), ("red", "sym"), ("red", "shift"), ("red", "noisy"), ("grid", "unit"), ("grid", "shift"))
LATS = ("sc", "tet", "orth", "hex", "fcc", "bcc", "mono", "tric")
MESHES = ((1, 1, 1), (2, 1, 1), (2, 2, 1), (2, 2, 2), (3, 2, 1), (3, 3, 3), (4, 2, 2), (4, 4, 1))
CENS = ("zero", "generic", "half", "thirds", "outside", "shared", "near", "far", "translates", "chain3")
NW = 3


def centres(name, nw=NW):
    """reduced centres as floats that are exact decimal / small rationals"""
    from wbmc import zoo
    if name == "near":   # two almost coinciding centres and one almost half a cell away
        c = [[0.2, 0.3, 0.1], [0.20004, 0.3, 0.1], [0.70004, 0.3, 0.1], [0.2, 0.80004, 0.1]]
        return np.array(c[:nw], dtype=float)
    if name == "far":    # centres many cells apart: the minimal image of a pair lies > 3 supercells away on small meshes
        c = [[0.0, 0.0, 0.0], [6.6, 0.0, 0.0], [0.1, 9.7, 0.3], [-0.2, 0.4, 5.6]]
        return np.array(c[:nw], dtype=float)
    if name == "translates":   # lattice translates of one centre: different pair shifts that are equal modulo a lattice vector
        c = [[0.1, 0.2, 0.3], [1.1, 0.2, 0.3], [0.1, -0.8, 0.3], [0.1, 0.2, 2.3]]
        return np.array(c[:nw], dtype=float)
    if name == "chain3":       # equidistant centres 0, 1/3, 2/3: tau_1-tau_0 = tau_2-tau_1 = (tau_0-tau_2) + 1
        c = [[0.0, 0.0, 0.0], [1.0 / 3, 0.0, 0.0], [2.0 / 3, 0.0, 0.0], [1.0, 0.0, 0.0]]
        return np.array(c[:nw], dtype=float)
    return zoo.centres(name, nw)


def mesh_points(mp):
    return np.array(list(itertools.product(*[range(n) for n in mp])), dtype=int)


def orderings(N, transp=False):
    if N <= 4:
        return [list(p) for p in itertools.permutations(range(N))]
    out = [list(range(N)), list(range(N))[::-1]]
    for i in range(N - 1):
        p = list(range(N))
        p[i], p[i + 1] = p[i + 1], p[i]
        out.append(p)
    for s in range(1, N):
        out.append([(i + s) % N for i in range(N)])
    if transp:
        for i in range(N):
            for j in range(i + 2, N):
                p = list(range(N))
                p[i], p[j] = p[j], p[i]
                out.append(p)
    seen, res = set(), []
    for p in out:
        if tuple(p) not in seen:
            seen.add(tuple(p))
            res.append(p)
    return res


def gshift(i):
    """deterministic integer reciprocal-lattice vector for list position i (rep 'shift')"""
    return np.array([(i % 3) - 1, ((i // 3) % 3) - 1, 2 * ((i + 1) % 2)], dtype=int)


def kpoints_for(mp, order, mode):
    """-> (kind, array) to be passed to set_fft_q_to_R, and the reduced k-points (floats)"""
    kind, rep = mode
    mp = np.array(mp)
    kg = mesh_points(mp)[order]
    if rep == "sym":      # representative in (-mp/2, mp/2]
        kg = kg - mp[None, :] * (2 * kg > mp[None, :])
    elif rep == "shift":
        kg = kg + mp[None, :] * np.array([gshift(i) for i in range(len(kg))])
    if kind == "grid":
        return "grid", kg, kg / mp[None, :]
    if rep == "noisy":   # coordinates as read from a text file: off the exact multiple of 1/mp by 1e-10, both signs
        sgn = np.array([[(-1) ** (i + c + 1) for c in range(3)] for i in range(len(kg))], dtype=float)
        return "red", kg / mp[None, :] + 1e-10 * sgn, kg / mp[None, :]
    return "red", kg / mp[None, :], kg / mp[None, :]


def herm_basis(N, nw):
    """complete real-linear basis of Hermitian-matrix-valued functions on the mesh, shape (N, nw, nw, nbasis)"""
    nb = N * nw * nw
    B = np.zeros((N, nw, nw, nb), dtype=complex)
    j = 0
    for q in range(N):
        for a in range(nw):
            for b in range(a, nw):
                B[q, a, b, j] += 1
                if b != a:
                    B[q, b, a, j] += 1
                j += 1
                if b != a:
                    B[q, a, b, j] = 1j
                    B[q, b, a, j] = -1j
                    j += 1
    assert j == nb
    return B


def generic_herm(rng, N, nw, cart):
    X = rng.normal(size=(N, nw, nw) + cart) + 1j * rng.normal(size=(N, nw, nw) + cart)
    return X + X.swapaxes(1, 2).conj()


def tol_of(x):
    return 1e-10 * max(1.0, float(np.abs(x).max()))


def minusR_partner(iRvec):
    """index of -R for every R (-1 if absent), computed here (not with the library's reverseR)"""
    lst = [tuple(int(x) for x in r) for r in np.asarray(iRvec)]
    idx = {r: i for i, r in enumerate(lst)}
    return np.array([idx.get((-r[0], -r[1], -r[2]), -1) for r in lst], dtype=int)


def herm_defect(partner, XR):
    """max | X(-R)^dagger - X(R) | ; an R without -R partner must carry zeros"""
    has = partner >= 0
    d = 0.0
    if has.any():
        d = float(np.abs(XR[has] - XR[partner[has]].swapaxes(1, 2).conj()).max())
    if (~has).any():
        d = max(d, float(np.abs(XR[~has]).max()))
    return d


def back_sum(kred, iRvec, XR):
    ph = np.exp(2j * np.pi * (np.asarray(kred, dtype=float) @ np.asarray(iRvec).T))
    return np.tensordot(ph, XR, axes=(1, 0))


# --------------------------------------------------------------------------------------------------
def cases(tier, seed):
    lats = LATS
    meshes = MESHES
    for mp in meshes:
        N = int(np.prod(mp))
        for cen in CENS:
            for lat in lats:
                yield {"kind": "rvec", "lat": lat, "mp": list(mp), "cen": cen, "nw": NW,
                       "transp": tier == "thorough" and N <= 16,
                       "ordtols": len(TOLS) if (tier == "thorough" or N <= 12) else 1}
    if tier == "thorough":
        for mp in ((3, 3, 2), (4, 3, 1), (2, 4, 4)):
            for cen in CENS:
                for lat in lats:
                    yield {"kind": "rvec", "lat": lat, "mp": list(mp), "cen": cen, "nw": NW, "transp": False, "ordtols": len(TOLS)}
        for mp in ((2, 2, 1), (3, 2, 1), (3, 3, 1)):
            for cen in ("near", "outside"):
                for lat in lats:
                    yield {"kind": "rvec", "lat": lat, "mp": list(mp), "cen": cen, "nw": 4, "transp": False, "ordtols": len(TOLS)}
    # do_ws_dist on zoo systems
    ws_meshes = ((2, 2, 1), (3, 2, 1), (3, 3, 3), (4, 2, 2)) if tier == "quick" else MESHES[1:]
    ws_rsets = ("shell1", "chain", "lopsided") if tier == "quick" else ("R0", "shell1", "shell2", "chain", "lopsided", "cube2")
    ws_tols = (1e-5, 1e-3) if tier == "quick" else (1e-5, 1e-3, 1e-8)
    for mp in ws_meshes:
        for rs in ws_rsets:
            for cen in CENS:
                for lat in lats:
                    for tol in ws_tols:
                        yield {"kind": "wsdist", "lat": lat, "mp": list(mp), "cen": cen, "rs": rs, "tol": tol}
    # get_system_w90 on synthetic data
    w_meshes = ((1, 1, 1), (2, 2, 1), (3, 2, 1), (3, 3, 3)) if tier == "quick" else MESHES
    for mp in w_meshes:
        for cen in CENS:
            for lat in lats:
                for tol in (1e-5, -1e-5) if tier == "quick" else TOLS:
                    for fftlib in FFTLIBS:
                        yield {"kind": "w90", "lat": lat, "mp": list(mp), "cen": cen, "tol": tol, "fftlib": fftlib}


# --------------------------------------------------------------------------------------------------
def check_weights(rv, lat, mp, tau_frac, tol, ws_cache):
    """clauses (c) and (d). returns (failure dict or None, set of multiplicities found by the exact reference)"""
    from wbmc.oracles_ws import exact_ws
    mp = tuple(int(m) for m in mp)
    N = int(np.prod(mp))
    mapx, mapy, mapz, W = rv.get_remapper_XX_from_grid_to_list_R
    iR = np.asarray(rv.iRvec)
    nw = W.shape[1]
    atol = abs(tol)
    mults = set()
    if len(set(map(tuple, iR.tolist()))) != len(iR):
        return {"ok": False, "key": "iRvec:duplicates", "detail": f"{lat} {mp} iRvec has repeated vectors"}, mults
    for a in range(nw):
        for b in range(nw):
            w = W[:, a, b]
            if abs(w.sum() - N) > 1e-9 * N:
                return {"ok": False, "key": "weights:sum_per_pair",
                        "detail": f"{lat} mp={mp} tol={tol} pair=({a},{b}) sum of weights {w.sum()} != {N}"}, mults
            nz = np.where(w > 0)[0]
            cell_tot = {}
            for i in nz:
                cell = tuple(int(x) for x in iR[i] % np.array(mp))
                if (int(mapx[i, a, b]), int(mapy[i, a, b]), int(mapz[i, a, b])) != cell:
                    return {"ok": False, "key": "weights:remapper_cell",
                            "detail": f"{lat} mp={mp} pair=({a},{b}) R={iR[i].tolist()} mapped to cell "
                                      f"{(mapx[i, a, b], mapy[i, a, b], mapz[i, a, b])} != R mod mp {cell}"}, mults
                cell_tot[cell] = cell_tot.get(cell, 0.0) + w[i]
            for cell in itertools.product(*[range(m) for m in mp]):
                if abs(cell_tot.get(cell, 0.0) - 1.0) > 1e-9:
                    return {"ok": False, "key": "weights:cell_total",
                            "detail": f"{lat} mp={mp} tol={tol} pair=({a},{b}) cell {cell} receives total weight "
                                      f"{cell_tot.get(cell, 0.0)} != 1"}, mults
            # (d) exact minimal images
            s = tuple(tau_frac[b][i] - tau_frac[a][i] for i in range(3))
            if s not in ws_cache:
                ws_cache[s] = exact_ws(lat, mp, s, search=4, near=2e-3)
            ref = ws_cache[s]
            got = {}
            for i in nz:
                got.setdefault(tuple(int(x) for x in iR[i] % np.array(mp)), {})[tuple(int(x) for x in iR[i])] = w[i]
            for cell, r in ref.items():
                mults.add(len(r["min"]))
                if r["nmax"] > 3:
                    mults.add("search_range")
                    continue   # true minimum outside the code's search window (3 supercells): minimality not judged
                must = set(r["min"]) | {R for R, dd in r["near"] if dd < 0.5 * atol}
                may = {R for R, dd in r["near"] if 0.5 * atol <= dd <= 1.5 * atol}
                have = set(got.get(cell, {}))
                if not (must <= have <= (must | may)):
                    bd = ":boundary" if len(r["min"]) > 1 else ":interior"
                    return {"ok": False, "key": "ws:not_minimal_images" + bd,
                            "detail": f"{lat} mp={mp} tol={tol} pair=({a},{b}) shift={[float(x) for x in s]} cell={cell}: "
                                      f"code replicas {sorted(have)} expected {sorted(must)} (+optional {sorted(may)})"}, mults
                ws = list(got[cell].values())
                if max(abs(x - 1.0 / len(have)) for x in ws) > 1e-12:
                    return {"ok": False, "key": "weights:unequal_within_cell",
                            "detail": f"{lat} mp={mp} tol={tol} pair=({a},{b}) cell={cell} weights {got[cell]}"}, mults
    return None, mults


def run_rvec(case, seed):
    from wbmc import zoo
    from wbmc.oracles_ws import frac
    from wannierberri.fourier.rvectors import Rvectors
    lat, mp, cen, nw = case["lat"], tuple(case["mp"]), case["cen"], case["nw"]
    L = zoo.lattice(lat)
    tau = centres(cen, nw)
    tau_frac = [[frac(x) for x in t] for t in tau]
    N = int(np.prod(mp))
    B = herm_basis(N, nw)
    nb = B.shape[-1]
    rng = zoo.rng_for(seed, "C01", lat, mp, cen)
    Gv = generic_herm(rng, N, nw, (3,))
    Gt = generic_herm(rng, N, nw, (3, 3))
    Gs = generic_herm(rng, N, nw, ())
    H0 = generic_herm(rng, 1, nw, ())[0]
    P = np.zeros((N, nw, nw, N), dtype=complex)
    for q in range(N):
        P[q, :, :, q] = H0
    ordtols = int(case.get("ordtols", len(TOLS)))
    ords = orderings(N, transp=bool(case.get("transp", False)))
    ws_cache = {}
    allmults = set()
    ctx = f"{lat} mp={mp} cen={cen}" + (f" (reduced centres {tau.tolist()})" if cen == "far" else "")
    nconf = 0
    for itol, tol in enumerate(TOLS):
        rv = Rvectors(lattice=L, shifts_left_red=tau)
        rv.set_Rvec(np.array(mp), ws_tolerance=tol)
        fail, mults = check_weights(rv, lat, mp, tau_frac, tol, ws_cache)
        allmults |= mults
        far = "search_range" in mults
        mults.discard("search_range")
        boundary = ":search_range" if far else (":boundary" if max(mults | {1}) > 1 else ":interior")
        if fail is not None:
            fail["nontrivial"] = False
            return fail
        iR = np.array(rv.iRvec)
        partner = minusR_partner(iR)

        def judge(X_in, kred, XR, what, conf):
            back = back_sum(kred, iR, XR)
            err = float(np.abs(back - X_in).max())
            if err > tol_of(X_in):
                return {"ok": False, "key": f"roundtrip:{what}",
                        "detail": f"{ctx} tol={tol} {conf}: max|X_back(q)-X_in(q)|={err:.3e} (shape {X_in.shape})"}
            herr = herm_defect(partner, XR)
            if herr > tol_of(X_in):
                return {"ok": False, "key": f"hermiticity:{what}",
                        "detail": f"{ctx} tol={tol} {conf}: max|X(-R)^+ - X(R)|={herr:.3e}"}
            cerr = float(np.abs(rv.conj_XX_R(XR) - XR).max())
            if cerr > tol_of(X_in):
                return {"ok": False, "key": "conj_XX_R:inconsistent",
                        "detail": f"{ctx} tol={tol} {conf}: X(-R)=X(R)^+ holds but conj_XX_R(X) differs from X by {cerr:.3e}"}
            return None

        for fftlib in FFTLIBS:
            for mode in MODES:
                for io, order in enumerate(ords if itol < ordtols else ords[:1]):
                    base = (mode == MODES[0] and io == 0)
                    what = ("q_to_R" + boundary) if base else ("mesh_order" if mode == MODES[0] else f"kpt_rep:{mode[0]}:{mode[1]}")
                    conf = f"fftlib={fftlib} mode={mode} order={order}"
                    kind, karr, kred = kpoints_for(mp, order, mode)
                    try:
                        if kind == "grid":
                            rv.set_fft_q_to_R(kpt_grid=karr, fftlib=fftlib)
                        else:
                            rv.set_fft_q_to_R(kpt_red=karr, fftlib=fftlib)
                        nconf += 1
                        # the list position i holds mesh point order[i]
                        if base:
                            # full Hermitian basis stacked on a trailing axis, generic scalar/vector/tensor
                            Bo = B[order]
                            data = [Bo, Gv[order], Gs[order], Gt[order]]
                            # true scalar / vector / tensor valued calls over the whole basis
                            for j in range(nb):
                                data.append(Bo[..., j])
                            pad = np.concatenate([Bo, np.zeros(Bo.shape[:3] + ((-nb) % 9,), dtype=complex)], axis=3)
                            for j in range(0, nb, 3):
                                data.append(pad[..., j:j + 3])
                            for j in range(0, nb, 9):
                                data.append(pad[..., j:j + 9].reshape(pad.shape[:3] + (3, 3)))
                        else:
                            # placement is blind to band/Cartesian indices: position impulses carrying a generic
                            # Hermitian matrix (stacked) + the generic element
                            data = [P[order], Gv[order]]
                        for X in data:
                            XR = rv.q_to_R(X.copy())
                            f = judge(X, kred, XR, what, conf)
                            if f is not None:
                                f["nontrivial"] = False
                                return f
                        if base:
                            # the library's own explicit k-list transform at the mesh points
                            XR = rv.q_to_R(Gv[order].copy())
                            rv.set_fft_R_to_k(NK=None, num_wann=nw, k_list=kred)
                            for herm in (False, True):
                                b2 = rv.R_to_k(XR.copy(), hermitian=herm)
                                err = float(np.abs(b2 - Gv[order]).max())
                                if err > tol_of(Gv):
                                    return {"ok": False, "key": "roundtrip:R_to_k_klist", "nontrivial": False,
                                            "detail": f"{ctx} tol={tol} {conf} hermitian={herm}: {err:.3e}"}
                            # sub-block selection used by the SOC code path
                            sl, sr = np.array([0, nw - 1]), np.array([nw - 1, 0])
                            Xsel = Gv[order][:, sl][:, :, sr]
                            XRs = rv.q_to_R(Xsel.copy(), select_left=sl, select_right=sr)
                            err = float(np.abs(XRs - XR[:, sl][:, :, sr]).max())
                            if err > tol_of(Gv):
                                return {"ok": False, "key": "q_to_R:select_left_right", "nontrivial": False,
                                        "detail": f"{ctx} tol={tol} {conf}: {err:.3e}"}
                    except Exception as e:   # noqa
                        import traceback
                        return {"ok": False, "key": f"exception:{what}:{type(e).__name__}", "nontrivial": False,
                                "detail": f"{ctx} tol={tol} {conf}: {type(e).__name__}: {e}",
                                "traceback": traceback.format_exc()[-1500:]}
    far = "search_range" in allmults
    allmults.discard("search_range")
    nt = []
    if max(allmults | {1}) > 1:
        nt.append(("ws_boundary", lat, mp, cen, tuple(sorted(allmults))))
    if far:
        nt.append(("ws_search_range", lat, mp, cen))
    return {"ok": True, "nontrivial": nt or False,
            "obs": {"configs": nconf, "basis": nb, "multiplicities": sorted(allmults), "beyond_search_window": far}}


def pair_summary(lat, mp, tau):
    """(largest boundary multiplicity, any exact minimal image beyond the code's 3-supercell window) over all pairs"""
    from wbmc.oracles_ws import frac, exact_ws
    tf = [[frac(x) for x in t] for t in tau]
    mult, far = 1, False
    for a in range(len(tau)):
        for b in range(len(tau)):
            sh = tuple(tf[b][i] - tf[a][i] for i in range(3))
            for r in exact_ws(lat, mp, sh, search=3).values():
                mult = max(mult, len(r["min"]))
                far = far or r["nmax"] > 3
    return mult, far


# --------------------------------------------------------------------------------------------------
def run_wsdist(case, seed):
    from wbmc import zoo
    lat, mp, cen, rs, tol = case["lat"], tuple(case["mp"]), case["cen"], case["rs"], case["tol"]
    nw = NW
    tau = centres(cen, nw)
    s = zoo.make_system(nw, lat, rs, tau, seed=seed, matrices=("Ham", "AA", "GG"), tag="C01ws" + cen)
    kred = mesh_points(mp) / np.array(mp)[None, :]
    keys = ("Ham", "AA", "GG")
    before = {k: back_sum(kred, s.rvec.iRvec, s.get_R_mat(k)) for k in keys}
    iR_old = np.array(s.rvec.iRvec)
    alias = len({tuple(r) for r in (iR_old % np.array(mp)).tolist()}) < len(iR_old)
    ctx = f"{lat} mp={mp} cen={cen} rset={rs} tol={tol}"
    mult, far = pair_summary(lat, mp, tau)
    mech = "search_range" if far else ("boundary" if mult > 1 else "interior")
    s.do_ws_dist(mp_grid=mp, ws_dist_tol=tol)
    for k in keys:
        X = s.get_R_mat(k)
        after = back_sum(kred, s.rvec.iRvec, X)
        err = float(np.abs(after - before[k]).max())
        if err > 1e-9 * max(1.0, float(np.abs(before[k]).max())):
            return {"ok": False, "key": f"do_ws_dist:mesh_values:{k}", "nontrivial": False,
                    "detail": f"{ctx}: max|X(q)_after - X(q)_before| = {err:.3e}"}
        herr = max(herm_defect(minusR_partner(s.rvec.iRvec), X), float(np.abs(s.rvec.conj_XX_R(X) - X).max()))
        if herr > 1e-9 * max(1.0, float(np.abs(X).max())):
            return {"ok": False, "key": f"do_ws_dist:hermiticity:{mech}", "nontrivial": False,
                    "detail": f"{ctx} matrix {k}: max|X(-R)^+ - X(R)| = {herr:.3e}"}
    if not np.allclose(s.rvec.shifts_left_red, tau) or not np.allclose(s.rvec.shifts_right_red, tau):
        return {"ok": False, "key": "do_ws_dist:shifts_lost", "nontrivial": False, "detail": ctx}
    nt = []
    if alias:
        nt.append(("alias", mp, rs))
    if mult > 1:
        nt.append(("ws_boundary", lat, mp, cen))
    if far:
        nt.append(("ws_search_range", lat, mp, cen))
    return {"ok": True, "nontrivial": nt or False, "obs": {"nR_old": len(iR_old), "nR_new": int(s.rvec.nRvec), "mult": mult}}


# --------------------------------------------------------------------------------------------------
def run_w90(case, seed):
    from wbmc import zoo
    from wbmc.oracles_ws import frac
    from wannierberri.w90files.chk import CheckPoint
    from wannierberri.w90files.eig import EIG
    from wannierberri.w90files.wandata import WannierData
    from wannierberri.system.system_w90 import get_system_w90
    lat, mp, cen, tol, fftlib = case["lat"], tuple(case["mp"]), case["cen"], case["tol"], case["fftlib"]
    nw = NW
    L = zoo.lattice(lat)
    tau = centres(cen, nw)
    N = int(np.prod(mp))
    rng = zoo.rng_for(seed, "C01w90", lat, mp, cen)
    H0 = generic_herm(rng, 1, nw, ())[0]
    datas = [("generic", generic_herm(rng, N, nw, ()))]
    for q in range(N):   # position impulses carrying a generic Hermitian matrix
        X = np.zeros((N, nw, nw), dtype=complex)
        X[q] = H0
        datas.append((f"impulse{q}", X))
    ords = orderings(N)
    if N > 4:
        ords = [ords[0], ords[1], ords[2], ords[N]]    # identity, reversal, one transposition, one cyclic shift
    ctx = f"{lat} mp={mp} cen={cen} tol={tol} fftlib={fftlib}"
    tf = [[frac(x) for x in t] for t in tau]
    ws_cache = {}
    mult, far = pair_summary(lat, mp, tau)
    mech = "search_range" if far else ("boundary" if mult > 1 else "interior")
    for io, order in enumerate(ords):
        for mode in (MODES[0], MODES[2], MODES[3]):
            _, karr, kred = kpoints_for(mp, order, mode)
            for name, Hq in (datas if (io == 0 and mode == MODES[0]) else datas[:1]):
                Hq = Hq[order]
                E, V = [], []
                for h in Hq:
                    e, u = np.linalg.eigh(h)
                    E.append(e)
                    V.append(u.conj().T)
                chk = CheckPoint(real_lattice=L, num_wann=nw, num_bands=nw, wannier_centers_cart=tau @ L,
                                 v_matrix=np.array(V), kpt_red=karr, mp_grid=np.array(mp))
                wd = WannierData()
                wd.set_chk(val=chk)
                wd.set_file("eig", EIG(data=np.array(E)))
                s = get_system_w90(wd, ws_dist_tol=tol, fftlib=fftlib, silent=True)
                X = s.get_R_mat("Ham")
                back = back_sum(kred, s.rvec.iRvec, X)
                err = float(np.abs(back - Hq).max())
                what = "baseline" if (io == 0 and mode == MODES[0]) else ("mesh_order" if mode == MODES[0] else "kpt_rep")
                if err > tol_of(Hq):
                    return {"ok": False, "key": f"get_system_w90:roundtrip:{what}", "nontrivial": False,
                            "detail": f"{ctx} data={name} order={order} mode={mode}: max|H_back(q)-H(q)|={err:.3e}"}
                herr = max(herm_defect(minusR_partner(s.rvec.iRvec), X), float(np.abs(s.rvec.conj_XX_R(X) - X).max()))
                if herr > tol_of(Hq):
                    return {"ok": False, "key": f"get_system_w90:hermiticity:{what}:{mech}", "nontrivial": False,
                            "detail": f"{ctx} data={name} order={order} mode={mode}: {herr:.3e}"}
                if tuple(s.NKFFT_recommended) != mp:
                    return {"ok": False, "key": "get_system_w90:NKFFT_recommended", "nontrivial": False,
                            "detail": f"{ctx}: {s.NKFFT_recommended}"}
                if what == "baseline" and name == "generic":
                    # the MDRS set must have been built for *these* centres (reduced) and this mesh
                    if (not np.allclose(s.rvec.shifts_left_red, tau, atol=1e-12) or
                            not np.allclose(s.wannier_centers_cart, tau @ L, atol=1e-12)):
                        return {"ok": False, "key": "get_system_w90:centres", "nontrivial": False,
                                "detail": f"{ctx}: rvec shifts {s.rvec.shifts_left_red.tolist()} != centres {tau.tolist()}"}
                    fail, _ = check_weights(s.rvec, lat, mp, tf, tol, ws_cache)
                    if fail is not None:
                        fail["key"] = "get_system_w90:" + fail["key"]
                        fail["nontrivial"] = False
                        return fail
    nt = []
    if mult > 1:
        nt.append(("w90_boundary", lat, mp, cen))
    if far:
        nt.append(("w90_search_range", lat, mp, cen))
    return {"ok": True, "nontrivial": nt or False, "obs": {"mult": mult}}


def run_case(case, seed):
    if case["kind"] == "rvec":
        return run_rvec(case, seed)
    if case["kind"] == "wsdist":
        return run_wsdist(case, seed)
    return run_w90(case, seed)


def finish(tier, cases, results):
    kinds = {}
    for c in cases:
        kinds[c["kind"]] = kinds.get(c["kind"], 0) + 1
    nconf = sum(int((r.get("obs") or {}).get("configs", 0)) for r in results)
    return {"axes": {"lattices": len({c["lat"] for c in cases}), "meshes": len({tuple(c["mp"]) for c in cases}),
                     "centre_patterns": len({c["cen"] for c in cases}), "ws_tolerances": len(TOLS),
                     "fftlib": len(FFTLIBS), "k_representations": len(MODES)},
            "cases_by_kind": kinds, "rvec_q_to_R_configurations": nconf}
