"""C19 — Wannier90 files written by the code can be read back.

Complete product of (k-mesh, lattice, NB, NW, data pattern): every EIG / AMN / MMN object is written
with `to_w90_file` and read with the matching `from_w90_file` (npar in {1,2}); every file object
(EIG, AMN, MMN, UIU, UHU, SIU, SHU, SPN, BKVectors, CheckPoint) — also holding only a subset of the
k-points — is saved with `to_npz` and loaded with `from_npz`; a WannierData container is saved /
loaded / written as a whole.  The readers are additionally fed files produced by an independent
writer of the harness, so that a reader fault cannot hide behind a writer fault (and vice versa).
"""
import contextlib
import inspect
import itertools
import os
import traceback

import numpy as np

ID = "C19"
LEVEL = "exploration"
RULE = ("cases = (kind, class, mesh, lattice, NB, NW, data pattern[, k-subset]), one file class per text/ref case; text cases "
        "run writer->reader for EIG, AMN, MMN (npar 1 and 2) and compare with the library's equals(tolerance=1e-11) and an "
        "element-wise bound of the printed precision (0.5e-12); the 'impulse' pattern loops over every single-element impulse of "
        "the arrays inside one case (MMN: first and last k-point); ref cases feed the three readers a file written by the harness "
        "(MMN: neighbours listed in bkvec order, reversed, rotated); text_reordered cases write back an MMN whose bk_reorder is not "
        "the identity; npz cases save/load 13 objects of 10 file classes holding all / the first / the odd k-points and compare "
        "bitwise (equals(tolerance=0) both ways and array_equal on every stored attribute); container cases do "
        "WannierData.to_npz/from_npz (all files, and files=[eig,mmn]) and WannierData.write(files=[eig,amn,mmn]) + the readers. "
        "non-trivial = the object holds more than one number (so an index permutation is observable), counted per distinct "
        "(kind, class, NK, NNB, NB, NW, pattern, subset / file order)")
ASSUMPTIONS = [
    "k-meshes 1x1x1, 2x1x1, 2x2x1 (quick) + 2x2x2, 3x1x1, 1x1x2 (thorough); lattices orth, hex (quick) + fcc, tric",
    "NB in {1,3} (+2,4 thorough), NW in {1,2} (+3 thorough); b-vector tables come from the real BKVectors.from_kpoints",
    "text formats hold all NK k-points: subsets of k-points (irreducible wedge) are exercised for npz only",
    "|values| < 1e4 so that '%17.12f' keeps 12 decimals; equality of text round trips means |diff| <= 0.5e-12 (+1 ulp)",
    "MMN.to_w90_file may take the neighbour table as an argument (`bkvec`); the check passes it when the signature has it",
    "UNK, SOC, WIN and the SAWF symmetrizer objects are outside the space (no synthetic constructor without DFT data)",
    "AMN/MMN readers fork a multiprocessing.Pool per call: the real pool is used once per 'generic' case (npar=2); all other "
    "reads replace it by an in-process map (cost), with npar in {1,2} still steering the readers' chunking logic",
]

MESH_Q = ((1, 1, 1), (2, 1, 1), (2, 2, 1))
MESH_T = MESH_Q + ((2, 2, 2), (3, 1, 1), (1, 1, 2))
LATS_Q = ("orth", "hex")
LATS_T = ("orth", "hex", "fcc", "tric")
PATTERNS = ("impulse", "generic", "digits")
SUBSETS = ("all", "first", "odd")        # which k-points an object holds (npz only)
REORDERS = ("identity", "reversed", "rotated")


def kpoints(mp):
    return np.array([[i / mp[0], j / mp[1], k / mp[2]] for i in range(mp[0]) for j in range(mp[1]) for k in range(mp[2])])


def make_bkvec(lat, mp, kptirr=None):
    from wbmc import zoo
    from wannierberri.w90files.bkvectors import BKVectors
    from wannierberri.utility import real_recip_lattice
    real, recip = real_recip_lattice(real_lattice=zoo.lattice(lat))
    return BKVectors.from_kpoints(recip_lattice=recip, mp_grid=mp, kpoints_red=kpoints(mp), kptirr=kptirr), real


def subset_keys(name, NK):
    if name == "all":
        return list(range(NK))
    if name == "first":
        return [0]
    return [i for i in range(NK) if i % 2 == 1] or [0]


DIGITS = (0.123456789012, -0.999999999999, 1e-12, -3e-12, 1234.567890123456, -0.000000000001, 0.5, 0.499999999999,
          2.0 / 3.0, -1.0 / 7.0, 9999.999999999999, 1e-13,
          -1507.123456789012, -9999.5)      # negative values that fill a fixed-width field completely


def generic_array(shape, pattern, seed, tag, complex_=True):
    from wbmc import zoo
    n = int(np.prod(shape))
    if pattern == "digits":
        re = np.array([DIGITS[i % len(DIGITS)] for i in range(n)])
        im = np.array([DIGITS[(5 * i + 3) % len(DIGITS)] for i in range(n)])
    else:
        rng = zoo.rng_for(seed, "c19", tag, tuple(shape))
        re, im = rng.normal(size=n), rng.normal(size=n)
    x = re + 1j * im if complex_ else re
    return x.reshape(shape)


def cases(tier, seed):
    quick = tier == "quick"
    meshes = MESH_Q if quick else MESH_T
    lats = LATS_Q if quick else LATS_T
    NBs = (1, 3) if quick else (1, 2, 3, 4)
    NWs = (1, 2) if quick else (1, 2, 3)
    # one class per case, so that every writer / reader reports under its own key
    for kind, pats in (("ref", ("generic", "digits")), ("text", PATTERNS)):
        for mp in meshes:          # EIG: the lattice and NW do not enter
            for NB in NBs:
                for pat in pats:
                    yield {"kind": kind, "cls": "EIG", "mesh": list(mp), "NB": NB, "pattern": pat}
        for mp in meshes:          # AMN: the lattice does not enter
            for NB in NBs:
                for NW in NWs:
                    for pat in pats:
                        yield {"kind": kind, "cls": "AMN", "mesh": list(mp), "NB": NB, "NW": NW, "pattern": pat}
        for mp in meshes:          # MMN: the neighbour table depends on the lattice
            for lat in lats:
                for NB in NBs:
                    for pat in pats:
                        yield {"kind": kind, "cls": "MMN", "mesh": list(mp), "lat": lat, "NB": NB, "pattern": pat}
    # MMN read from a file in another neighbour order (bk_reorder != identity), written back
    for mp in meshes:
        for lat in lats:
            for ro in REORDERS[1:]:
                yield {"kind": "text_reordered", "mesh": list(mp), "lat": lat, "NB": 2, "reorder": ro}
    # npz, every class, every k-subset
    for mp in meshes:
        for lat in lats:
            for NB in NBs:
                for NW in NWs:
                    for sub in SUBSETS:
                        for pat in ("generic", "digits"):
                            yield {"kind": "npz", "mesh": list(mp), "lat": lat, "NB": NB, "NW": NW, "subset": sub, "pattern": pat}
    # container
    for mp in meshes:
        for lat in lats:
            for NB in NBs:
                for NW in NWs:
                    for sub in ("all", "odd"):
                        yield {"kind": "container", "mesh": list(mp), "lat": lat, "NB": NB, "NW": NW, "subset": sub}


# ------------------------------------------------------------------ helpers

def innermost(exc):
    tb = traceback.extract_tb(exc.__traceback__)
    for fr in reversed(tb):
        if "wannierberri" in fr.filename:
            return fr.name
    return tb[-1].name if tb else "?"


def writer_key(exc):
    """an exception escaping WannierData.write is attributed to the file class whose writer raised it"""
    for fr in reversed(traceback.extract_tb(exc.__traceback__)):
        base = os.path.basename(fr.filename)
        if "w90files" in fr.filename and base in ("eig.py", "amn.py", "mmn.py"):
            return base[:3].upper() + ".to_w90_file"
    return "WannierData.write"


def fail(key, detail, nt=True):
    return {"ok": False, "key": key, "detail": detail, "nontrivial": nt}


def allow_children():
    """the readers start a multiprocessing.Pool; the engine's workers are daemonic, which forbids it"""
    import multiprocessing
    try:
        multiprocessing.current_process()._config["daemon"] = False
    except Exception:
        pass


def read_amn(sn, npar, real):
    """real=True: the reader's own multiprocessing.Pool(npar); otherwise an in-process map (npar still steers the
    reader's chunking logic)"""
    from wannierberri.w90files.amn import AMN
    from wbmc.roundtrip_util import serial_pools
    with (contextlib.nullcontext() if real else serial_pools()):
        return AMN.from_w90_file(sn, npar=npar)


def read_mmn(sn, bk, npar, real):
    from wannierberri.w90files.mmn import MMN
    from wbmc.roundtrip_util import serial_pools
    with (contextlib.nullcontext() if real else serial_pools()):
        return MMN.from_w90_file(sn, bkvec=bk, npar=npar)


def text_close(a, b):
    """'%17.12f' : absolute rounding error <= 0.5e-12 per real component"""
    a, b = np.asarray(a), np.asarray(b)
    if a.shape != b.shape:
        return f"shape {a.shape} vs {b.shape}"
    d = max(np.abs(a.real - b.real).max(), np.abs(np.imag(a) - np.imag(b)).max()) if a.size else 0.0
    if d > 0.5e-12 + 4e-16 * max(1.0, np.abs(b).max()):
        i = np.unravel_index(np.argmax(np.abs(a - b)), b.shape)
        return f"max |diff| {d:.3e} at {tuple(int(x) for x in i)}: read {a[i]} written {b[i]}"
    return None


def data_dict_diff(d_read, d_orig, cmp):
    if set(d_read.keys()) != set(d_orig.keys()):
        return f"k-point keys {sorted(d_read.keys())} vs {sorted(d_orig.keys())}"
    for ik in sorted(d_orig):
        msg = cmp(d_read[ik], d_orig[ik])
        if msg:
            return f"ik={ik}: {msg}"
    return None


def exact(a, b):
    a, b = np.asarray(a), np.asarray(b)
    if a.shape != b.shape:
        return f"shape {a.shape} vs {b.shape}"
    if a.dtype.kind != b.dtype.kind and not (a.dtype.kind in "iu" and b.dtype.kind in "iu"):
        return f"dtype {a.dtype} vs {b.dtype}"
    if not np.array_equal(a, b):
        return f"values differ (max |diff| {np.abs(a.astype(complex) - b.astype(complex)).max():.3e})" if a.dtype.kind in "fciub" else "values differ"
    return None


def write_mmn(mmn, seedname, bkvec):
    if "bkvec" in inspect.signature(mmn.to_w90_file).parameters:
        mmn.to_w90_file(seedname, bkvec=bkvec)
    else:
        mmn.to_w90_file(seedname)


def impulses(shape, cap=None):
    idx = list(itertools.product(*[range(n) for n in shape]))
    return idx


# ------------------------------------------------------------------ independent writers (Wannier90 layouts)

# The reference files are whitespace separated: values that fill a Fortran field completely (touching fields, as a
# pure (2F18.12) writer would produce for -9999.5) are outside the statement, which is about the library's own writer.
def ref_write_eig(seedname, E):
    with open(seedname + ".eig", "w") as f:
        for ik in range(E.shape[0]):
            for ib in range(E.shape[1]):
                f.write(f"{ib + 1:5d}{ik + 1:5d} {E[ik, ib]:18.12f}\n")


def ref_write_amn(seedname, A):
    NK, NB, NW = A.shape
    with open(seedname + ".amn", "w") as f:
        f.write("reference writer of the verification harness\n")
        f.write(f"{NB:12d}{NK:12d}{NW:12d}\n")
        for ik in range(NK):
            for iw in range(NW):
                for ib in range(NB):
                    f.write(f"{ib + 1:5d}{iw + 1:5d}{ik + 1:5d} {A[ik, ib, iw].real:18.12f} {A[ik, ib, iw].imag:18.12f}\n")


def ref_write_mmn(seedname, M, bkvec, order=None):
    """M[ik, ib, m, n] = <u_mk|u_n,k+b>; Wannier90 layout: for each (k, b) a header 'k k2 G' and NB*NB lines,
    m fastest.  `order` = positions in which the b-vectors of bkvec are listed in the file."""
    NK, NNB, NB, _ = M.shape
    order = list(range(NNB)) if order is None else list(order)
    with open(seedname + ".mmn", "w") as f:
        f.write("reference writer of the verification harness\n")
        f.write(f"{NB:12d}{NK:12d}{NNB:12d}\n")
        for ik in range(NK):
            for ib in order:
                g = bkvec.G[ik][ib]
                f.write(f"{ik + 1:5d}{int(bkvec.neighbours[ik][ib]) + 1:5d}{int(g[0]):5d}{int(g[1]):5d}{int(g[2]):5d}\n")
                for n in range(NB):
                    for m in range(NB):
                        f.write(f"{M[ik, ib, m, n].real:18.12f} {M[ik, ib, m, n].imag:18.12f}\n")


# ------------------------------------------------------------------ runners

def run_ref(case, seed):
    from wannierberri.w90files.eig import EIG
    from wannierberri.w90files.amn import AMN
    from wannierberri.w90files.mmn import MMN
    from wbmc.roundtrip_util import scratch
    mp = tuple(case["mesh"])
    cls = case["cls"]
    NK, NB, NW, pat = int(np.prod(mp)), case["NB"], case.get("NW"), case["pattern"]
    nts = []
    with scratch() as d:
        sn = os.path.join(d, "ref")
        if cls == "EIG":
            E = generic_array((NK, NB), pat, seed, "E", complex_=False)
            ref_write_eig(sn, E)
            try:
                e = EIG.from_w90_file(sn)
            except Exception as ex:
                return fail(f"EIG.from_w90_file:{type(ex).__name__}:{'single_line' if NK * NB == 1 else 'general'}",
                            f"file with NK={NK}, NB={NB} written by the harness: {type(ex).__name__}: {ex}", NK * NB > 1)
            if e.NK != NK or e.NB != NB:
                return fail("EIG.from_w90_file:mismatch:dimensions", f"NK,NB read {e.NK},{e.NB} written {NK},{NB}")
            msg = data_dict_diff(e.data, dict(enumerate(E)), text_close)
            if msg:
                return fail("EIG.from_w90_file:mismatch:data", f"NK={NK} NB={NB} {pat}: {msg}")
            if NK * NB > 1:
                nts.append(("ref", "EIG", NK, NB, pat))
        elif cls == "AMN":
            A = generic_array((NK, NB, NW), pat, seed, "A")
            ref_write_amn(sn, A)
            for npar in (1, 2):
                try:
                    a = read_amn(sn, npar, real=(pat == "generic" and npar == 2))
                except Exception as ex:
                    return fail(f"AMN.from_w90_file:{type(ex).__name__}", f"NK={NK} NB={NB} NW={NW} npar={npar}: {type(ex).__name__}: {ex}")
                if (a.NK, a.NB, a.NW) != (NK, NB, NW):
                    return fail("AMN.from_w90_file:mismatch:dimensions", f"read {(a.NK, a.NB, a.NW)} written {(NK, NB, NW)}")
                msg = data_dict_diff(a.data, dict(enumerate(A)), text_close)
                if msg:
                    return fail("AMN.from_w90_file:mismatch:data", f"NK={NK} NB={NB} NW={NW} npar={npar} {pat}: {msg}")
            if NK * NB * NW > 1:
                nts.append(("ref", "AMN", NK, NB, NW, pat))
        else:
            # MMN, in the order of bkvec and in two other neighbour orders
            bk, _ = make_bkvec(case["lat"], mp)
            M = generic_array((NK, bk.NNB, NB, NB), pat, seed, "M")
            for ro in REORDERS:
                order = {"identity": list(range(bk.NNB)), "reversed": list(range(bk.NNB))[::-1],
                         "rotated": list(range(1, bk.NNB)) + [0]}[ro]
                ref_write_mmn(sn, M, bk, order)
                for npar in (1, 2):
                    try:
                        m = read_mmn(sn, bk, npar, real=(pat == "generic" and npar == 2 and ro == "identity"))
                    except Exception as ex:
                        return fail(f"MMN.from_w90_file:{type(ex).__name__}",
                                    f"NK={NK} NNB={bk.NNB} NB={NB} order={ro} npar={npar}: {type(ex).__name__}: {ex}")
                    if (m.NK, m.NNB, m.NB) != (NK, bk.NNB, NB):
                        return fail("MMN.from_w90_file:mismatch:dimensions", f"read {(m.NK, m.NNB, m.NB)} written {(NK, bk.NNB, NB)}")
                    msg = data_dict_diff(m.data, dict(enumerate(M)), text_close)
                    if msg:
                        return fail("MMN.from_w90_file:mismatch:data", f"NK={NK} NNB={bk.NNB} NB={NB} order={ro} npar={npar} {pat}: {msg}")
                    # bk_reorder[i] = position in the file of the i-th b-vector of bkvec
                    want = [order.index(i) for i in range(bk.NNB)]
                    for ik in range(NK):
                        if [int(x) for x in m.bk_reorder[ik]] != want:
                            return fail("MMN.from_w90_file:mismatch:bk_reorder", f"order={ro} ik={ik}: {list(m.bk_reorder[ik])} expected {want}")
                nts.append(("ref", "MMN", NK, bk.NNB, NB, pat, ro))
    return {"ok": True, "nontrivial": nts}


def roundtrip_eig(obj, sn, NK, NB, tag):
    from wannierberri.w90files.eig import EIG
    try:
        obj.to_w90_file(sn)
    except Exception as ex:
        return fail("EIG.to_w90_file", f"{tag}: {type(ex).__name__}: {ex} (in {innermost(ex)})", NK * NB > 1)
    try:
        back = EIG.from_w90_file(sn)
    except Exception as ex:
        return fail(f"EIG.from_w90_file:{type(ex).__name__}:{'single_line' if NK * NB == 1 else 'general'}",
                    f"{tag} file written by EIG.to_w90_file: {type(ex).__name__}: {ex}", NK * NB > 1)
    ok, msg = obj.equals(back, tolerance=1e-11)
    if not ok:
        return fail("EIG.roundtrip:not_equal", f"{tag}: {msg}")
    msg = data_dict_diff(back.data, obj.data, text_close)
    if msg:
        return fail("EIG.roundtrip:precision", f"{tag}: {msg}")
    return None


def roundtrip_amn(obj, sn, tag, npars=(1, 2), real_npar=()):
    from wannierberri.w90files.amn import AMN
    try:
        obj.to_w90_file(sn)
    except Exception as ex:
        return fail("AMN.to_w90_file", f"{tag}: {type(ex).__name__}: {ex} (in {innermost(ex)})")
    for npar in npars:
        try:
            back = read_amn(sn, npar, real=npar in real_npar)
        except Exception as ex:
            return fail(f"AMN.from_w90_file:{type(ex).__name__}", f"{tag} npar={npar} file written by AMN.to_w90_file: {type(ex).__name__}: {ex}")
        ok, msg = obj.equals(back, tolerance=1e-11)
        if not ok:
            return fail("AMN.roundtrip:not_equal", f"{tag} npar={npar}: {msg}")
        msg = data_dict_diff(back.data, obj.data, text_close)
        if msg:
            return fail("AMN.roundtrip:precision", f"{tag} npar={npar}: {msg}")
    return None


def roundtrip_mmn(obj, sn, bk, tag, npars=(1, 2), real_npar=()):
    from wannierberri.w90files.mmn import MMN
    try:
        write_mmn(obj, sn, bk)
    except Exception as ex:
        return fail("MMN.to_w90_file", f"{tag}: {type(ex).__name__}: {ex} (in {innermost(ex)})")
    for npar in npars:
        try:
            back = read_mmn(sn, bk, npar, real=npar in real_npar)
        except Exception as ex:
            return fail(f"MMN.from_w90_file:{type(ex).__name__}", f"{tag} npar={npar} file written by MMN.to_w90_file: {type(ex).__name__}: {ex}")
        ok, msg = obj.equals(back, tolerance=1e-11, check_reorder=False)
        if not ok:
            return fail("MMN.roundtrip:not_equal", f"{tag} npar={npar}: {msg}")
        msg = data_dict_diff(back.data, obj.data, text_close)
        if msg:
            return fail("MMN.roundtrip:precision", f"{tag} npar={npar}: {msg}")
        ok, msg = obj.equals(back, tolerance=1e-11)
        if not ok:
            return fail("MMN.roundtrip:bk_reorder_not_recovered", f"{tag} npar={npar}: {msg}")
    return None


def run_text(case, seed):
    from wannierberri.w90files.eig import EIG
    from wannierberri.w90files.amn import AMN
    from wannierberri.w90files.mmn import MMN
    from wbmc.roundtrip_util import scratch
    mp = tuple(case["mesh"])
    cls = case["cls"]
    NK, NB, NW, pat = int(np.prod(mp)), case["NB"], case.get("NW"), case["pattern"]
    r = None
    # the readers fork a process pool per call; the real pool is used once per 'generic' case (npar=2), an
    # in-process map elsewhere (npar still steers the readers' chunking)
    real_npar = (2,) if pat == "generic" else ()
    with scratch() as d:
        sn = os.path.join(d, "w")
        if cls == "EIG":
            tag = f"NK={NK} NB={NB} {pat}"
            nt = ("text", "EIG", NK, NB, pat) if NK * NB > 1 else False
            if pat == "impulse":       # every single-element impulse
                for idx in impulses((NK, NB)):
                    X = np.zeros((NK, NB))
                    X[idx] = 1.0
                    r = roundtrip_eig(EIG(data=X), sn, NK, NB, f"{tag} impulse{idx}")
                    if r:
                        break
            else:
                r = roundtrip_eig(EIG(data=generic_array((NK, NB), pat, seed, "E", complex_=False)), sn, NK, NB, tag)
        elif cls == "AMN":
            tag = f"NK={NK} NB={NB} NW={NW} {pat}"
            nt = ("text", "AMN", NK, NB, NW, pat) if NK * NB * NW > 1 else False
            if pat == "impulse":       # every single-element impulse, real and imaginary
                for idx in impulses((NK, NB, NW)):
                    for val in (1.0, 1j):
                        X = np.zeros((NK, NB, NW), dtype=complex)
                        X[idx] = val
                        r = roundtrip_amn(AMN(data=X), sn, f"{tag} impulse{idx}={val}", npars=(1,))
                        if r:
                            break
                    if r:
                        break
            else:
                r = roundtrip_amn(AMN(data=generic_array((NK, NB, NW), pat, seed, "A")), sn, tag, real_npar=real_npar)
        else:
            bk, _ = make_bkvec(case["lat"], mp)
            NNB = bk.NNB
            tag = f"NK={NK} NNB={NNB} NB={NB} {pat}"
            nt = ("text", "MMN", NK, NNB, NB, pat)
            if pat == "impulse":
                # impulses on the first and last k-point (every b, m, n); the k index is covered by the generic pattern
                for idx in impulses((NK, NNB, NB, NB)):
                    if idx[0] not in (0, NK - 1):
                        continue
                    X = np.zeros((NK, NNB, NB, NB), dtype=complex)
                    X[idx] = 1.0 + 0.5j
                    r = roundtrip_mmn(MMN(data=X), sn, bk, f"{tag} impulse{idx}", npars=(1,))
                    if r:
                        break
            else:
                r = roundtrip_mmn(MMN(data=generic_array((NK, NNB, NB, NB), pat, seed, "M")), sn, bk, tag, real_npar=real_npar)
    if r:
        if r.get("nontrivial") is True:
            r["nontrivial"] = nt
        return r
    return {"ok": True, "nontrivial": nt}


def run_text_reordered(case, seed):
    """an MMN object whose bk_reorder is not the identity (it was read from a file that lists the neighbours in
    another order) is written and read again"""
    from wannierberri.w90files.mmn import MMN
    from wbmc.roundtrip_util import scratch
    mp = tuple(case["mesh"])
    NK, NB = int(np.prod(mp)), case["NB"]
    bk, _ = make_bkvec(case["lat"], mp)
    NNB = bk.NNB
    order = {"reversed": list(range(NNB))[::-1], "rotated": list(range(1, NNB)) + [0]}[case["reorder"]]
    M = generic_array((NK, NNB, NB, NB), "generic", seed, "Mro")
    with scratch() as d:
        sn = os.path.join(d, "w")
        ref_write_mmn(sn, M, bk, order)
        try:
            obj = read_mmn(sn, bk, 1, real=False)
        except Exception as ex:
            return fail(f"MMN.from_w90_file:{type(ex).__name__}", f"reordered reference file: {type(ex).__name__}: {ex}")
        r = roundtrip_mmn(obj, os.path.join(d, "w2"), bk, f"NK={NK} NNB={NNB} NB={NB} bk_reorder={case['reorder']}", npars=(1,))
    if r:
        return r
    return {"ok": True, "nontrivial": ("text_reordered", NK, NNB, case["reorder"])}


def make_objects(case, seed, bk, real):
    """every file class that can be built from arrays, holding the k-points of the subset"""
    from wannierberri.w90files.eig import EIG
    from wannierberri.w90files.amn import AMN
    from wannierberri.w90files.mmn import MMN
    from wannierberri.w90files.xxu import UIU, UHU, SIU, SHU
    from wannierberri.w90files.spn import SPN
    from wannierberri.w90files.chk import CheckPoint
    mp = tuple(case["mesh"])
    NK, NB, NW, pat = int(np.prod(mp)), case["NB"], case["NW"], case.get("pattern", "generic")
    keys = subset_keys(case["subset"], NK)
    NNB = bk.NNB

    def dd(shape, tag, complex_=True):
        X = generic_array((NK,) + shape, pat, seed, tag, complex_)
        return {ik: X[ik].copy() for ik in keys}
    objs = {}
    objs["eig"] = EIG(data=dd((NB,), "E", False), NK=NK)
    objs["amn"] = AMN(data=dd((NB, NW), "A"), NK=NK)
    objs["amn_tags"] = AMN(data=dd((NB, NW), "A2"), NK=NK, positions=np.arange(3.0 * NW).reshape(NW, 3) / 7,
                           orbitals=np.array(["s", "pz", "dxy"][:NW] + ["s"] * max(0, NW - 3)),
                           radial_nodes_list=np.arange(NW), basis_list=np.array([np.eye(3)] * NW),
                           spread_list=np.array([1.0 + 0.5 * i for i in range(NW)]), spinor=False)
    objs["mmn"] = MMN(data=dd((NNB, NB, NB), "M"), NK=NK)
    ro = {ik: np.roll(np.arange(NNB), ik + 1) for ik in keys}
    objs["mmn_reordered"] = MMN(data=dd((NNB, NB, NB), "M2"), NK=NK, bk_reorder=ro)
    objs["uhu"] = UHU(data=dd((NNB, NNB, NB, NB), "uhu"), NK=NK)
    objs["uiu"] = UIU(data=dd((NNB, NNB, NB, NB), "uiu"), NK=NK)
    objs["shu"] = SHU(data=dd((NNB, NB, NB, 3), "shu"), NK=NK)
    objs["siu"] = SIU(data=dd((NNB, NB, NB, 3), "siu"), NK=NK)
    objs["spn"] = SPN(data=dd((NB, NB, 3), "spn"), NK=NK)
    V = generic_array((NK, NB, NW), pat, seed, "V")
    objs["chk"] = CheckPoint(real_lattice=real, num_wann=NW, num_bands=NB, kpt_red=kpoints(mp), mp_grid=mp,
                             v_matrix={ik: V[ik] for ik in keys},
                             wannier_centers_cart=generic_array((NW, 3), pat, seed, "wcc", False),
                             wannier_spreads=np.abs(generic_array((NW,), pat, seed, "spr", False)))
    objs["chk_bare"] = CheckPoint(real_lattice=real, num_wann=NW, num_bands=NB, kpt_red=kpoints(mp), mp_grid=mp)
    return objs, keys


W90_ATTRS = {"eig": ("NK", "NB"), "amn": ("NK", "NB", "NW"), "amn_tags": ("NK", "NB", "NW"), "mmn": ("NK", "NB", "NNB"),
             "mmn_reordered": ("NK", "NB", "NNB"), "uhu": ("NK", "NB", "NNB"), "uiu": ("NK", "NB", "NNB"),
             "shu": ("NK", "NB", "NNB"), "siu": ("NK", "NB", "NNB"), "spn": ("NK", "NB")}
AMN_TAGS = ("positions", "orbitals", "radial_nodes_list", "basis_list", "spread_list", "spinor")
CHK_ATTRS = ("mp_grid", "real_lattice", "num_wann", "num_bands", "num_kpts", "kpt_red", "wannier_centers_cart", "wannier_spreads")
BK_ATTRS = ("bk_grid", "wk", "kpt_grid", "kptirr", "mp_grid", "recip_lattice", "NK", "NNB", "bk_cart", "bk_red")


def compare_obj(name, orig, back):
    """None or (what, message): bitwise comparison of everything the class stores"""
    cls = name.split("_")[0]
    if type(back) is not type(orig):
        return "type", f"{type(back).__name__} vs {type(orig).__name__}"
    if cls == "chk":
        for a in CHK_ATTRS:
            x, y = getattr(orig, a, None), getattr(back, a, None)
            if (x is None) != (y is None):
                return a, f"{y} vs {x}"
            if x is not None:
                msg = exact(y, x)
                if msg:
                    return a, msg
        if orig.wannierised != back.wannierised:
            return "wannierised", f"{back.wannierised} vs {orig.wannierised}"
        if orig.wannierised:
            msg = data_dict_diff(back.v_matrix, orig.v_matrix, exact)
            if msg:
                return "v_matrix", msg
        return None
    if cls == "bkvec":
        for a in BK_ATTRS:
            msg = exact(getattr(back, a), getattr(orig, a))
            if msg:
                return a, msg
        for a in ("G", "neighbours"):
            msg = data_dict_diff(getattr(back, a), getattr(orig, a), exact)
            if msg:
                return a, msg
        return None
    for a in W90_ATTRS[name]:
        if getattr(back, a) != getattr(orig, a):
            return a, f"{getattr(back, a)} vs {getattr(orig, a)}"
    msg = data_dict_diff(back.data, orig.data, exact)
    if msg:
        return "data", msg
    ok, msg = orig.equals(back, tolerance=0)
    if not ok:
        return "equals", msg
    ok, msg = back.equals(orig, tolerance=0)
    if not ok:
        return "equals_reversed", msg
    if cls == "mmn":
        msg = data_dict_diff(back.bk_reorder, orig.bk_reorder, exact)
        if msg:
            return "bk_reorder", msg
    if cls == "amn":
        for a in AMN_TAGS:
            x, y = getattr(orig, a), getattr(back, a)
            if (x is None) != (y is None):
                return a, f"{y!r} vs {x!r}"
            if x is not None:
                if np.asarray(x).dtype.kind in "US":
                    if np.asarray(x).shape != np.asarray(y).shape or not np.all(np.asarray(x) == np.asarray(y)):
                        return a, f"{y!r} vs {x!r}"
                else:
                    msg = exact(y, x)
                    if msg:
                        return a, msg
    return None


def run_npz(case, seed):
    from wbmc.roundtrip_util import scratch
    mp = tuple(case["mesh"])
    NK = int(np.prod(mp))
    keys = subset_keys(case["subset"], NK)
    bk, real = make_bkvec(case["lat"], mp, kptirr=None if case["subset"] == "all" else keys)
    objs, keys = make_objects(case, seed, bk, real)
    objs["bkvec"] = bk
    nts = []
    with scratch() as d:
        for name, obj in objs.items():
            path = os.path.join(d, f"x.{name}.npz")
            cname = type(obj).__name__
            try:
                obj.to_npz(path)
            except Exception as ex:
                return fail(f"{cname}.to_npz:{type(ex).__name__}", f"{name} {case}: {type(ex).__name__}: {ex} (in {innermost(ex)})")
            try:
                back = type(obj).from_npz(path)
            except Exception as ex:
                return fail(f"{cname}.from_npz:{type(ex).__name__}", f"{name} {case}: {type(ex).__name__}: {ex} (in {innermost(ex)})")
            bad = compare_obj(name, obj, back)
            if bad:
                return fail(f"{cname}.npz:mismatch:{bad[0]}", f"{name} {case}: {bad[1]}")
            nts.append(("npz", name, NK, bk.NNB, case["NB"], case["NW"], case["pattern"], case["subset"]))
            # the same object with its per-k-point dictionaries filled in another order (k-points read in a permuted order,
            # selected_kpoints given unsorted): a dictionary is keyed by k-point, not by insertion position
            import copy
            for oname, reorder in (("reversed", lambda ks: ks[::-1]), ("rotated", lambda ks: ks[1:] + ks[:1])):
                o2 = copy.deepcopy(obj)
                changed = False
                for att, val in list(vars(o2).items()):
                    if isinstance(val, dict) and len(val) > 1 and all(isinstance(k, (int, np.integer)) for k in val):
                        ks = reorder(list(val.keys()))
                        setattr(o2, att, {k: val[k] for k in ks})
                        changed = True
                if not changed:
                    break
                path2 = os.path.join(d, f"x.{name}.{oname}.npz")
                try:
                    o2.to_npz(path2)
                    back2 = type(obj).from_npz(path2)
                except Exception as ex:
                    return fail(f"{cname}.npz:insertion_order:{type(ex).__name__}", f"{name} {case} dictionaries filled in {oname} order: {ex}")
                bad = compare_obj(name, obj, back2)
                if bad:
                    return fail(f"{cname}.npz:insertion_order:{bad[0]}",
                                f"{name} {case}: saved from an object whose per-k dictionaries were filled in {oname} order: {bad[1]}")
    return {"ok": True, "nontrivial": nts}


def run_container(case, seed):
    from wannierberri.w90files.wandata import WannierData
    from wannierberri.w90files.eig import EIG
    from wannierberri.w90files.amn import AMN
    from wannierberri.w90files.mmn import MMN
    from wbmc.roundtrip_util import scratch
    mp = tuple(case["mesh"])
    NK = int(np.prod(mp))
    keys = subset_keys(case["subset"], NK)
    full = case["subset"] == "all"
    bk, real = make_bkvec(case["lat"], mp, kptirr=None if full else keys)
    c = dict(case)
    c["pattern"] = "generic"
    objs, keys = make_objects(c, seed, bk, real)
    names = ("eig", "amn", "mmn", "uhu", "uiu", "shu", "siu", "spn")
    wd = WannierData()
    try:
        wd.set_file("chk", objs["chk_bare"])
        wd.set_file("bkvec", bk)
        for n in names:
            wd.set_file(n, objs[n])
    except Exception as ex:
        return fail(f"WannierData.set_file:{type(ex).__name__}", f"{case}: {type(ex).__name__}: {ex}")
    tag = f"NK={NK} NNB={bk.NNB} NB={case['NB']} NW={case['NW']} subset={case['subset']}"
    with scratch() as d:
        sn = os.path.join(d, "sub", "w")
        try:
            wd.to_npz(sn)
        except Exception as ex:
            return fail(f"WannierData.to_npz:{type(ex).__name__}", f"{tag}: {type(ex).__name__}: {ex} (in {innermost(ex)})")
        try:
            wd2 = WannierData.from_npz(sn)
        except Exception as ex:
            return fail(f"WannierData.from_npz:{type(ex).__name__}", f"{tag}: {type(ex).__name__}: {ex} (in {innermost(ex)})")
        want = set(names) | {"chk", "bkvec"}
        if set(wd2._files.keys()) != want:
            return fail("WannierData.npz:mismatch:files", f"{tag}: loaded {sorted(wd2._files)} saved {sorted(want)}")
        for n in sorted(want):
            bad = compare_obj({"chk": "chk_bare"}.get(n, n), wd.get_file(n), wd2.get_file(n))
            if bad:
                return fail(f"WannierData.npz:mismatch:{n}:{bad[0]}", f"{tag}: {bad[1]}")
        if bool(wd2.irreducible) != (len(keys) < NK):
            return fail("WannierData.npz:mismatch:irreducible_flag", f"{tag}: irreducible={wd2.irreducible} with {len(keys)} of {NK} k-points stored")
        # a subset of the files
        try:
            wd3 = WannierData.from_npz(sn, files=["eig", "mmn"])
        except Exception as ex:
            return fail(f"WannierData.from_npz:{type(ex).__name__}", f"{tag} files=[eig,mmn]: {type(ex).__name__}: {ex}")
        if set(wd3._files.keys()) != {"eig", "mmn", "bkvec"}:
            return fail("WannierData.npz:mismatch:files", f"{tag}: files=[eig,mmn] loaded {sorted(wd3._files)}")
        # text files of the container (full k-set only: the formats hold every k-point)
        if full:
            sn2 = os.path.join(d, "w")
            try:
                wd.write(sn2, files=["eig", "amn", "mmn"])
            except Exception as ex:
                return fail(writer_key(ex), f"WannierData.write(files=[eig,amn,mmn]) {tag}: {type(ex).__name__}: {ex} (in {innermost(ex)})")
            try:
                e = EIG.from_w90_file(sn2)
                a = read_amn(sn2, 1, real=False)
                m = read_mmn(sn2, bk, 2, real=(NK == 4 and case["NB"] == 3))
            except Exception as ex:
                if NK * case["NB"] == 1 and innermost(ex) == "from_w90_file" and "eig.py" in "".join(traceback.format_tb(ex.__traceback__)):
                    return fail(f"EIG.from_w90_file:{type(ex).__name__}:single_line", f"{tag}: {type(ex).__name__}: {ex}", False)
                return fail(f"WannierData.write:unreadable:{type(ex).__name__}", f"{tag}: {type(ex).__name__}: {ex} (in {innermost(ex)})")
            for n, back in (("eig", e), ("amn", a), ("mmn", m)):
                ok, msg = wd.get_file(n).equals(back, tolerance=1e-11)
                if not ok:
                    return fail(f"WannierData.write:mismatch:{n}", f"{tag}: {msg}")
                msg = data_dict_diff(back.data, wd.get_file(n).data, text_close)
                if msg:
                    return fail(f"WannierData.write:precision:{n}", f"{tag}: {msg}")
    return {"ok": True, "nontrivial": ("container", NK, bk.NNB, case["NB"], case["NW"], case["subset"])}


def run_case(case, seed):
    allow_children()
    kind = case["kind"]
    if kind == "ref":
        return run_ref(case, seed)
    if kind == "text":
        return run_text(case, seed)
    if kind == "text_reordered":
        return run_text_reordered(case, seed)
    if kind == "npz":
        return run_npz(case, seed)
    return run_container(case, seed)


def finish(tier, cases, results):
    kinds = {}
    for c in cases:
        kinds[c["kind"]] = kinds.get(c["kind"], 0) + 1
    return {"cases_per_kind": kinds,
            "axes": {"meshes": [list(m) for m in (MESH_Q if tier == "quick" else MESH_T)],
                     "lattices": list(LATS_Q if tier == "quick" else LATS_T),
                     "NB": [1, 3] if tier == "quick" else [1, 2, 3, 4], "NW": [1, 2] if tier == "quick" else [1, 2, 3],
                     "patterns": list(PATTERNS), "k_subsets": list(SUBSETS), "mmn_file_orders": list(REORDERS),
                     "npar": [1, 2],
                     "classes_npz": ["EIG", "AMN", "AMN+tags", "MMN", "MMN+bk_reorder", "UHU", "UIU", "SHU", "SIU", "SPN",
                                     "CheckPoint", "CheckPoint(bare)", "BKVectors"]}}
