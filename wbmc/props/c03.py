"""C03 — integrals depend only on the k-point set, not on its NKdiv x NKFFT factorisation nor on the FFT library.

Seam: run(system, Grid(system, NKdiv=.., NKFFT=..), calculators, parallel=False, use_irred_kpt=False,
symmetrize=False, parameters_K={'fftlib': ..}); observation: the returned ResultDict.

One case = (system, grid size N, one group of <=4 calculators of one family/variant).  Inside the case *every*
factorisation N_i = NKdiv_i x NKFFT_i (all directions, full product) x {fftw, numpy} is run through the real run()
and compared with the first one, (NKdiv=N, NKFFT=1, fftw) — each k-point evaluated on its own, the FFT is
trivial.  In addition Grid(NK=N, NKFFT=f) and Grid(NK=N) (determineNK / autoNK) must resolve to the grid
they promise, and the autoNK grid, when it keeps N, must give the same numbers too.

Oracle: max|X - X_ref| <= 1e-9 * scale.  For integrated quantities
scale = max(|X_ref|_inf, (1/Nk) sum_k |contribution_k|): the second term is measured by one extra run() of
the reference grid with every calculator wrapped so that it returns |result| per k-point, hence quantities
that vanish by symmetry (AHC of a time-reversal invariant model ...) are judged on the natural scale of
their per-point contributions.  Tabulated quantities: scale = max(1, |X_ref|_inf), point by point on the
full grid after self_to_grid, plus identical k-point lists.

Ties (a band energy within 1e-7 of a Fermi-level bin edge for the step-function calculators, or a band gap on
one of the degeneracy thresholds 1e-4 / 1e-7 / 1e-3 within 1e-6 relative) are detected from the tabulated
energies of the reference run; such a case is skipped and reported as trivial (either side is legitimate).
"""
import numpy as np

ID = "C03"
LEVEL = "exploration"
RULE = ("cases = (system, N, family/variant, group of <=4 calculators); each case runs the real run() for every "
        "factorisation NKdiv x NKFFT = N (full product over the 3 directions, NKFFT down to 1 < recommended) x "
        "fftlib {fftw,numpy} and compares with (NKdiv=N,NKFFT=1,fftw); non-trivial = one key per compared "
        "(system,N,group,NKFFT,fftlib) whose reference result is not identically zero")
ASSUMPTIONS = [
    "grid sizes N from a fixed alphabet (<=12 points per direction, <=81 k-points); systems: Chiral, Haldane, "
    "KaneMele (pythtb, internal terms only), two zoo System_R with all external matrices (one whose "
    "NKFFT_recommended exceeds every FFT used), one analytic 2-band k.p model, one System_R with the phonon flag "
    "(DOS, CumDOS, Energy only)",
    "k.p model only on odd N (a grid point exactly on the box boundary k=+-1/2 is a tie of the non-periodic model) "
    "and only with analytic derivatives",
    "use_irred_kpt=False, symmetrize=False, adpt_num_iter=0, parallel=False (symmetry reduction, refinement and "
    "parallel collection are C07, C10, C12)",
    "tabulate.DerOrbitalMoment_test is outside the alphabet (its constructor raises for every input); SDCT_sym/"
    "SDCT_asym only with kBT>0 (with the default kBT=0 every entry is NaN on every factorisation) and not on the "
    "k.p system (Data_K_k.Xbar('Ham') raises on purpose)",
    "a factorisation dependence seen on a grid that contains an exactly degenerate band pair gets the key suffix "
    "':exact_degeneracy' (the eigenvectors inside the multiplet are arbitrary there; only gauge-covariant "
    "calculators can be expected to be reproducible)",
    "quick tier: core calculators only (13 static x tetra F/T, JDOS/OpticalConductivity/SHC, Energy/BerryCurvature/"
    "Velocity); thorough: every class of calculators.static, dynamic (+SDCT), tabulate",
    "if pyfftw cannot be imported the library silently uses numpy for 'fftw' (reported in the evidence as "
    "pyfftw_imported)",
]

RTOL = 1e-9
TIE_ABS = 1e-7

N_3D = {"quick": [(4, 2, 2), (6, 2, 1)], "thorough": [(4, 4, 1), (6, 2, 1), (4, 2, 2), (2, 3, 4)]}
N_2D = {"quick": [(4, 4, 1), (6, 2, 1)], "thorough": [(4, 4, 1), (6, 2, 1), (2, 3, 1), (12, 2, 1)]}
N_KP = {"quick": [(9, 3, 1), (3, 3, 3)], "thorough": [(9, 3, 1), (3, 3, 3), (9, 3, 3), (5, 3, 3)]}
SYS_2D = ("haldane", "kanemele")


def _n_alphabet(sysname, tier):
    if sysname == "kp":
        return N_KP[tier]
    if sysname in SYS_2D:
        return N_2D[tier]
    return N_3D[tier]


# flags are fixed properties of the named systems (kept here so that cases() needs no wannierberri import)
FLAGS = {
    "chiral": {"SS": True, "internal_only": True, "kp": False, "CCab": False, "spin_ext": False},
    "haldane": {"SS": False, "internal_only": True, "kp": False, "CCab": False, "spin_ext": False},
    "kanemele": {"SS": True, "internal_only": True, "kp": False, "CCab": False, "spin_ext": False},
    "zoo": {"SS": True, "internal_only": False, "kp": False, "CCab": False, "spin_ext": True},
    "zoo_lop": {"SS": True, "internal_only": False, "kp": False, "CCab": False, "spin_ext": False},
    "kp": {"SS": False, "internal_only": True, "kp": True, "CCab": False, "spin_ext": False},
    "phonon": {"SS": False, "internal_only": False, "kp": False, "CCab": False, "spin_ext": False},
}
# matrices zoo_lop does not carry (only Ham, AA, SS): calculators needing BB/CC/GG/... are not applicable there
LOP_STATIC = ("CumDOS", "DOS", "AHC", "Ohmic_FermiSea", "Ohmic_FermiSurf", "BerryDipole_FermiSea",
              "BerryDipole_FermiSurf", "Spin", "GME_spin_FermiSea", "GME_spin_FermiSurf", "Hall_classic_FermiSea",
              "Hall_classic_FermiSurf", "NLAHC_FermiSea", "NLAHC_FermiSurf", "NLDrude_FermiSea", "NLDrude_FermiSurf",
              "NLDrude_Fermider2", "AHC_Zeeman_spin", "OmegaOmega", "SHC")
LOP_DYN = ("JDOS", "OpticalConductivity", "SHC:simple", "ShiftCurrent", "InjectionCurrent")
LOP_TAB = ("Energy", "BerryCurvature", "Velocity", "InvMass", "Der3E", "DerBerryCurvature", "Spin", "DerSpin",
           "SpinBerry")


def cases(tier, seed):
    from wbmc import gridrun as G
    systems = ("chiral", "haldane", "zoo", "kp", "zoo_lop", "kanemele", "phonon")
    for sysname in systems:
        fl = FLAGS[sysname]
        stat = list(G.STATIC_CORE) + (list(G.STATIC_REST) if tier == "thorough" else [])
        dyn = list(G.DYN_CORE) + (list(G.DYN_REST) if tier == "thorough" else [])
        tab = list(G.TAB_CORE) + (list(G.TAB_REST) if tier == "thorough" else [])
        stat = [c for c in stat if G.static_applicable(c, fl)]
        dyn = [c for c in dyn if G.dyn_applicable(c, fl)]
        tab = [c for c in tab if G.tab_applicable(c, fl)]
        if sysname == "phonon":       # only the spectrum is defined for phonons (frequencies = sqrt of the eigenvalues)
            stat, dyn, tab = ["CumDOS", "DOS"], [], ["Energy"]
        if sysname == "zoo_lop":
            stat = [c for c in stat if c in LOP_STATIC]
            dyn = [c for c in dyn if c in LOP_DYN]
            tab = [c for c in tab if c in LOP_TAB]
        dyn_variants = ("L0",) if tier == "quick" else ("L0", "G1")
        for N in _n_alphabet(sysname, tier):
            for fam, names, variants, width in (("tab", tab, ("-",), 4), ("static", stat, ("plain", "tetra"), 4),
                                                ("dyn", dyn, dyn_variants, 3 if tier == "quick" else 1)):
                for variant in variants:
                    for grp in G.chunks(names, width):
                        if variant == "L0":
                            # SDCT needs kBT > 0: with the default kBT=0 every entry is NaN for every factorisation
                            grp = [c for c in grp if not c.startswith("SDCT")]
                        if not grp:
                            continue
                        yield {"sys": sysname, "N": list(N), "fam": fam, "variant": variant, "calcs": grp}


def setup(tier, seed):
    """JIT warm-up of the tetrahedron weights in the parent, before forking"""
    from wbmc import gridrun as G
    from wannierberri.calculators import static
    s = G.build_system("haldane", seed)
    with G.case_tmpdir() as d:
        G.run_on_grid(s, G.make_grid(s, div=(2, 2, 1), fft=(1, 1, 1)),
                      {"dos": static.DOS(Efermi=G.EFERMI, tetra=True)}, d)


def _abs_of(calc):
    """harness-side wrapper: the same calculator, returning |result| per K-point (natural scale of contributions)"""
    from wannierberri.calculators.calculator import Calculator
    from wannierberri.result import EnergyResult

    class AbsOf(Calculator):
        def __init__(self, inner):
            self.inner = inner
            self.comment = "abs of " + str(type(inner).__name__)
            super().__init__(save_mode="none")

        def __call__(self, data_K):
            r = self.inner(data_K)
            if not hasattr(r, "data"):  # VoidResult
                return r
            return EnergyResult(list(r.Energies), np.abs(r.data), transformTR=r.transformTR,
                                transformInv=r.transformInv, rank=r.rank, E_titles=list(r.E_titles),
                                save_mode="none")

    return AbsOf(calc)


def _build_calcs(case, flags):
    from wbmc import gridrun as G
    from wannierberri.calculators import TabulatorAll
    fam, variant = case["fam"], case["variant"]
    if fam == "static":
        return {c: G.make_static(c, variant == "tetra", flags) for c in case["calcs"]}
    if fam == "dyn":
        return {c: G.make_dynamic(c, variant, flags) for c in case["calcs"]}
    tabs = {c: G.make_tabulator(c) for c in case["calcs"]}
    return {"tab": TabulatorAll(tabs, mode="grid")}


def _ties(E, case):
    """E: all band energies on the grid, shape (..., nb).  Returns a description of a tie or None."""
    from wbmc import gridrun as G
    E = np.asarray(E, dtype=float).reshape(-1, E.shape[-1])
    gaps = np.diff(E, axis=1).ravel()
    for thr in (1e-4, 1e-7, 1e-3):
        if gaps.size and np.any(np.abs(gaps - thr) < 1e-6 * thr + 1e-13):
            return f"gap on threshold {thr}"
    edges = None
    if case["fam"] == "static" and case["variant"] == "plain":
        dE = G.EFERMI[1] - G.EFERMI[0]
        edges = np.concatenate([G.EFERMI, G.EFERMI[0] - dE * np.arange(1, 4), G.EFERMI[-1] + dE * np.arange(1, 4)])
    elif case["fam"] == "dyn":
        edges = G.EFERMI_DYN
    if edges is not None:
        d = np.abs(E.ravel()[:, None] - edges[None, :]).min()
        if d < TIE_ABS:
            return f"band energy {d:.1e} from a Fermi-level edge"
    return None


def _data_of(res, name, case):
    """-> dict label -> ndarray"""
    r = res.results[name]
    if case["fam"] == "tab":
        out = {"kpoints": np.array(r.kpoints), "grid": np.array(r.grid)}
        for q in r.results:
            out[q] = np.array(r.get_data(q))
        return out
    if not hasattr(r, "data"):
        return {}
    return {name: np.array(r.data)}


def run_case(case, seed):
    """library exceptions become keyed findings that keep the non-trivial tags collected so far"""
    import traceback
    keys = []
    try:
        return _run_case(case, seed, keys)
    except Exception as e:
        tb = traceback.format_exc()
        site = [ln.strip() for ln in tb.splitlines() if "wannierberri/" in ln]
        where = site[-1].split("wannierberri/")[-1].split(",")[0].strip('"') if site else "harness"
        return {"ok": False, "key": f"exception:{type(e).__name__}:{where}",
                "detail": f"{case}: {type(e).__name__}: {e}", "traceback": tb[-2000:],
                "nontrivial": keys or [("raised", case["sys"], tuple(case["N"]), case["fam"], case["variant"],
                                        tuple(case["calcs"]))]}


def _run_case(case, seed, keys):
    from wbmc import gridrun as G
    from wannierberri.calculators import TabulatorAll, tabulate
    from wannierberri.fourier import fft as wbfft
    sysname, N = case["sys"], tuple(case["N"])
    system = G.build_system(sysname, seed)
    flags = G.system_flags(system)
    if {k: flags[k] for k in FLAGS[sysname]} != FLAGS[sysname]:
        return {"ok": False, "key": "harness:flags", "detail": f"{sysname}: {flags} != {FLAGS[sysname]}"}
    facts = G.factorisations(N)
    (div0, fft0) = facts[0]
    nfft_rec = np.array(system.NKFFT_recommended)
    worst = {}
    with G.case_tmpdir() as tmp:
        calcs = _build_calcs(case, flags)
        grid0 = G.make_grid(system, div=div0, fft=fft0)
        if tuple(grid0.div) != div0 or tuple(grid0.FFT) != fft0:
            return {"ok": False, "key": "Grid:NKdiv_NKFFT_not_honoured",
                    "detail": f"{sysname} asked NKdiv={div0} NKFFT={fft0} got {grid0.div} {grid0.FFT}"}
        ref_res = G.run_on_grid(system, grid0, calcs, tmp, fftlib="fftw")
        ref = {name: _data_of(ref_res, name, case) for name in calcs}
        # natural scale + energies for tie detection: one more run of the reference grid
        probe = {"__E": TabulatorAll({"Energy": tabulate.Energy()}, mode="grid", save_mode="none")}
        if case["fam"] != "tab":
            probe.update({name: _abs_of(c) for name, c in _build_calcs(case, flags).items()})
        pr = G.run_on_grid(system, G.make_grid(system, div=div0, fft=fft0), probe, tmp, fftlib="fftw", tag="p")
        Egrid = np.array(pr.results["__E"].get_data("Energy"))
        tie = _ties(Egrid, case)
        if tie is not None:
            return {"ok": True, "nontrivial": False, "obs": {"skipped_tie": tie}}
        # exactly degenerate band pairs (Kramers doublets at TRIMs ...): eigenvectors inside the multiplet are
        # arbitrary, a failure there is a statement about gauge covariance and gets its own key
        gaps = np.diff(Egrid.reshape(-1, Egrid.shape[-1]), axis=1)
        ndeg = int(np.any(gaps < 1e-8, axis=1).sum()) if gaps.size else 0
        degenerate = ndeg > 0
        scale = {}
        nonzero = False
        nonfinite_ref = []
        for name in calcs:
            for lab, X in ref[name].items():
                Xf = np.abs(X[np.isfinite(X)])
                if case["fam"] == "tab":
                    sc = max(1.0, float(Xf.max()) if Xf.size else 0.0)
                else:
                    P = np.abs(pr.results[name].data) if hasattr(pr.results[name], "data") else np.zeros(0)
                    P = P[np.isfinite(P)]
                    nat = float(P.max()) if P.size else 0.0
                    sc = max(float(Xf.max()) if Xf.size else 0.0, nat, 1e-300)
                    if nat > 0:
                        nonzero = True
                    if Xf.size < X.size:
                        nonfinite_ref.append(name)
                scale[(name, lab)] = sc
        if case["fam"] == "tab":
            nonzero = True

        def compare(res, what):
            """first failure (in calculator order); the detail lists every calculator of the group that fails"""
            first, failing = None, []
            for name in calcs:
                got = _data_of(res, name, case)
                if set(got) != set(ref[name]):
                    return {"ok": False, "key": f"{case['fam']}:{name}:result_type_differs",
                            "detail": f"{sysname} N={N} {what}: {sorted(got)} vs {sorted(ref[name])}"}
                for lab, X in ref[name].items():
                    Y = got[lab]
                    cname = lab if case["fam"] == "tab" else name
                    if Y.shape != X.shape:
                        return {"ok": False, "key": f"{case['fam']}:{cname}:shape_differs",
                                "detail": f"{sysname} N={N} {what}: {Y.shape} vs {X.shape}"}
                    fin = np.isfinite(X)
                    if not np.array_equal(np.isfinite(Y), fin):
                        return {"ok": False, "key": f"{case['fam']}:{cname}:nonfinite_pattern_differs",
                                "detail": f"{sysname} N={N} {what}: {int((~np.isfinite(Y)).sum())} non-finite entries, "
                                          f"reference has {int((~fin).sum())}"}
                    dev = float(np.abs(Y[fin] - X[fin]).max()) if fin.any() else 0.0
                    rel = dev / scale[(name, lab)]
                    worst[cname] = max(worst.get(cname, 0.0), rel)
                    if rel > RTOL:
                        failing.append(cname)
                        if first is None:
                            v = case["variant"]
                            key = f"{case['fam']}:{v}:{cname}:depends_on_factorisation"
                            if degenerate:
                                key += ":exact_degeneracy"
                            first = {"ok": False, "key": key,
                                     "detail": f"{sysname} N={N} {what} vs NKdiv={div0},NKFFT={fft0},fftw: "
                                               f"max|diff|={dev:.3e} scale={scale[(name, lab)]:.3e} rel={rel:.2e}"
                                               + (f" (the grid contains {ndeg} k-points with an exactly degenerate "
                                                  f"band pair)" if degenerate else "")}
            if first is not None and len(failing) > 1:
                first["detail"] += f"; failing in this group: {failing}"
            return first

        for (div, fft) in facts:
            # Grid(NK, NKFFT) must resolve to the same split as Grid(NKdiv, NKFFT)
            g2 = G.make_grid(system, fft=fft, NK=N)
            if tuple(g2.div) != div or tuple(g2.FFT) != fft:
                return {"ok": False, "key": "Grid:NK_NKFFT_resolution",
                        "detail": f"{sysname} NK={N} NKFFT={fft} -> NKdiv={g2.div} NKFFT={g2.FFT}, expected {div}"}
            for lib in ("fftw", "numpy"):
                if (div, fft, lib) == (div0, fft0, "fftw"):
                    continue
                grid = G.make_grid(system, div=div, fft=fft)
                if tuple(grid.div) != div or tuple(grid.FFT) != fft:
                    return {"ok": False, "key": "Grid:NKdiv_NKFFT_not_honoured",
                            "detail": f"{sysname} asked NKdiv={div} NKFFT={fft} got {grid.div} {grid.FFT}"}
                res = G.run_on_grid(system, grid, _build_calcs(case, flags), tmp, fftlib=lib)
                if nonzero:  # the comparison is meaningful whatever its verdict
                    small = bool(np.any(np.array(fft) < nfft_rec))
                    keys.append((sysname, N, case["fam"], case["variant"], tuple(case["calcs"]), fft, lib,
                                 "below_recommended" if small else "full"))
                bad = compare(res, f"NKdiv={div} NKFFT={fft} fftlib={lib}")
                if bad is not None:
                    bad["nontrivial"] = keys
                    return bad
        # autoNK: whatever split it chooses, it is one more factorisation of its own dense grid
        gauto = G.make_grid(system, NK=N)
        dense = tuple(int(x) for x in gauto.div * gauto.FFT)
        auto = {"div": [int(x) for x in gauto.div], "fft": [int(x) for x in gauto.FFT]}
        if dense == N:
            res = G.run_on_grid(system, gauto, _build_calcs(case, flags), tmp, fftlib="fftw")
            bad = compare(res, f"autoNK NKdiv={auto['div']} NKFFT={auto['fft']}")
            if bad is not None:
                bad["nontrivial"] = keys
                return bad
        leftovers = [f for f in __import__("os").listdir(tmp)]
    obs = {"runs": 2 * len(facts) + 1 + (dense == N), "worst_rel": {k: float(f"{v:.2e}") for k, v in worst.items()},
           "auto": auto, "auto_dense_is_N": dense == N, "files_in_tmp": len(leftovers),
           "degenerate_kpoints": ndeg, "nonfinite_reference": nonfinite_ref,
           "pyfftw": bool(wbfft.PYFFTW_IMPORTED)}
    return {"ok": True, "nontrivial": keys, "obs": obs}


def finish(tier, cases, results):
    runs = sum(int((r.get("obs") or {}).get("runs", 0)) for r in results)
    ties = sum(1 for r in results if (r.get("obs") or {}).get("skipped_tie"))
    worst = {}
    for r in results:
        for k, v in ((r.get("obs") or {}).get("worst_rel") or {}).items():
            worst[k] = max(worst.get(k, 0.0), v)
    calcs = sorted({(c["fam"], c["variant"], n) for c in cases for n in c["calcs"]})
    pyf = {bool((r.get("obs") or {}).get("pyfftw")) for r in results if r.get("obs") and "pyfftw" in r["obs"]}
    return {"run_calls": runs, "cases_skipped_for_ties": ties,
            "systems": sorted({c["sys"] for c in cases}),
            "grid_sizes": sorted({tuple(c["N"]) for c in cases}),
            "calculators": len(calcs),
            "largest_relative_deviation": max(worst.values(), default=0.0),
            "largest_relative_deviation_by_calculator": dict(sorted(worst.items(), key=lambda kv: -kv[1])[:8]),
            "pyfftw_imported": sorted(pyf)}
