"""C26 — system interpolation reproduces its endpoints and is affine in alpha.

Exhaustive product of pairs (system0, system1) on one lattice:
  num_wann x lattice x relation of the two R-vector lists {equal, permuted, 0 inside 1, 1 inside 0,
  overlapping}, each with compact lists (union box 3x3x3 / 5x3x7) and with "layered-model" lists whose union box is
  longer along a later axis than along an earlier one (3x3x7, 3x7x7, 1x1x7 inside 3x3x7: R_z = +-3 with R_x, R_y = +-1)
  x matrix sets {equal, different (only the common ones survive), Ham only} x centres
  {same, different}; every alpha of the alphabet {0, 1/4, 1/2, 1, -1/2, 3/2} is evaluated inside a case.
Plus SOC pairs through SystemInterpolatorSOC (nspin 1/1, 2/2, 1/2; different up/down R lists; also with the
anisotropic lists in the spin channels and the spin-orbit term on the R-set of a 2x2x4 mesh, box 3x3x5).

Oracles
 (R)  independent reference model: matrices re-embedded by R-tuple lookup on the union set,
      X_ref(alpha)[R] = (1-alpha) X0[R] + alpha X1[R]; centres (1-alpha) c0 + alpha c1.  This is the
      "affine" clause and, at alpha in {0,1}, the R-space part of the endpoint clause.
 (k)  differential, alpha in {0,1}: the interpolated system evaluated with the real Data_K class gives,
      at 4 k-points, the same HH_K, the same Wannier-gauge matrices Xbar(name, der=0 and 1) for every common
      matrix, and the same evaluate_k observables (energy, band gradients, Berry curvature, spin) as the
      endpoint system itself.
 (c)  the interpolated system describes one set of centres: the centres used in the k-derivatives
      (rvec shifts, wannier_centers_red) are those of wannier_centers_cart  — used to *name* the cause of
      a (k) failure, and checked on its own at intermediate alpha where there is no endpoint to compare with.
"""
import itertools

import numpy as np

ID = "C26"
LEVEL = "exploration"
RULE = ("cases = pairs of systems (num_wann, lattice, R-list relation [5 relations x {compact lists, lists whose union "
        "bounding box grows along a later axis: 3x3x7, 3x7x7, 5x3x7, or along the first: 7x3x3, 7x7x3}], matrix-set relation, centres same/different, "
        "plain or SOC); each case runs every alpha in {0,.25,.5,1,-.5,1.5}; a case is non-trivial when the two "
        "systems really differ in a respect the interpolator must handle (the R lists differ as lists, or the centres "
        "differ, or a matrix present in only one system is dropped); the extents of the union box of every pair are "
        "recorded (coverage: distinct_union_boxes)")
ASSUMPTIONS = [
    "pairs are in-memory zoo systems (num_wann 1-3, tric/hex(/fcc) lattices, R-sets shell1/shell2/lopsided from the zoo "
    "and the local explicit lists tallz (shell1 + R_z up to +-3, 15 vectors), tally (same along y), zonly3 (0 and (0,0,+-3))) with generic matrices; "
    "union bounding boxes covered: 3x3x3, 3x3x5 (SOC term, 2x2x4 mesh), 3x3x7, 3x7x3, 3x7x7, 5x3x7, 7x3x3, 7x7x3 - not: |R| > 3, lists without R=0; "
    "same lattice, same num_wann, both spin-orbit systems carry a spin-orbit term (the constructor requires rvec)",
    "k alphabet: Gamma, X, two generic points; observables compared only where bands are non-degenerate (gap > 1e-3: the tabulators average bands closer than degen_thresh=1e-4)",
    "the derivative matrices Xbar(name,1) and Berry curvature count as 'matrices at every k' (they depend on the centres)",
]

ALPHAS = [0.0, 0.25, 0.5, 1.0, -0.5, 1.5]
KPTS = ["G", "X", "gen", "gen2"]
TOL = 1e-10

# R-sets of "layered" models (hoppings reach further along one axis): the box enclosing the union of the two lists is
# longer along a LATER axis than along an earlier one (all zoo sets above except "lopsided" have n0 >= n1 >= n2)
_SHELL1 = [(0, 0, 0), (1, 0, 0), (-1, 0, 0), (0, 1, 0), (0, -1, 0), (0, 0, 1), (0, 0, -1)]
_TALLZ = _SHELL1 + [(0, 0, 2), (0, 0, -2), (0, 0, 3), (0, 0, -3), (1, 0, 3), (-1, 0, -3), (0, 1, -2), (0, -1, 2)]
LOCAL_RSETS = {
    "tallz": _TALLZ,                                     # box 3 x 3 x 7
    "tally": [(x, z, y) for (x, y, z) in _TALLZ],        # box 3 x 7 x 3
    "tallx": [(z, y, x) for (x, y, z) in _TALLZ],        # box 7 x 3 x 3 (longer along the FIRST axis: the mirror situation)
    "zonly3": [(0, 0, 0), (0, 0, 3), (0, 0, -3)],        # box 1 x 1 x 7 : R_z = +-3 only
}
R_REL = {  # label -> (rs0, rs1, order of list 1)
    "equal": ("shell1", "shell1", "id"),
    "permuted": ("shell1", "shell1", "rev"),
    "0_in_1": ("shell1", "shell2", "id"),
    "1_in_0": ("shell2", "shell1", "id"),
    "overlap": ("shell1", "lopsided", "id"),
    # the same five relations with a union box that grows along later axes (3x3x7, 3x7x7, 5x3x7), and two with a box longer along x
    "equal_tall": ("tallz", "tallz", "id"),
    "permuted_tall": ("tallz", "tallz", "rev"),
    "0_in_1_tall": ("shell1", "tallz", "id"),
    "1_in_0_tall": ("tallz", "zonly3", "id"),
    "overlap_zonly3": ("shell1", "zonly3", "id"),        # only R=0 in common
    "overlap_tall": ("tally", "tallz", "id"),
    "overlap_lopsided_tall": ("lopsided", "tallz", "id"),
    "0_in_1_tallx": ("shell1", "tallx", "id"),           # 7x3x3
    "overlap_tallx": ("tallx", "tally", "id"),           # 7x7x3
}
R_REL_BASE = ("equal", "permuted", "0_in_1", "1_in_0", "overlap")
R_REL_TALL = tuple(r for r in R_REL if r not in R_REL_BASE)


def _rs(name):
    """zoo name (kept as a name: the generic entries of the existing cases do not change) or a local explicit list"""
    return LOCAL_RSETS.get(name, name)


def union_box(s0, s1):
    iR = np.vstack([np.array(s0.rvec.iRvec), np.array(s1.rvec.iRvec)])
    return [int(x) for x in (iR.max(axis=0) - iR.min(axis=0) + 1)]
MAT_REL = {  # label -> (matrices0, matrices1)
    "equal": (("Ham", "AA"), ("Ham", "AA")),
    "different": (("Ham", "AA", "SS"), ("Ham", "AA", "BB")),
    "ham_only": (("Ham",), ("Ham",)),
    "rich": (("Ham", "AA", "BB", "CC", "SS"), ("Ham", "AA", "BB", "CC", "SS")),
}
CEN_REL = {"same": ("generic", "generic"), "different": ("generic", "shared"), "different2": ("half", "outside")}


def cases(tier, seed):
    out = []
    nws = (1, 2) if tier == "quick" else (1, 2, 3)
    lats = ("tric", "hex") if tier == "quick" else ("tric", "hex", "fcc")
    cens = ("same", "different") if tier == "quick" else ("same", "different", "different2")
    for nw in nws:
        for lat in lats:
            for rrel in R_REL:
                for mrel in MAT_REL:
                    if tier == "quick" and mrel == "rich" and (lat == "hex" or nw == 1):
                        continue
                    for crel in cens:
                        out.append({"kind": "R", "nw": nw, "lat": lat, "rrel": rrel, "mrel": mrel, "crel": crel})
    # spin-orbit pairs
    for nw in ((1,) if tier == "quick" else (1, 2)):
        for lat in (("tric",) if tier == "quick" else ("tric", "hex")):
            for spins in ("11", "22", "12", "21"):
                for rrel in ("equal", "0_in_1", "overlap"):
                    for crel in ("same", "different"):
                        for aa in (False, True):
                            if tier == "quick" and aa and spins in ("12", "21"):
                                continue
                            out.append({"kind": "soc", "nw": nw, "lat": lat, "spins": spins, "rrel": rrel,
                                        "crel": crel, "aa": aa})
    # spin-orbit pairs with anisotropic boxes: the spin channels live on the "tall" lists and the spin-orbit term on the
    # Wigner-Seitz set of a 2x2x4 mesh (R_z up to +-2, R_x, R_y up to +-1), a 2x2x2 mesh for the other system
    for nw in ((1,) if tier == "quick" else (1, 2)):
        for spins in ("11", "22", "12", "21"):
            for rrel in (("0_in_1_tall", "overlap_tall") if tier == "quick" else ("0_in_1_tall", "1_in_0_tall", "overlap_tall")):
                for crel in (("different",) if tier == "quick" else ("same", "different")):
                    out.append({"kind": "soc", "nw": nw, "lat": "tric", "spins": spins, "rrel": rrel,
                                "crel": crel, "aa": False, "mp": [[2, 2, 4], [2, 2, 2]]})
    return out


# ------------------------------------------------------------------------------------------------

def build_R(case, seed):
    from wbmc import zoo, socsynth as ss
    rs0, rs1, order = R_REL[case["rrel"]]
    m0, m1 = MAT_REL[case["mrel"]]
    c0, c1 = CEN_REL[case["crel"]]
    s0 = zoo.make_system(case["nw"], case["lat"], _rs(rs0), c0, seed=seed, matrices=m0, tag="c26a")
    s1 = zoo.make_system(case["nw"], case["lat"], _rs(rs1), c1, seed=seed, matrices=m1, tag="c26b")
    if order != "id":
        s1 = ss.reordered_copy(s1, ss.order_of(order, s1.rvec.nRvec))
    return s0, s1


def build_soc(case, seed):
    from wbmc import zoo, socsynth as ss
    rs0, rs1, _ = R_REL[case["rrel"]]
    c0, c1 = CEN_REL[case["crel"]]
    mats = ("Ham", "AA") if case["aa"] else ("Ham",)
    out = []
    for i, (rs, cen, nsp) in enumerate(((rs0, c0, case["spins"][0]), (rs1, c1, case["spins"][1]))):
        up = zoo.make_system(case["nw"], case["lat"], _rs(rs), cen, seed=seed, matrices=mats, tag=f"c26up{i}")
        dn = None
        if nsp == "2":
            # the spin-down list differs from the spin-up one (other shell, reversed order)
            rsd = {"shell1": "shell2", "tallz": "tally", "tally": "tallz"}.get(rs, "shell1")
            dn = zoo.make_system(case["nw"], case["lat"], _rs(rsd), cen, seed=seed, matrices=mats, tag=f"c26dn{i}")
            dn = ss.reordered_copy(dn, ss.order_of("rev", dn.rvec.nRvec))
        mp = tuple(case["mp"][i]) if "mp" in case else (2, 2, 2)
        s = ss.make_soc_system(up, dn, with_soc=True, mp_grid=mp, theta=0.3 + 0.9 * i, phi=0.5 + 1.1 * i, alpha_soc=0.7 + 0.2 * i,
                               overlap="generic", seed=seed, tag=f"c26soc{i}")
        out.append(s)
    return out[0], out[1]


def Rdict(system, key):
    X = system._XX_R[key]
    return {tuple(int(x) for x in R): X[i] for i, R in enumerate(system.rvec.iRvec)}


def ref_matrix(system0, system1, key, alpha, Rlist):
    d0, d1 = Rdict(system0, key), Rdict(system1, key)
    shape = next(iter(d0.values())).shape
    zero = np.zeros(shape, dtype=complex)
    return np.array([(1 - alpha) * d0.get(R, zero) + alpha * d1.get(R, zero) for R in Rlist])


def data_k(system, k):
    from wannierberri.data_K import get_data_k_class_from_system
    from wannierberri.grid import Grid
    grid = Grid(system, NK=1, NKFFT=1, use_symmetry=False)
    return get_data_k_class_from_system(system)(system, dK=np.array(k, dtype=float), grid=grid)


def wannier_gauge(d, name, der):
    Xb = d.Xbar(name, der)
    U = d.UU_K
    return np.einsum("kab,kbc...,kdc->kad...", U, Xb, U.conj())


def kspace_names(system, common):
    soc = hasattr(system, "num_wann_scalar") or system.__class__.__name__ == "SystemSOC"
    if soc:
        names = ["Ham", "SS"]
        if system.system_up.has_R_mat("AA") and system.system_down.has_R_mat("AA"):
            names.append("AA")
        return names
    return sorted(common)


def observables(system, common_names):
    q = ["energy", "band_gradients", "berry_curvature_internal_terms"]
    soc = system.__class__.__name__ == "SystemSOC"
    if "AA" in common_names or (soc and system.system_up.has_R_mat("AA") and system.system_down.has_R_mat("AA")):
        q.append("berry_curvature")
    if "SS" in common_names or soc:
        q.append("spin")
    return q


def centre_state(system):
    """(ok, text): are the centres used for k-derivatives those of wannier_centers_cart ?"""
    inv = np.linalg.inv(system.real_lattice)
    red = system.wannier_centers_cart @ inv
    msgs = []
    e1 = float(np.abs(np.array(system.wannier_centers_red) - red).max())
    if e1 > 1e-9:
        msgs.append(f"|wannier_centers_red - wannier_centers_cart@inv(lattice)|={e1:.3g}")
    sl = np.array(system.rvec.shifts_left_red)
    sr = np.array(system.rvec.shifts_right_red)
    for nm, s in (("left", sl), ("right", sr)):
        if s.shape == red.shape:
            e = float(np.abs(s - red).max())
            if e > 1e-9:
                msgs.append(f"|rvec.shifts_{nm}_red - centres|={e:.3g}")
    return (not msgs), "; ".join(msgs)


def compare_endpoint(tag, interp, endpoint, common, case):
    """(k) oracle. returns failure dict or None"""
    import wannierberri as wb
    from wbmc import zoo
    names = kspace_names(endpoint, common)
    obs = observables(endpoint, common)
    for kn in KPTS:
        k = zoo.K_ALPHABET[kn]
        di, de = data_k(interp, k), data_k(endpoint, k)
        Hi, He = np.array(di.HH_K), np.array(de.HH_K)
        scale = max(1.0, float(np.abs(He).max()))
        err = float(np.abs(Hi - He).max())
        if err > TOL * scale:
            return {"what": "HH_K", "k": kn, "err": err}
        for name in names:
            for der in (0, 1):
                try:
                    Xe = wannier_gauge(de, name, der)
                except NotImplementedError:
                    continue
                Xi = wannier_gauge(di, name, der)
                scale = max(1.0, float(np.abs(Xe).max()))
                err = float(np.abs(Xi - Xe).max())
                if err > 1e-9 * scale:
                    return {"what": f"Xbar({name},der={der})", "k": kn, "err": err}
        E = np.sort(np.array(de.E_K).ravel())
        if len(E) > 1 and np.min(np.diff(E)) < 1e-3:
            continue        # degenerate: band-resolved observables are gauge dependent
        ri = wb.evaluate_k(interp, k=k, quantities=obs, return_single_as_dict=True)
        re = wb.evaluate_k(endpoint, k=k, quantities=obs, return_single_as_dict=True)
        for q in obs:
            a, b = np.array(ri[q]), np.array(re[q])
            scale = max(1.0, float(np.abs(b).max()))
            err = float(np.abs(a - b).max())
            if err > 1e-8 * scale:
                return {"what": q, "k": kn, "err": err}
    return None


def check_pair(case, s0, s1, itp, subsystems):
    """subsystems: list of (label, getter(system)->System_R-like holding _XX_R/rvec/centres, endpoint0, endpoint1)"""
    results = {}
    for alpha in ALPHAS:
        results[alpha] = itp.interpolate(alpha)
    # ---------------- (R) reference model, every alpha, every sub-system
    for label, get, e0, e1 in subsystems:
        common = set(e0._XX_R) & set(e1._XX_R)
        for alpha in ALPHAS:
            sysa = get(results[alpha])
            Rl = [tuple(int(x) for x in R) for R in sysa.rvec.iRvec]
            union = set(tuple(int(x) for x in R) for R in e0.rvec.iRvec) | set(tuple(int(x) for x in R) for R in e1.rvec.iRvec)
            if len(set(Rl)) != len(Rl) or set(Rl) != union:
                return {"ok": False, "key": "interpolate:R_set_not_union",
                        "detail": f"{case} {label} alpha={alpha}: {len(Rl)} R-vectors ({len(set(Rl))} distinct), union has {len(union)}"}
            if set(sysa._XX_R) != common:
                return {"ok": False, "key": "interpolate:matrix_set",
                        "detail": f"{case} {label} alpha={alpha}: matrices {sorted(sysa._XX_R)} expected the common ones {sorted(common)}"}
            for key in sorted(common):
                ref = ref_matrix(e0, e1, key, alpha, Rl)
                got = sysa._XX_R[key]
                scale = max(1.0, float(np.abs(ref).max()))
                err = float(np.abs(got - ref).max()) if got.shape == ref.shape else np.inf
                if err > TOL * scale:
                    kind = "endpoint" if alpha in (0.0, 1.0) else "not_affine"
                    return {"ok": False, "key": f"interpolate:{kind}:R_matrix:{key}",
                            "detail": f"{case} {label} alpha={alpha}: |X(alpha) - [(1-a)X0 + aX1]| = {err:.3g} for {key}"}
            cref = (1 - alpha) * e0.wannier_centers_cart + alpha * e1.wannier_centers_cart
            err = float(np.abs(sysa.wannier_centers_cart - cref).max())
            if err > TOL:
                return {"ok": False, "key": "interpolate:centres_cart_not_affine",
                        "detail": f"{case} {label} alpha={alpha}: centres differ from (1-a)c0+a c1 by {err:.3g}"}
    # ---------------- (k) endpoints
    common_top = set(s0._XX_R) & set(s1._XX_R)
    for alpha, endpoint in ((0.0, s0), (1.0, s1)):
        bad = compare_endpoint(alpha, results[alpha], endpoint, common_top, case)
        if bad is not None:
            stale = []
            for label, get, e0, e1 in subsystems:
                ok, txt = centre_state(get(results[alpha]))
                if not ok:
                    stale.append(f"{label}: {txt}")
            if stale:
                key = "interpolate:stale_rvec_shifts:endpoint_differs"
                why = " — the interpolated system carries the new wannier_centers_cart but the old centres in " + " | ".join(stale)
            else:
                key = f"interpolate:endpoint:{bad['what']}"
                why = ""
            return {"ok": False, "key": key,
                    "detail": f"{case}: interpolate({alpha}) differs from system{int(alpha)} in {bad['what']} at k={bad['k']} by {bad['err']:.3g}{why}"}
    # ---------------- (c) one set of centres at every alpha
    for alpha in ALPHAS:
        for label, get, e0, e1 in subsystems:
            ok, txt = centre_state(get(results[alpha]))
            if not ok:
                red_ref = ((1 - alpha) * e0.wannier_centers_cart + alpha * e1.wannier_centers_cart) @ np.linalg.inv(e0.real_lattice)
                return {"ok": False, "key": "interpolate:stale_rvec_shifts:centres_inconsistent",
                        "detail": f"{case} {label} alpha={alpha}: {txt}; wannier_centers_red={np.round(get(results[alpha]).wannier_centers_red, 4).tolist()} "
                                  f"expected (1-a)*red0+a*red1={np.round(red_ref, 4).tolist()}"}
    # ---------------- HH_K affine in alpha (no centre phases enter H itself)
    from wbmc import zoo
    for kn in ("gen",):
        k = zoo.K_ALPHABET[kn]
        H0 = np.array(data_k(s0, k).HH_K)
        H1 = np.array(data_k(s1, k).HH_K)
        for alpha in ALPHAS:
            Ha = np.array(data_k(results[alpha], k).HH_K)
            ref = (1 - alpha) * H0 + alpha * H1
            err = float(np.abs(Ha - ref).max())
            if err > TOL * max(1.0, float(np.abs(ref).max())):
                return {"ok": False, "key": "interpolate:HH_K_not_affine",
                        "detail": f"{case} alpha={alpha}: |H(alpha,k) - [(1-a)H0(k)+aH1(k)]| = {err:.3g}"}
    # ---------------- history: the results are the caller's to modify.  Change every matrix and the centres of the two
    # endpoint results IN PLACE, then interpolate again: the endpoints held by the interpolator, and therefore every
    # alpha, must be what they were
    snap = {alpha: [({k: np.array(v, copy=True) for k, v in get(results[alpha])._XX_R.items()},
                     np.array(get(results[alpha]).wannier_centers_cart, copy=True)) for label, get, e0, e1 in subsystems]
            for alpha in ALPHAS}
    for alpha in (0.0, 1.0):
        for label, get, e0, e1 in subsystems:
            sub = get(results[alpha])
            for k in sub._XX_R:
                sub._XX_R[k] += 0.37
            sub.wannier_centers_cart[...] += 0.05
    for alpha in ALPHAS:
        again = itp.interpolate(alpha)
        for (label, get, e0, e1), (mats, cen) in zip(subsystems, snap[alpha]):
            sub = get(again)
            for k, v in mats.items():
                err = float(np.abs(sub._XX_R[k] - v).max()) if sub._XX_R[k].shape == v.shape else np.inf
                if err > TOL * max(1.0, float(np.abs(v).max())):
                    return {"ok": False, "key": f"interpolate:result_aliases_interpolator_data:{k}",
                            "detail": f"{case} {label}: after the results of interpolate(0) and interpolate(1) were modified in place, "
                                      f"interpolate({alpha}) gives {k} different by {err:.3g} from the first call"}
            err = float(np.abs(sub.wannier_centers_cart - cen).max())
            if err > TOL:
                return {"ok": False, "key": "interpolate:result_aliases_interpolator_data:centres",
                        "detail": f"{case} {label}: after the endpoint results were modified in place, interpolate({alpha}) gives centres "
                                  f"different by {err:.3g} from the first call"}
    return None


def run_case(case, seed):
    from wannierberri.system.interpolate import SystemInterpolator, SystemInterpolatorSOC
    if case["kind"] == "R":
        s0, s1 = build_R(case, seed)
        itp = SystemInterpolator(s0, s1)
        subs = [("system", (lambda s: s), s0, s1)]
        lists_differ = [tuple(r) for r in s0.rvec.iRvec.tolist()] != [tuple(r) for r in s1.rvec.iRvec.tolist()]
        dropped = set(s0._XX_R) != set(s1._XX_R)
    else:
        s0, s1 = build_soc(case, seed)
        itp = SystemInterpolatorSOC(s0, s1)
        subs = [("soc", (lambda s: s), s0, s1),
                ("up", (lambda s: s.system_up), s0.system_up, s1.system_up),
                ("down", (lambda s: s.system_down), s0.system_down, s1.system_down)]
        lists_differ = True
        dropped = set(s0._XX_R) != set(s1._XX_R)
    bad = check_pair(case, s0, s1, itp, subs)
    boxes = {label: union_box(e0, e1) for label, get, e0, e1 in subs}
    # a box that is longer along a later axis than along an earlier one (any flattening of R into one index must use
    # the right strides there)
    box_growing = sorted(label for label, b in boxes.items() if b[1] > b[0] or b[2] > b[1])
    cen_differ = float(np.abs(s0.wannier_centers_cart - s1.wannier_centers_cart).max()) > 1e-6
    nt = []
    if lists_differ:
        nt.append((case["kind"], "R_lists_differ", case["rrel"], case.get("spins", "")))
    if cen_differ:
        nt.append((case["kind"], "centres_differ", case["crel"], case["lat"]))
    if dropped:
        nt.append((case["kind"], "matrix_dropped", case.get("mrel", case.get("spins"))))
    if box_growing and lists_differ:
        nt.append((case["kind"], "union_box_grows_along_later_axis", case["rrel"]))
    if bad is not None:
        bad["nontrivial"] = bool(nt)
        return bad
    return {"ok": True, "nontrivial": bool(nt),
            "obs": {"alphas": len(ALPHAS), "centres_differ": cen_differ, "lists_differ": lists_differ,
                    "matrix_dropped": dropped, "union_box": boxes, "box_grows_along_later_axis": box_growing}}


def finish(tier, cases, results):
    return {"axes": {"alphas": ALPHAS, "k_points": KPTS, "R_relations": list(R_REL), "matrix_relations": list(MAT_REL),
                     "centres": list(CEN_REL)},
            "R_sets": {"zoo": ["shell1", "shell2", "lopsided"], "local": {k: len(v) for k, v in LOCAL_RSETS.items()}},
            "pairs_with_different_centres": int(sum(1 for r in results if (r.get("obs") or {}).get("centres_differ"))),
            "pairs_with_union_box_growing_along_a_later_axis":
                int(sum(1 for r in results if (r.get("obs") or {}).get("box_grows_along_later_axis"))),
            "distinct_union_boxes": sorted({tuple(b) for r in results for b in ((r.get("obs") or {}).get("union_box") or {}).values()})}
