"""C14 — tetrahedron weights equal the exact linear-tetrahedron volume fractions.

Five exhaustive products, all judged by the exact rational reference model `wbmc/oracles_tetra.py`:

w4      every ordered 4-tuple of corner energies over the letter alphabet (a case = one multiset, all its
        distinct orders are run) x Fermi levels {every corner, every midpoint of consecutive distinct
        corners, min-1, max+1, corner +-1e-7} x der {0,1,2,3} x branch {accurate, polynomial}
shift   corner patterns over {0,1/4,1/2,1} (all multisets, all orders) x spread x base: corners = base+spread*u
        (the weights depend on energy differences only; the same oracle is applied to the shifted numbers)
groups  TetraWeights.weights_all_band_groups on synthetic 3-band ladders: all 4^4 corner assignments x centre
        ladder x Fermi arrays x der {-1,0,1,2,3} x degen_thresh; every returned group weight = mean of the
        exact band weights, and the groups account for every band with a non-zero exact weight
paral   TetraWeightsParal: all 3^8 corner arrays over a 3-letter alphabet x centre letter x der, against the
        mean of the 12 exact tetrahedra (centre + face split along the (0,0)-(1,1) diagonal)
run     CumDOS / DOS (tetra=True) through run() on zoo systems x {parallelepiped grid, tetrahedral grid} against an
        oracle calculator fed with the same corner energies; 0 below all corners, num_wann above
"""
import itertools
import os
import shutil
import tempfile
from fractions import Fraction as Fr

import numpy as np

ID = "C14"
LEVEL = "exploration"
RULE = ("w4/shift cases = one multiset of corner letters (all distinct orders, all Fermi letters, der 0-3, both branches "
        "inside); non-trivial = the multiset has coincident / near-coincident (<1e-6) corners or max|e| >= 100 x smallest "
        "gap; groups: non-trivial = some k-point has a band group that is completed (fully below/above) or a group of "
        ">=2 bands; paral: non-trivial = the 8 corners are not all equal; run: non-trivial = (system, grid)")
ASSUMPTIONS = [
    "corner energies outside the letter alphabets are not explored (10 letters quick / 13 thorough, magnitudes up to 1e3, "
    "gaps down to 1e-13; shift sweep: bases up to 1e3 (1e4 thorough), spreads down to 1e-4)",
    "der=0: the library documents an energy resolution diff_min=1e-12 (coincident corners are spread upward); the oracle is "
    "the bracket n(ef-d)-1e-9 <= w <= n(ef+d)+1e-9, d=4e-12*max(1,|ef|), of the exact monotone fraction",
    "der>=1: judged only for corner sets whose distinct corners are >=1e-6 apart and ef not on a knot; tolerance 1e-8 of the "
    "largest value the exact derivative takes at knots/midpoints, plus twice the exact change caused by the documented "
    "1e-12 spreading of coincident corners (2 float spacings where 1e-12 is below the float grid, |e| ~ 1e4)",
    "parallelepiped: the documented decomposition (cell centre + every face split along its (0,0)-(1,1) diagonal) is taken "
    "as the specification",
    "run(): corner energies delivered by Data_K.E_K_corners_* are taken as given (their correctness is property C33)",
]

# simplest letters first
A_QUICK = [0.0, 1.0, 2.0, 3.0, -5.0, 1 + 1e-4, 1 + 1e-9, 1 + 1e-13, 1e3, 1e3 + 1]
A_THOROUGH = A_QUICK + [7.25, -1e3, 1e3 + 1e-5]
U_LETTERS = [0.0, 0.25, 0.5, 1.0]
LADDERS = [(0.0, 1.0, 2.0), (0.5, 1.0, 2.5), (0.0, 0.0, 2.0), (-1.0, 1.5, 1.5), (0.5, 0.5, 0.5)]   # the last: thorough only
P_LETTERS = [0.0, 1.0, 2.5]
P_CENTRES = [0.75, 1.0]
RES = Fr(4, 10 ** 12)      # 4e-12
DIFF_MIN = Fr(1, 10 ** 12)  # the library's documented resolution
COND = 100.0                # max|e| / smallest denominator from which an expansion around E=0 can lose >= 1e-10


def setup(tier, seed):
    from wbmc import oracles_tetra
    oracles_tetra.selftest()
    from wannierberri.grid.tetrahedron import weights_tetra
    ef = np.array([0.5, 1.5])
    # the two call signatures used below (numba compiles one specialisation per signature)
    weights_tetra(ef, 0., 1., 2., 3., der=1)
    weights_tetra(ef, 0., 1., 2., 3., der=0, accurate=False)


# ------------------------------------------------------------------------------------------------ cases

def cases(tier, seed):
    quick = (tier == "quick")
    A = A_QUICK if quick else A_THOROUGH
    for idx in itertools.combinations_with_replacement(range(len(A)), 4):
        yield {"kind": "w4", "letters": list(idx)}
    bases = (0.0, 10.0, -10.0, 1000.0) if quick else (0.0, 10.0, -10.0, 1000.0, -1000.0, 1e4)
    spreads = (1.0, 1e-2, 1e-4) if quick else (1.0, 1e-2, 1e-3, 1e-4)
    for spread in spreads:
        for base in bases:
            for idx in itertools.combinations_with_replacement(range(len(U_LETTERS)), 4):
                yield {"kind": "shift", "u": list(idx), "spread": spread, "base": base}
    nlad = 4 if quick else 5
    for cen in range(nlad):
        for c0 in range(nlad):
            yield {"kind": "groups", "centre": cen, "c0": c0, "nlad": nlad}
    for cen in range(len(P_CENTRES)):
        for head in itertools.product(range(3), repeat=4):
            yield {"kind": "paral", "centre": cen, "head": list(head), "ders": [0, 1] if quick else [0, 1, 2, 3, -1]}
    for system in ("generic3", "flat2", "overlap4"):
        for grid in (("paral", "tetra") if quick else ("paral", "tetra", "paral2", "tetra2")):
            yield {"kind": "run", "system": system, "grid": grid}


# ------------------------------------------------------------------------------------------------ w4 / shift

def ef_list(cs, eps, width):
    s = sorted(set(cs))
    out = set(s)
    for a, b in zip(s[:-1], s[1:]):
        out.add((a + b) / 2)
    out.add(s[0] - width)
    out.add(s[-1] + width)
    for c in s:
        out.add(c - eps)
        out.add(c + eps)
    return sorted(out)


def spread_rule(cs):
    """the library's documented treatment of (nearly) coincident corners, in exact arithmetic.  In double precision
    `e + 1e-12` is rounded to the float grid, so for |e| >~ 5e3 (spacing > 5e-13) the separation that can actually be
    realised is up to two grid spacings: the resolution is max(1e-12, 2*spacing(max|e|))."""
    e = sorted(Fr(c) for c in cs)
    dmin = max(DIFF_MIN, 2 * Fr(float(np.spacing(max(abs(float(c)) for c in cs)))))
    for i in range(3):
        if e[i + 1] - e[i] < DIFF_MIN:
            e[i + 1] = e[i] + dmin
    return e


def der_scale(cs, der):
    from wbmc import oracles_tetra as o
    s = sorted(set(Fr(c) for c in cs))
    if len(s) == 1:
        return None
    vals = []
    for k in s:
        vals.append(abs(o.occ_der(k, cs, der, "left")))
        vals.append(abs(o.occ_der(k, cs, der, "right")))
    for a, b in zip(s[:-1], s[1:]):
        vals.append(abs(o.occ_der((a + b) / 2, cs, der)))
    return max(vals)


def conditioning(cs, ef):
    """max|energy| / smallest denominator of the cubic piece that contains ef (corners spread by the documented
    rule): the amplification of rounding errors when that piece is expanded around E=0.  0 outside [e1,e4)."""
    e1, e2, e3, e4 = spread_rule(cs)
    ef = Fr(ef)
    if ef < e1 or ef >= e4:
        return 0.0
    if ef >= e3:
        den = (e4 - e1, e4 - e2, e4 - e3)
    elif ef >= e2:
        den = (e3 - e1, e4 - e1, e3 - e2, e4 - e2)
    else:
        den = (e2 - e1, e3 - e1, e4 - e1)
    return float(max(abs(e1), abs(e4), abs(ef)) / min(den))


def ill_conditioned(cs):
    e = spread_rule(cs)
    g = min(b - a for a, b in zip(e[:-1], e[1:]))
    return float(max(abs(e[0]), abs(e[-1])) / g) >= COND


def check_corner_set(cs, eps, width):
    """cs: 4 floats (a multiset). Returns (failure dict | None, info)"""
    from wbmc import oracles_tetra as o
    from wannierberri.grid.tetrahedron import weights_tetra
    cs = tuple(float(c) for c in cs)
    efs = ef_list(cs, eps, width)
    efa = np.array(efs)
    s = sorted(set(cs))
    gaps = [b - a for a, b in zip(s[:-1], s[1:])]
    clean = all(g >= 0.99e-6 for g in gaps)
    perms = sorted(set(itertools.permutations(cs)))
    # --- exact references
    lo = np.array([float(o.occ(Fr(e) - RES * max(1, abs(Fr(e))), cs)) for e in efs])
    hi = np.array([float(o.occ(Fr(e) + RES * max(1, abs(Fr(e))), cs)) for e in efs])
    refs = {}
    if clean:
        sp = spread_rule(cs)
        offknot = np.array([e not in cs for e in efs])
        for der in (1, 2, 3):
            sc = der_scale(cs, der)
            ex = [o.occ_der(e, cs, der) for e in efs]
            al = [abs(o.occ_der(e, sp, der) - x) for e, x in zip(efs, ex)]
            if sc is None:
                tol = np.zeros(len(efs))
            else:
                tol = np.array([1e-8 * float(sc) + 2 * float(a) for a in al])
            refs[der] = (np.array([float(x) for x in ex]), tol, sc)
    nev = 0

    def fail(key, txt, ief=None):
        if ief is not None and key.endswith(":value") and "polynomial" in key:
            if conditioning(cs, efs[ief]) >= COND:
                key = key[:-len(":value")] + ":cancellation"
        return {"ok": False, "key": key, "detail": txt}

    first = {}
    legacy = None      # first failure of the legacy der=0 polynomial branch (accurate=False): deferred, so that
                       # it cannot hide a failure of the accurate branch or of the derivative weights
    for p in perms:
        for branch, acc in (("accurate", True), ("polynomial", False)):
            w = np.array(weights_tetra(efa, p[0], p[1], p[2], p[3], der=0, accurate=acc))
            nev += len(efs)
            if not np.all(np.isfinite(w)):
                i = int(np.argmin(np.isfinite(w)))
                _f = fail(f"weights_tetra:{branch}:value", f"corners={p} ef={efs[i]!r} der=0 got {w[i]}", i)
                if branch == "polynomial":
                    _f["key"] += ":der0"
                    legacy = legacy or _f
                    break
                return _f, nev
            bad = np.where((w < lo - 1e-9) | (w > hi + 1e-9))[0]
            if len(bad):
                i = int(bad[np.argmax(np.maximum(lo[bad] - w[bad], w[bad] - hi[bad]))])
                _f = fail(f"weights_tetra:{branch}:value",
                            f"corners={p} ef={efs[i]!r} der=0 branch={branch}: got {w[i]!r}, exact fraction in "
                            f"[{lo[i]!r},{hi[i]!r}] ({len(bad)} of {len(efs)} Fermi levels off)", i)
                if branch == "polynomial":
                    _f["key"] += ":der0"
                    legacy = legacy or _f
                    break
                return _f, nev
            if np.any(w < -1e-9) or np.any(w > 1 + 1e-9):
                i = int(np.argmax(np.abs(w - 0.5)))
                _f = fail(f"weights_tetra:{branch}:range", f"corners={p} ef={efs[i]!r} got {w[i]!r}")
                if branch == "polynomial":
                    _f["key"] += ":der0"
                    legacy = legacy or _f
                    break
                return _f, nev
            d = np.diff(w)
            if np.any(d < -1e-9):
                i = int(np.argmin(d))
                _f = fail(f"weights_tetra:{branch}:monotone",
                            f"corners={p} ef={efs[i]!r}->{efs[i + 1]!r} weight {w[i]!r}->{w[i + 1]!r}")
                if branch == "polynomial":
                    _f["key"] += ":der0"
                    legacy = legacy or _f
                    break
                return _f, nev
            k = (branch, 0)
            if k not in first:
                first[k] = w
            elif np.max(np.abs(w - first[k])) > 1e-13:
                i = int(np.argmax(np.abs(w - first[k])))
                _f = fail(f"weights_tetra:{branch}:order_dependence",
                            f"corners={p} vs {perms[0]} ef={efs[i]!r}: {w[i]!r} vs {first[k][i]!r}")
                if branch == "polynomial":
                    _f["key"] += ":der0"
                    legacy = legacy or _f
                    break
                return _f, nev
        if clean:
            for der in (1, 2, 3):
                ex, tol, sc = refs[der]
                w = np.array(weights_tetra(efa, p[0], p[1], p[2], p[3], der=der))
                nev += int(offknot.sum())
                err = np.where(offknot, np.abs(w - ex), 0.0)
                err = np.where(np.isfinite(err), err, np.inf)
                bad = np.where(err > tol)[0]
                if len(bad):
                    i = int(bad[np.argmax(err[bad] - tol[bad])])
                    return fail("weights_tetra:polynomial:value",
                                f"corners={p} ef={efs[i]!r} der={der}: got {w[i]!r}, exact {ex[i]!r} "
                                f"(natural scale {float(sc) if sc is not None else 0.0:.6g}, error/scale "
                                f"{err[i] / float(sc) if sc else err[i]:.3g}; {len(bad)} of {int(offknot.sum())} off)", i), nev
                k = ("polynomial", der)
                if k not in first:
                    first[k] = w
                else:
                    dd = np.where(offknot, np.abs(w - first[k]), 0.0)
                    if np.max(dd) > 1e-13 * max(1.0, float(sc) if sc else 1.0):
                        i = int(np.argmax(dd))
                        return fail("weights_tetra:polynomial:order_dependence",
                                    f"corners={p} vs {perms[0]} ef={efs[i]!r} der={der}: {w[i]!r} vs {first[k][i]!r}"), nev
    # --- "all Fermi-level arrays": the same levels in descending and in shuffled order, and integer-typed arrays,
    #     must give level by level the same weights as the ascending float array (first corner order only)
    p = perms[0]
    n = len(efs)
    orders = {"descending": np.arange(n)[::-1], "shuffled": np.concatenate([np.arange(1, n, 2), np.arange(0, n, 2)[::-1]])}
    efi = np.arange(int(np.floor(min(cs) - 1)), int(np.ceil(max(cs) + 1)) + 1)
    if len(efi) > 64:
        efi = efi[:: len(efi) // 32 + 1]
    for der in ((0, 1, 2, 3) if clean else (0,)):
        kw = dict(der=der, accurate=True) if der == 0 else dict(der=der)
        w0 = np.array(weights_tetra(efa, p[0], p[1], p[2], p[3], **kw))
        for oname, perm in orders.items():
            wp = np.array(weights_tetra(efa[perm].copy(), p[0], p[1], p[2], p[3], **kw))
            nev += n
            dd = np.abs(wp - w0[perm])
            dd = np.where(np.isfinite(dd), dd, np.where(np.isfinite(wp) == np.isfinite(w0[perm]), 0.0, np.inf))
            if np.max(dd) > 1e-13 * max(1.0, float(np.max(np.abs(w0[np.isfinite(w0)]))) if np.any(np.isfinite(w0)) else 1.0):
                i = int(np.argmax(dd))
                return fail("weights_tetra:fermi_array_order",
                            f"corners={p} der={der} Fermi levels in {oname} order: level {efa[perm][i]!r} gets {wp[i]!r}, "
                            f"in the ascending array it gets {w0[perm][i]!r}"), nev
        wf = np.array(weights_tetra(efi.astype(float), p[0], p[1], p[2], p[3], **kw))
        wi = np.array(weights_tetra(efi, p[0], p[1], p[2], p[3], **kw))
        nev += len(efi)
        ok = (np.isfinite(wf) == np.isfinite(wi)) & (np.where(np.isfinite(wf) & np.isfinite(wi), np.abs(wf - wi), 0.0) <= 1e-13 * max(1.0, float(np.max(np.abs(wf[np.isfinite(wf)]))) if np.any(np.isfinite(wf)) else 1.0))
        if not np.all(ok):
            i = int(np.argmin(ok))
            return fail("weights_tetra:integer_fermi_array",
                        f"corners={p} der={der}: integer-typed Fermi array {efi.tolist()} gives {wi[i]!r} at level {int(efi[i])}, "
                        f"the same levels as floats give {wf[i]!r}"), nev
    return legacy, nev


def run_w4(case):
    A = A_THOROUGH   # indices of the quick alphabet are a prefix of the thorough one
    cs = [A[i] for i in case["letters"]]
    res, nev = check_corner_set(cs, 1e-7, 1.0)
    return _wrap(res, nev, cs, ("w4",) + tuple(case["letters"]))


def run_shift(case):
    cs = [case["base"] + case["spread"] * U_LETTERS[i] for i in case["u"]]
    res, nev = check_corner_set(cs, case["spread"] * 1e-3, case["spread"])
    return _wrap(res, nev, cs, ("shift", case["base"], case["spread"]) + tuple(case["u"]))


def _wrap(res, nev, cs, tag):
    s = sorted(set(cs))
    near = len(s) < 4 or any((b - a) < 1e-6 for a, b in zip(s[:-1], s[1:]))
    illc = ill_conditioned(cs)
    nt = tag if (near or illc) else False
    if res is not None:
        res["nontrivial"] = nt
        return res
    return {"ok": True, "nontrivial": nt, "obs": {"evaluations": nev, "coincident": near, "ill_conditioned": illc}}


# ------------------------------------------------------------------------------------------------ groups

_CACHE = {}


def exact_vec(cs, efs_key, efs, der):
    """exact der-th derivative on a list of Fermi levels (floats), cached per sorted corner tuple"""
    from wbmc import oracles_tetra as o
    key = (tuple(sorted(cs)), efs_key, der)
    if key not in _CACHE:
        _CACHE[key] = np.array([float(o.occ_der(e, cs, der)) for e in efs])
    return _CACHE[key]


def bracket_vec(cs, efs_key, efs):
    from wbmc import oracles_tetra as o
    key = (tuple(sorted(cs)), efs_key, "br")
    if key not in _CACHE:
        lo = np.array([float(o.occ(Fr(e) - RES * max(1, abs(Fr(e))), cs)) for e in efs])
        hi = np.array([float(o.occ(Fr(e) + RES * max(1, abs(Fr(e))), cs)) for e in efs])
        _CACHE[key] = (lo, hi)
    return _CACHE[key]


EF_WIDE = [-1.63 + 0.29 * i for i in range(16)]     # -1.63 .. 2.72, never on a ladder value
EF_NARROW = [0.87 + 0.11 * i for i in range(5)]     # 0.87 .. 1.31: bands fully below and fully above exist
EF_NARROW2 = [0.93 + 0.13 * i for i in range(5)]    # same length as EF_NARROW, other values (cache keyed by identity)
EF_NARROW3 = [x + 5e-9 for x in EF_NARROW]              # same length, values within any allclose() tolerance of EF_NARROW
EF_NARROW4 = [x * (1 + 3e-6) for x in EF_NARROW]        # same length, relative offset below numpy's default rtol
EF_ONE = [1.27]


def run_groups(case):
    from wannierberri.grid.tetrahedron import TetraWeights
    cen = LADDERS[case["centre"]]
    nb = 3
    nontriv = []
    nev = 0
    efsets = {"wide": EF_WIDE, "narrow": EF_NARROW, "narrow2": EF_NARROW2, "narrow3": EF_NARROW3, "narrow4": EF_NARROW4, "one": EF_ONE}
    for c1, c2, c3 in itertools.product(range(case["nlad"]), repeat=3):
        lad = [LADDERS[case["c0"]], LADDERS[c1], LADDERS[c2], LADDERS[c3]]
        eCenter = np.array([cen], dtype=float)                     # (1, nb)
        eCorners = np.array([lad], dtype=float)                    # (1, 4, nb)
        tw = TetraWeights(eCenter=eCenter.copy(), eCorners=eCorners.copy())
        arrays = {k: np.array(v) for k, v in efsets.items()}
        # the order of calls exercises the lazy cache keyed by (Fermi array identity, der, ik, ib)
        for efname, der, thr in [(n, d, t) for t in (-1, 0.6) for n in ("wide", "narrow", "narrow2", "narrow3", "narrow4", "one")
                                 for d in (0, 1, -1, 2, 3, 0)]:
            efs = efsets[efname]
            got = tw.weights_all_band_groups(arrays[efname], der=der, degen_thresh=thr)
            assert len(got) == 1
            got = got[0]
            nev += 1
            exact_b = []
            for ib in range(nb):
                cs = tuple(l[ib] for l in lad)
                if der == -1:
                    exact_b.append(1 - exact_vec(cs, efname, efs, 0))
                else:
                    exact_b.append(exact_vec(cs, efname, efs, der))
            exact_b = np.array(exact_b)
            tol = 1e-9 * max(1.0, np.abs(exact_b).max())
            covered = []
            total = np.zeros(len(efs))
            for (ib1, ib2), w in sorted(got.items()):
                w = np.array(w) * np.ones(len(efs))
                if not (0 <= ib1 < ib2 <= nb):
                    return {"ok": False, "key": "TetraWeights:group_bounds", "detail": f"group {(ib1, ib2)}"}
                covered += list(range(ib1, ib2))
                ref = exact_b[ib1:ib2].mean(axis=0)
                total += w * (ib2 - ib1)
                if np.max(np.abs(w - ref)) > tol:
                    i = int(np.argmax(np.abs(w - ref)))
                    return {"ok": False, "key": "TetraWeights:group_weight",
                            "detail": f"centre={cen} corners={lad} Efermi[{efname}]={efs[i]} der={der} degen_thresh={thr} "
                                      f"group={(ib1, ib2)}: got {w[i]!r} expected mean of band weights {ref[i]!r}"}
                if ib2 - ib1 > 1 or np.all(ref == 1.0):
                    nontriv.append(("grp", ib2 - ib1, bool(np.all(ref == 1.0)), der))
            if len(covered) != len(set(covered)):
                return {"ok": False, "key": "TetraWeights:overlapping_groups",
                        "detail": f"centre={cen} corners={lad} Efermi[{efname}] der={der} thr={thr} groups={sorted(got)}"}
            if np.max(np.abs(total - exact_b.sum(axis=0))) > tol * nb:
                i = int(np.argmax(np.abs(total - exact_b.sum(axis=0))))
                return {"ok": False, "key": "TetraWeights:sum_over_bands",
                        "detail": f"centre={cen} corners={lad} Efermi[{efname}]={efs[i]} der={der} degen_thresh={thr} "
                                  f"groups={sorted(got)}: sum of group weights x size {total[i]!r}, "
                                  f"sum of exact band weights {exact_b.sum(axis=0)[i]!r}"}
    return {"ok": True, "nontrivial": [list(x) for x in sorted(set(nontriv))] or False,
            "obs": {"calls": nev}}


# ------------------------------------------------------------------------------------------------ paral

EF_P_GENERIC = [-0.5, 0.1, 0.4, 0.6, 0.9, 1.3, 1.9, 2.4, 2.6]
EF_P_KNOTS = [0.0, 0.75, 1.0, 2.5, 3.5]


def paral_tetrahedra(centre, ec):
    """the 12 tetrahedra (as 4-tuples of energies) of a cell with corner energies ec[i][j][k]"""
    out = []
    for axis in range(3):
        for f in (0, 1):
            def face(u, v, axis=axis, f=f):
                idx = [u, v]
                idx.insert(axis, f)
                return ec[idx[0]][idx[1]][idx[2]]
            out.append((centre, face(0, 0), face(0, 1), face(1, 1)))
            out.append((centre, face(0, 0), face(1, 0), face(1, 1)))
    return out


def run_paral(case):
    from wannierberri.grid.tetrahedron import TetraWeightsParal
    centre = P_CENTRES[case["centre"]]
    ders = case["ders"]
    efg = np.array(EF_P_GENERIC)
    efk = np.array(EF_P_KNOTS)
    nev = 0
    anyvaried = False
    for tail in itertools.product(range(3), repeat=4):
        letters = list(case["head"]) + list(tail)
        ec = np.array([P_LETTERS[i] for i in letters]).reshape(2, 2, 2)
        anyvaried = anyvaried or len(set(letters)) > 1
        tw = TetraWeightsParal(eCenter=np.array([[centre]]), eCorners=ec.reshape(1, 2, 2, 2, 1).copy())
        tets = paral_tetrahedra(centre, ec.tolist())
        for der in ders:
            got = tw.weights_all_band_groups(efg, der=der)[0]
            nev += 1
            ref = np.zeros(len(efg))
            for t in tets:
                ref += exact_vec(t, "pg", EF_P_GENERIC, max(der, 0))
            ref /= 12
            if der == -1:
                ref = 1 - ref
            # a band that is not reported has weight zero
            w = np.array(got[(0, 1)]) * np.ones(len(efg)) if (0, 1) in got else np.zeros(len(efg))
            tol = 1e-8 * max(1.0, np.abs(ref).max())
            if np.max(np.abs(w - ref)) > tol:
                i = int(np.argmax(np.abs(w - ref)))
                return {"ok": False, "key": "TetraWeightsParal:value", "nontrivial": True,
                        "detail": f"centre={centre} corners[ix][iy][iz]={ec.tolist()} ef={efg[i]} der={der}: got "
                                  f"{w[i]!r}, mean of the 12 exact tetrahedra {ref[i]!r}"}
        # der=0 on knots: bracket
        got = tw.weights_all_band_groups(efk, der=0)[0]
        nev += 1
        lo = np.zeros(len(efk))
        hi = np.zeros(len(efk))
        for t in tets:
            a, b = bracket_vec(t, "pk", EF_P_KNOTS)
            lo += a
            hi += b
        lo /= 12
        hi /= 12
        w = np.array(got[(0, 1)]) * np.ones(len(efk)) if (0, 1) in got else np.zeros(len(efk))
        if np.any(w < lo - 1e-9) or np.any(w > hi + 1e-9):
            return {"ok": False, "key": "TetraWeightsParal:value", "nontrivial": True,
                    "detail": f"centre={centre} corners={ec.tolist()} ef={EF_P_KNOTS} der=0: got "
                              f"{w.tolist()}, exact in [{lo.tolist()},{hi.tolist()}]"}
    return {"ok": True, "nontrivial": anyvaried, "obs": {"calls": nev}}


# ------------------------------------------------------------------------------------------------ run()

def make_run_system(name, seed):
    from wbmc import zoo
    if name == "generic3":
        return zoo.make_system(3, "tric", "shell1", "generic", seed=seed, tag="c14")
    if name == "overlap4":
        return zoo.make_system(4, "orth", "shell2", "half", seed=seed, tag="c14", onsite_spread=0.0)
    if name == "flat2":
        # narrow bands far from the energy zero: on-site 10 eV (+0.002 eV splitting), hoppings scaled to ~1e-3 eV
        s = zoo.make_system(2, "sc", "shell1", "generic", seed=seed, tag="c14flat")
        X = np.array(s.get_R_mat("Ham")) * 1e-3
        iR0 = s.rvec.iR0
        X[iR0] += np.diag([10.0, 10.001])
        s.set_R_mat("Ham", X, reset=True)
        return s
    raise KeyError(name)


def run_run(case, seed):
    import wannierberri as wb
    from wannierberri.calculators import static
    from wannierberri.calculators.calculator import Calculator
    from wannierberri.result import EnergyResult
    from wannierberri.grid import KpointBZparallel
    from wannierberri.symmetry.point_symmetry import transform_ident
    from wbmc import oracles_tetra as o

    class ExactTetra(Calculator):
        """(1/nk) sum_k sum_b of the exact (rational) tetrahedron weight of band b in cell k"""

        def __init__(self, Efermi, der):
            super().__init__()
            self.Efermi = np.array(Efermi)
            self.der = der
            self.span = [np.inf, -np.inf]

        def __call__(self, data_K):
            efs = [float(e) for e in self.Efermi]
            tot = np.zeros(len(efs))
            if isinstance(data_K.Kpoint, KpointBZparallel):
                cor = data_K.E_K_corners_parallel()
                cen = data_K.E_K
                for ik in range(cor.shape[0]):
                    for ib in range(cor.shape[-1]):
                        for t in paral_tetrahedra(float(cen[ik, ib]), cor[ik, ..., ib].tolist()):
                            tot += np.array([float(o.occ_der(e, t, self.der)) for e in efs]) / 12
            else:
                cor = data_K.E_K_corners_tetra()
                cen = data_K.E_K
                for ik in range(cor.shape[0]):
                    for ib in range(cor.shape[-1]):
                        t = [float(x) for x in cor[ik, :, ib]]
                        tot += np.array([float(o.occ_der(e, t, self.der)) for e in efs])
            self.span[0] = min(self.span[0], cor.min(), cen.min())
            self.span[1] = max(self.span[1], cor.max(), cen.max())
            tot /= data_K.nk
            return EnergyResult(self.Efermi, tot, transformTR=transform_ident, transformInv=transform_ident,
                                save_mode="bin")

    s = make_run_system(case["system"], seed)
    if case["grid"] == "paral":
        grid = wb.Grid(s, NK=(4, 2, 2), NKFFT=(2, 1, 2))
    elif case["grid"] == "paral2":
        grid = wb.Grid(s, NK=(3, 6, 4), NKFFT=(1, 3, 2))
    elif case["grid"] == "tetra":
        grid = wb.grid.GridTetra(s, length=3.0, NKFFT=(2, 1, 2))
    else:
        grid = wb.grid.GridTetra(s, length=5.0, NKFFT=(1, 2, 1))
    # Fermi levels: far below, inside (generic, never on a corner energy), far above
    if case["system"] == "flat2":
        inner = 10.0005 + 1e-3 * np.linspace(-6.13, 6.29, 14)
    else:
        inner = np.linspace(-5.13, 7.29, 14)
    Ef = np.concatenate(([inner[0] - 50.0], inner, [inner[-1] + 50.0]))
    ex0, ex1 = ExactTetra(Ef, 0), ExactTetra(Ef, 1)
    calcs = {"cumdos": static.CumDOS(Efermi=Ef, tetra=True), "dos": static.DOS(Efermi=Ef, tetra=True),
             "exact0": ex0, "exact1": ex1}
    tmp = tempfile.mkdtemp(prefix="wbmc_c14_")
    try:
        res = wb.run(s, grid, calcs, adpt_num_iter=0, use_irred_kpt=False, symmetrize=False, parallel=False,
                     fout_name=os.path.join(tmp, "res"), file_Klist_path=os.path.join(tmp, "klist"),
                     print_progress_step_time=1e9)
    finally:
        shutil.rmtree(tmp, ignore_errors=True)
    cd = np.array(res.results["cumdos"].data)
    dos = np.array(res.results["dos"].data)
    r0 = np.array(res.results["exact0"].data)
    r1 = np.array(res.results["exact1"].data)
    tag = f"system={case['system']} grid={case['grid']} num_wann={s.num_wann}"
    if not (ex0.span[0] > Ef[0] and ex0.span[1] < Ef[-1]):
        return {"ok": False, "key": "check:run:fermi_grid_does_not_enclose_bands", "detail": f"{tag} span={ex0.span}"}
    if abs(cd[0]) > 1e-9 or abs(cd[-1] - s.num_wann) > 1e-9 * s.num_wann:
        return {"ok": False, "key": "run:CumDOS_tetra:limits",
                "detail": f"{tag}: CumDOS below all corners {cd[0]!r} (expected 0), above all corners {cd[-1]!r} "
                          f"(expected {s.num_wann})"}
    if np.max(np.abs(cd - r0)) > 1e-9 * s.num_wann:
        i = int(np.argmax(np.abs(cd - r0)))
        return {"ok": False, "key": "run:CumDOS_tetra:value",
                "detail": f"{tag} Ef={Ef[i]!r}: CumDOS(tetra) {cd[i]!r}, exact tetrahedron sum {r0[i]!r}"}
    if abs(dos[0]) > 0 or abs(dos[-1]) > 0:
        return {"ok": False, "key": "run:DOS_tetra:outside_bands", "detail": f"{tag}: DOS {dos[0]!r}, {dos[-1]!r} outside all bands"}
    scale = np.abs(r1).max()
    if not np.all(np.isfinite(dos)) or np.max(np.abs(dos - r1)) > 1e-7 * scale:
        i = int(np.argmax(np.abs(dos - r1)))
        return {"ok": False, "key": "run:DOS_tetra:value",
                "detail": f"{tag} Ef={Ef[i]!r}: DOS(tetra) {dos[i]!r}, exact tetrahedron sum {r1[i]!r} (max exact DOS on the "
                          f"Fermi grid {scale!r}; band energies span [{ex0.span[0]:.6g},{ex0.span[1]:.6g}])"}
    return {"ok": True, "nontrivial": ("run", case["system"], case["grid"]),
            "obs": {"cumdos_mid": float(cd[len(cd) // 2]), "dos_max": float(dos.max()),
                    "max_dos_err_rel": float(np.max(np.abs(dos - r1)) / scale)}}


# ------------------------------------------------------------------------------------------------ dispatch

def run_case(case, seed):
    k = case["kind"]
    if k == "w4":
        return run_w4(case)
    if k == "shift":
        return run_shift(case)
    if k == "groups":
        return run_groups(case)
    if k == "paral":
        return run_paral(case)
    if k == "run":
        return run_run(case, seed)
    raise KeyError(k)


def finish(tier, cases, results):
    by = {}
    ev = 0
    for c, r in zip(cases, results):
        by[c["kind"]] = by.get(c["kind"], 0) + 1
        ev += int((r.get("obs") or {}).get("evaluations", 0))
    nA = len(A_QUICK if tier == "quick" else A_THOROUGH)
    return {"cases_by_kind": by, "corner_alphabet_size": nA, "ordered_corner_tuples": nA ** 4,
            "weights_tetra_values_compared_w4_shift": ev,
            "paral_corner_arrays": 3 ** 8 * len(P_CENTRES), "group_corner_assignments": (4 if tier == "quick" else 5) ** 5}
